import RtenVerif.Model.Poly

/-!
Helper lemmas for C35 (`RtenVerif.Model.Poly`): the pivot fold, termination of the
Douglas–Peucker recursion, the `Spans` specification and its composition lemma.
-/
namespace RtenVerif.Poly

variable {P D : Type}

/-- The properties of the float comparisons `>=`, `>` that the Douglas–Peucker argument
uses.  They hold for IEEE comparisons *including NaN* (`ge a a` = "`a` is not NaN"), for any
linear order, and for `Option Int` with `none` as NaN (see `optCmp_laws`). -/
structure Cmp.Laws (c : Cmp D) : Prop where
  ge_total : ∀ a b, c.ge a a = true → c.ge b b = true → c.ge a b = true ∨ c.ge b a = true
  ge_trans : ∀ a b d, c.ge a b = true → c.ge b d = true → c.ge a d = true
  ge_left : ∀ a b, c.ge a b = true → c.ge a a = true
  gt_num : ∀ a e, c.gt a e = true → c.ge a a = true
  gt_mono : ∀ a b e, c.gt a e = true → c.ge b a = true → c.gt b e = true
  ge_not_gt : ∀ a e, c.ge e a = true → c.gt a e = false
  zero_num : c.ge c.zero c.zero = true

theorem pivot_spec (c : Cmp D) (h : c.Laws) (dist : P → D) :
    ∀ (l : List P) (i : Nat) (acc : Nat × D), c.ge acc.2 acc.2 = true →
      c.ge (pivot c dist l i acc).2 (pivot c dist l i acc).2 = true ∧
      c.ge (pivot c dist l i acc).2 acc.2 = true ∧
      (∀ p ∈ l, c.ge (dist p) (dist p) = true → c.ge (pivot c dist l i acc).2 (dist p) = true) ∧
      (pivot c dist l i acc = acc ∨
        (i < (pivot c dist l i acc).1 ∧ (pivot c dist l i acc).1 ≤ i + l.length)) := by
  intro l
  induction l with
  | nil => intro i acc hacc; simp [pivot, hacc]
  | cons p ps ih =>
    intro i acc hacc
    simp only [pivot]
    by_cases hge : c.ge (dist p) acc.2 = true
    · simp only [hge, if_true]
      have hd : c.ge (dist p) (dist p) = true := h.ge_left _ _ hge
      obtain ⟨h1, h2, h3, h4⟩ := ih (i + 1) (i + 1, dist p) hd
      refine ⟨h1, h.ge_trans _ _ _ h2 hge, ?_, ?_⟩
      · intro q hq hqn
        rcases List.mem_cons.mp hq with rfl | hq
        · exact h2
        · exact h3 q hq hqn
      · right
        rcases h4 with h4 | h4
        · rw [h4]; simp only [List.length_cons]; omega
        · simp only [List.length_cons]; omega
    · rw [if_neg hge]
      obtain ⟨h1, h2, h3, h4⟩ := ih (i + 1) acc hacc
      refine ⟨h1, h2, ?_, ?_⟩
      · intro q hq hqn
        rcases List.mem_cons.mp hq with rfl | hq
        · rcases h.ge_total _ _ hqn hacc with h5 | h5
          · exact absurd h5 hge
          · exact h.ge_trans _ _ _ h2 h5
        · exact h3 q hq hqn
      · rcases h4 with h4 | h4
        · left; simpa using h4
        · right; simp only [List.length_cons]; omega

/-- If the maximum found by the fold is not `> eps`, no inner point is `> eps`. -/
theorem pivot_within (c : Cmp D) (h : c.Laws) (dist : P → D) (eps : D) (l : List P)
    (hm : c.gt (pivot c dist l 0 (0, c.zero)).2 eps = false) :
    ∀ p ∈ l, c.gt (dist p) eps = false := by
  intro p hp
  obtain ⟨_, _, h3, _⟩ := pivot_spec c h dist l 0 (0, c.zero) h.zero_num
  cases hg : c.gt (dist p) eps with
  | false => rfl
  | true =>
    have := h.gt_mono _ _ _ hg (h3 p hp (h.gt_num _ _ hg))
    rw [hm] at this; cases this

/-- If the maximum is `> eps` and `eps >= 0`, the pivot index is that of an inner point. -/
theorem pivot_index (c : Cmp D) (h : c.Laws) (dist : P → D) (eps : D) (l : List P)
    (heps : c.ge eps c.zero = true)
    (hm : c.gt (pivot c dist l 0 (0, c.zero)).2 eps = true) :
    0 < (pivot c dist l 0 (0, c.zero)).1 ∧ (pivot c dist l 0 (0, c.zero)).1 ≤ l.length := by
  obtain ⟨_, _, _, h4⟩ := pivot_spec c h dist l 0 (0, c.zero) h.zero_num
  rcases h4 with h4 | h4
  · rw [h4] at hm
    have := h.ge_not_gt _ _ heps
    simp only at hm
    rw [this] at hm; cases hm
  · omega

/-! ### Specification of a simplification -/

/-- `Spans within inp out`: `out` arises from the polyline `inp` by deleting runs of interior
points, each deleted point `p` satisfying `within a b p` for the kept segment `a → b` that
spans it.  First and last point are kept. -/
inductive Spans (within : P → P → P → Prop) : List P → List P → Prop
  | single (a : P) : Spans within [a] [a]
  | seg (a b : P) (mid rest out : List P) :
      (∀ p ∈ mid, within a b p) → Spans within (b :: rest) (b :: out) →
      Spans within (a :: (mid ++ b :: rest)) (a :: b :: out)

theorem getLast?_cons_append_cons (a b : P) (mid rest : List P) :
    (a :: (mid ++ b :: rest)).getLast? = (b :: rest).getLast? := by
  rw [← List.cons_append, List.getLast?_append]
  cases h : (b :: rest).getLast? with
  | none => simp at h
  | some x => simp

theorem Spans.head {within : P → P → P → Prop} {b : P} {rest out : List P}
    (h : Spans within (b :: rest) out) : ∃ out', out = b :: out' := by
  cases h with
  | single => exact ⟨[], rfl⟩
  | seg a b' mid rest' out' _ _ => exact ⟨_, rfl⟩

theorem Spans.two' {within : P → P → P → Prop} {inp out : List P}
    (h : Spans within inp out) (h2 : 2 ≤ inp.length) :
    ∃ a c out', out = a :: c :: out' ∧ inp.head? = some a := by
  cases h with
  | single a => simp at h2
  | seg a' b' mid rest' out' _ _ => exact ⟨_, _, _, rfl, rfl⟩

theorem Spans.two {within : P → P → P → Prop} {a b : P} {rest out : List P}
    (h : Spans within (a :: b :: rest) out) : ∃ c out', out = a :: c :: out' := by
  obtain ⟨a', c, o, ho, ha⟩ := h.two' (by simp)
  simp only [List.head?_cons, Option.some.injEq] at ha
  subst ha
  exact ⟨c, o, ho⟩

theorem Spans.ne_nil {within : P → P → P → Prop} {inp out : List P}
    (h : Spans within inp out) : inp ≠ [] ∧ out ≠ [] := by
  cases h <;> simp

theorem Spans.sublist {within : P → P → P → Prop} {inp out : List P}
    (h : Spans within inp out) : out.Sublist inp := by
  induction h with
  | single a => exact List.Sublist.refl _
  | seg a b mid rest out _ _ ih =>
    exact List.Sublist.cons_cons a ((ih.trans (List.sublist_append_right mid (b :: rest))))

theorem Spans.getLast? {within : P → P → P → Prop} {inp out : List P}
    (h : Spans within inp out) : out.getLast? = inp.getLast? := by
  induction h with
  | single a => rfl
  | seg a b mid rest out _ _ ih =>
    rw [List.getLast?_cons_cons, ih, getLast?_cons_append_cons]

/-- Dropping the (common) last point: the kept interior is a subsequence of the interior. -/
theorem Spans.dropLast_sublist {within : P → P → P → Prop} {inp out : List P}
    (h : Spans within inp out) : out.dropLast.Sublist inp.dropLast := by
  induction h with
  | single a => exact List.Sublist.refl _
  | seg a b mid rest out _ _ ih =>
    have e1 : (a :: b :: out).dropLast = a :: (b :: out).dropLast := rfl
    have e2 : (a :: (mid ++ b :: rest)).dropLast = a :: (mid ++ (b :: rest).dropLast) := by
      rw [List.dropLast_cons_of_ne_nil (by simp), List.dropLast_append_of_ne_nil (by simp)]
    rw [e1, e2]
    exact List.Sublist.cons_cons a (ih.trans (List.sublist_append_right mid _))

/-- Composition at a shared pivot `m`: `xs` ends with `m`, the second polyline starts with it. -/
theorem Spans.append {within : P → P → P → Prop} {xs o1 : List P}
    (h1 : Spans within xs o1) :
    ∀ {m : P} {ys o2 : List P}, xs.getLast? = some m → Spans within (m :: ys) o2 →
      Spans within (xs ++ ys) (o1.dropLast ++ o2) := by
  induction h1 with
  | single a =>
    intro m ys o2 hl h2
    simp at hl; subst hl
    simpa using h2
  | seg a b mid rest out hw _ ih =>
    intro m ys o2 hl h2
    have hl' : (b :: rest).getLast? = some m := by
      rw [← getLast?_cons_append_cons a b mid rest]; exact hl
    have h3 := ih hl' h2
    obtain ⟨L, hL⟩ := Spans.head (by simpa using h3)
    have e1 : (a :: b :: out).dropLast = a :: (b :: out).dropLast := rfl
    have e2 : a :: (mid ++ b :: rest) ++ ys = a :: (mid ++ b :: (rest ++ ys)) := by simp
    have e3 : (a :: b :: out).dropLast ++ o2 = a :: b :: L := by
      rw [e1, List.cons_append, hL]
    rw [e2, e3]
    refine Spans.seg a b mid (rest ++ ys) L hw ?_
    rw [← hL]; simpa using h3

/-! ### The recursion -/

theorem dropLast_concat_getLastD (a : P) (rest : List P) (h : rest ≠ []) :
    rest.dropLast ++ [rest.getLastD a] = rest := by
  induction rest with
  | nil => exact absurd rfl h
  | cons x xs ih =>
    cases xs with
    | nil => rfl
    | cons y ys =>
      have := ih (by simp)
      simp only [List.dropLast_cons_cons, List.cons_append, List.getLastD_cons] at this ⊢
      rw [this]

/-- Termination: fuel larger than the number of points is never exhausted. -/
theorem dpInternal_isSome (c : Cmp D) (h : c.Laws) (dist : P → P → P → D) (eps : D)
    (heps : c.ge eps c.zero = true) :
    ∀ (fuel : Nat) (pts : List P) (k : Bool), pts.length < fuel →
      (dpInternal c dist eps fuel pts k).isSome = true := by
  intro fuel
  induction fuel with
  | zero => intro pts k hl; omega
  | succ fuel ih =>
    intro pts k hl
    match pts with
    | [] => simp [dpInternal]
    | [p] => simp [dpInternal]
    | a :: b0 :: rest0 =>
      simp only [dpInternal]
      split
      · rename_i hgt
        have hidx := pivot_index c h _ eps _ heps hgt
        simp only [List.length_dropLast, List.length_cons] at hidx
        have h1 := ih ((a :: b0 :: rest0).take
          ((pivot c (dist a ((b0 :: rest0).getLastD a)) (b0 :: rest0).dropLast 0 (0, c.zero)).1 + 1))
          false (by simp only [List.length_take, List.length_cons] at hl ⊢; omega)
        have h2 := ih ((a :: b0 :: rest0).drop
          (pivot c (dist a ((b0 :: rest0).getLastD a)) (b0 :: rest0).dropLast 0 (0, c.zero)).1)
          k (by simp only [List.length_drop, List.length_cons] at hl ⊢; omega)
        obtain ⟨l, hl'⟩ := Option.isSome_iff_exists.mp h1
        obtain ⟨r, hr'⟩ := Option.isSome_iff_exists.mp h2
        rw [hl', hr']; rfl
      · rfl

/-- "`p` is not farther than `eps` from the segment `a → b`", as the code tests it. -/
def Within (c : Cmp D) (dist : P → P → P → D) (eps : D) (a b p : P) : Prop :=
  c.gt (dist a b p) eps = false

theorem take_succ_getLast? (l : List P) (i : Nat) (hi : i < l.length) :
    (l.take (i + 1)).getLast? = some l[i] := by
  rw [List.getLast?_take]
  simp [hi]

theorem dpInternal_spans (c : Cmp D) (h : c.Laws) (dist : P → P → P → D) (eps : D)
    (heps : c.ge eps c.zero = true) :
    ∀ (fuel : Nat) (pts : List P) (k : Bool) (out : List P), pts ≠ [] →
      dpInternal c dist eps fuel pts k = some out →
      (k = true → Spans (Within c dist eps) pts out) ∧
      (k = false → 2 ≤ pts.length → ∀ z, pts.getLast? = some z →
        Spans (Within c dist eps) pts (out ++ [z])) := by
  intro fuel
  induction fuel with
  | zero => intro pts k out _ hd; simp [dpInternal] at hd
  | succ fuel ih =>
    intro pts k out hne hd
    match pts with
    | [] => exact absurd rfl hne
    | [p] =>
      simp only [dpInternal, Option.some.injEq] at hd
      subst hd
      exact ⟨fun _ => Spans.single p, fun _ h2 => by simp at h2⟩
    | a :: b0 :: rest0 =>
      simp only [dpInternal] at hd
      have hrest := dropLast_concat_getLastD a (b0 :: rest0) (by simp)
      generalize hb : (b0 :: rest0).getLastD a = b at hd hrest
      generalize hin : (b0 :: rest0).dropLast = inner at hd hrest
      have hlast : (a :: b0 :: rest0).getLast? = some b := by
        rw [← hrest]; exact getLast?_cons_append_cons a b inner []
      split at hd
      · rename_i hgt
        have hidx := pivot_index c h _ eps _ heps hgt
        generalize hm : (pivot c (dist a b) inner 0 (0, c.zero)).1 = m at hd hidx
        have hlen : (a :: b0 :: rest0).length = inner.length + 2 := by
          rw [← hrest]; simp
        generalize hpts : a :: b0 :: rest0 = pts at hd hlen hlast
        have hmlt : m < pts.length := by omega
        split at hd
        · rename_i l r hl hr
          simp only [Option.some.injEq] at hd
          subst hd
          have htk : (pts.take (m + 1)).getLast? = some pts[m] := take_succ_getLast? pts m hmlt
          have hdr : pts.drop m = pts[m] :: pts.drop (m + 1) := List.drop_eq_getElem_cons hmlt
          have hL := (ih (pts.take (m + 1)) false l (by
            intro h0; have := congrArg List.length h0
            simp only [List.length_take, List.length_nil] at this; omega) hl).2 rfl
            (by simp only [List.length_take]; omega) _ htk
          have hR := ih (pts.drop m) k r (by
            intro h0; have := congrArg List.length h0
            simp only [List.length_drop, List.length_nil] at this; omega) hr
          have hlastd : (pts.drop m).getLast? = some b := by
            rw [List.getLast?_drop, if_neg (by omega), hlast]
          constructor
          · intro hk
            have h2 := hR.1 hk
            rw [hdr] at h2
            have := Spans.append hL htk h2
            rwa [List.take_append_drop, List.dropLast_concat] at this
          · intro hk _ z hz
            have hzb : z = b := by rw [hlast] at hz; exact (Option.some.inj hz).symm
            subst hzb
            have h2 := hR.2 hk (by simp only [List.length_drop]; omega) z hlastd
            rw [hdr] at h2
            have := Spans.append hL htk h2
            rw [List.take_append_drop, List.dropLast_concat] at this
            simpa using this
        · simp at hd
      · rename_i hgt
        have hgt' : c.gt (pivot c (dist a b) inner 0 (0, c.zero)).2 eps = false := by
          simpa using hgt
        have hw := pivot_within c h (dist a b) eps inner hgt'
        have hS : Spans (Within c dist eps) (a :: (inner ++ b :: [])) (a :: b :: []) :=
          Spans.seg a b inner [] [] hw (Spans.single b)
        have hp : a :: b0 :: rest0 = a :: (inner ++ [b]) := by rw [hrest]
        simp only [Option.some.injEq] at hd
        subst hd
        constructor
        · intro hk; subst hk; simpa [hp] using hS
        · intro hk _ z hz
          subst hk
          have hzb : z = b := by rw [hlast] at hz; exact (Option.some.inj hz).symm
          subst hzb
          simpa [hp] using hS

end RtenVerif.Poly
