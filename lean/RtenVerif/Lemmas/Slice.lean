import RtenVerif.Lemmas.NArr

/-! C09.T3: `SliceRange::{resolve, clamp, steps, index_range}` and `IndexRange::steps` against the
CPython slice definition (`pyBounds`, `pyCount`, `pyIndices`), over unbounded `Int`. -/
namespace RtenVerif.Layout
open RtenVerif.Arr

theorem ceil_eq (L t : Nat) (hL : 0 < L) (ht : 0 < t) :
    (L + t - 1) / t = (((L : Int) - 1) / (t : Int) + 1).toNat := by
  have h1 : (L + t - 1) / t = (L - 1) / t + 1 := by
    have : L + t - 1 = (L - 1) + t := by omega
    rw [this, Nat.add_div_right _ ht]
  have h2 : ((L : Int) - 1) / (t : Int) = (((L - 1) / t : Nat) : Int) := by
    have : ((L : Int) - 1) = ((L - 1 : Nat) : Int) := by omega
    rw [this, Int.natCast_ediv]
  rw [h1, h2]
  generalize (L - 1) / t = x
  omega

/-- In-bounds, positive step: `pyAdjust` is `offset_from_start`. -/
theorem pyAdjust_pos_inb (x t : Int) (n : Nat) (ht : t > 0) (hx : -(n : Int) ≤ x ∧ x ≤ n) :
    pyAdjust x t n = offsetFromStart x n := by
  unfold pyAdjust offsetFromStart
  simp only []
  split <;> split <;> try split
  all_goals (try split)
  all_goals omega

/-- **T3 (resolve, positive step).** `resolve` succeeds exactly when no bound needs clamping, and
then returns the CPython-adjusted bounds (with `end := max end start`). -/
theorem resolve_pos (r : SliceRange) (n : Nat) (ht : r.step > 0) :
    r.resolve n =
      if NArr.inBounds r.start n && r.stop.all (NArr.inBounds · n) then
        some ((pyBounds r.start r.stop r.step n).1.toNat,
          (max (pyBounds r.start r.stop r.step n).2 (pyBounds r.start r.stop r.step n).1).toNat)
      else none := by
  obtain ⟨start, stop, step⟩ := r
  simp only at ht
  cases stop with
  | none =>
    simp only [SliceRange.resolve, ht, if_true, Option.map_none, Option.getD_none, NArr.inBounds,
      Option.all_none, Bool.and_true, pyBounds, decide_eq_true_eq]
    by_cases hb : -(n : Int) ≤ start ∧ start ≤ n
    · rw [if_pos hb, pyAdjust_pos_inb _ _ _ ht hb]
      have : ¬ step < 0 := by omega
      simp only [this, if_false]
      have h0 : offsetFromStart start n ≥ 0 ∧ offsetFromStart start n ≤ n := by
        unfold offsetFromStart; split <;> omega
      rw [if_pos ⟨h0.1, h0.2, by omega, by omega⟩]
    · rw [if_neg hb]
      have h0 : ¬ (offsetFromStart start n ≥ 0 ∧ offsetFromStart start n ≤ n) := by
        unfold offsetFromStart; split <;> omega
      rw [if_neg (fun h => h0 ⟨h.1, h.2.1⟩)]
  | some e =>
    simp only [SliceRange.resolve, ht, if_true, Option.map_some, Option.getD_some, NArr.inBounds,
      Option.all_some, pyBounds, Bool.and_eq_true, decide_eq_true_eq]
    by_cases hb : (-(n : Int) ≤ start ∧ start ≤ n) ∧ (-(n : Int) ≤ e ∧ e ≤ n)
    · rw [if_pos hb, pyAdjust_pos_inb _ _ _ ht hb.1, pyAdjust_pos_inb _ _ _ ht hb.2]
      have h0 : offsetFromStart start n ≥ 0 ∧ offsetFromStart start n ≤ n := by
        unfold offsetFromStart; split <;> omega
      have h1 : offsetFromStart e n ≥ 0 ∧ offsetFromStart e n ≤ n := by
        unfold offsetFromStart; split <;> omega
      rw [if_pos ⟨h0.1, h0.2, h1.1, h1.2⟩]
    · rw [if_neg hb]
      have h0 : ¬ ((offsetFromStart start n ≥ 0 ∧ offsetFromStart start n ≤ n) ∧
          (offsetFromStart e n ≥ 0 ∧ offsetFromStart e n ≤ n)) := by
        unfold offsetFromStart; split <;> split <;> omega
      rw [if_neg (fun h => h0 ⟨⟨h.1, h.2.1⟩, h.2.2.1, h.2.2.2⟩)]

/-! ### clamp + resolve = CPython adjustment -/

theorem clamp_start_pos (x t : Int) (n : Nat) (ht : t > 0) :
    offsetFromStart (clampI x (-(n : Int)) n) n = pyAdjust x t n := by
  unfold offsetFromStart clampI pyAdjust
  simp only []
  split <;> split <;> (try split) <;> (try split) <;> (try split) <;> omega

theorem clamp_end_neg (x t : Int) (n : Nat) (ht : t < 0) :
    offsetFromEnd (clampI x (-(n : Int) - 1) ((n : Int) - 1)) n = (n : Int) - 1 - pyAdjust x t n := by
  unfold offsetFromEnd clampI pyAdjust
  simp only []
  split <;> split <;> (try split) <;> (try split) <;> (try split) <;> omega

theorem pyAdjust_range_pos (x t : Int) (n : Nat) (ht : t > 0) :
    0 ≤ pyAdjust x t n ∧ pyAdjust x t n ≤ n := by
  unfold pyAdjust
  simp only []
  split <;> (try split) <;> (try split) <;> omega

theorem pyAdjust_range_neg (x t : Int) (n : Nat) (ht : t < 0) :
    -1 ≤ pyAdjust x t n ∧ pyAdjust x t n ≤ (n : Int) - 1 := by
  unfold pyAdjust
  simp only []
  split <;> (try split) <;> (try split) <;> omega

/-- `resolve_clamped` never fails (the `unwrap` in the code cannot panic); closed form. -/
theorem resolveClamped_eq (r : SliceRange) (n : Nat) :
    r.resolveClamped n =
      let S := (pyBounds r.start r.stop r.step n).1
      let E := (pyBounds r.start r.stop r.step n).2
      if r.step > 0 then some (S.toNat, (max E S).toNat)
      else if r.step < 0 then some (((n : Int) - 1 - S).toNat, (max ((n : Int) - 1 - E) ((n : Int) - 1 - S)).toNat)
      else r.resolveClamped n := by
  obtain ⟨start, stop, step⟩ := r
  by_cases ht : step > 0
  · simp only [ht, if_true]
    have hS := pyAdjust_range_pos start step n ht
    cases stop with
    | none =>
      simp only [SliceRange.resolveClamped, SliceRange.clamp, SliceRange.resolve, ht, if_true,
        Option.map_none, Option.getD_none, pyBounds, clamp_start_pos _ _ _ ht]
      have : ¬ step < 0 := by omega
      simp only [this, if_false]
      rw [if_pos ⟨hS.1, hS.2, by omega, by omega⟩]
    | some e =>
      have hE := pyAdjust_range_pos e step n ht
      simp only [SliceRange.resolveClamped, SliceRange.clamp, SliceRange.resolve, ht, if_true,
        Option.map_some, Option.getD_some, pyBounds, clamp_start_pos _ _ _ ht]
      rw [if_pos ⟨hS.1, hS.2, hE.1, hE.2⟩]
  · by_cases hn : step < 0
    · simp only [ht, hn, if_true, if_false]
      have hS := pyAdjust_range_neg start step n hn
      cases stop with
      | none =>
        simp only [SliceRange.resolveClamped, SliceRange.clamp, SliceRange.resolve, ht, if_false,
          Option.map_none, Option.getD_none, pyBounds, clamp_end_neg _ _ _ hn, hn, if_true]
        rw [if_pos ⟨by omega, by omega, by omega, by omega⟩]
        congr 2
        omega
      | some e =>
        have hE := pyAdjust_range_neg e step n hn
        simp only [SliceRange.resolveClamped, SliceRange.clamp, SliceRange.resolve, ht, if_false,
          Option.map_some, Option.getD_some, pyBounds, clamp_end_neg _ _ _ hn]
        rw [if_pos ⟨by omega, by omega, by omega, by omega⟩]
    · simp only [ht, hn, if_false]

/-! ### IndexRange -/

/-- Count of a stepped range: `div_ceil` form equals CPython's `(hi - lo - 1) / t + 1`. -/
theorem count_eq (lo hi t : Int) (ht : t > 0) :
    ((max (hi - lo) 0).natAbs + t.natAbs - 1) / t.natAbs =
      if lo < hi then ((hi - lo - 1) / t + 1).toNat else 0 := by
  by_cases h : lo < hi
  · rw [if_pos h]
    have hL : (max (hi - lo) 0).natAbs = (hi - lo).toNat := by omega
    have e1 : (hi - lo) = (((hi - lo).toNat : Nat) : Int) := by omega
    have e2 : t = ((t.natAbs : Nat) : Int) := by omega
    rw [hL, ceil_eq _ _ (by omega) (by omega)]
    rw [← e1, ← e2]
  · rw [if_neg h]
    have hL : (max (hi - lo) 0).natAbs = 0 := by omega
    rw [hL]
    apply Nat.div_eq_of_lt
    omega

/-- **T3 (index_range, positive step)**: never fails and enumerates exactly CPython's indices. -/
theorem indexRange_pos (r : SliceRange) (n : Nat) (ht : r.step > 0) :
    ∃ ir, r.indexRange n = .ok ir ∧ ir.toList = pyIndices r.start r.stop r.step n ∧
      ir.steps = pyCount r.start r.stop r.step n ∧
      (ir.start : Int) = (pyBounds r.start r.stop r.step n).1 := by
  have hrc := resolveClamped_eq r n
  simp only [ht, if_true] at hrc
  unfold SliceRange.indexRange
  rw [hrc]
  simp only [ht, if_true]
  refine ⟨_, rfl, ?_⟩
  rcases hb : pyBounds r.start r.stop r.step n with ⟨S, E⟩
  have hS : 0 ≤ S := by
    have := (pyAdjust_range_pos r.start r.step n ht).1
    have e : (pyBounds r.start r.stop r.step n).1 = pyAdjust r.start r.step n := rfl
    rw [hb] at e; simp only at e; omega
  have hneg : ¬ r.step < 0 := by omega
  have hcount : (IndexRange.mk S.toNat (max ((max E S).toNat : Int) (-1)) r.step).steps
      = pyCount r.start r.stop r.step n := by
    have key := count_eq S E r.step ht
    simp only [IndexRange.steps, pyCount, hb, ht, hneg, if_true, if_false]
    rw [← key]
    congr 2
    omega
  refine ⟨?_, hcount, ?_⟩
  · simp only [IndexRange.toList, pyIndices, hcount, hb]
    apply List.map_congr_left
    intro j _
    rw [Int.toNat_of_nonneg hS]
  · simp only []
    omega

theorem pyBounds_neg_range (r : SliceRange) (n : Nat) (ht : r.step < 0) :
    -1 ≤ (pyBounds r.start r.stop r.step n).1 ∧ (pyBounds r.start r.stop r.step n).1 ≤ (n : Int) - 1 ∧
    -1 ≤ (pyBounds r.start r.stop r.step n).2 ∧ (pyBounds r.start r.stop r.step n).2 ≤ (n : Int) - 1 := by
  have hS := pyAdjust_range_neg r.start r.step n ht
  cases hst : r.stop with
  | none => simp only [pyBounds, ht, if_true]; omega
  | some e =>
    have hE := pyAdjust_range_neg e r.step n ht
    simp only [pyBounds]; omega

/-- Pre-fix `index_range`, negative step: either the adjusted start is "before the first
element" (`-1`: `start < -n`, or `n = 0`) and the code panics, or it enumerates exactly
CPython's indices. -/
theorem indexRangeOld_neg (r : SliceRange) (n : Nat) (ht : r.step < 0) :
    (r.indexRangeOld n = .error .panic ∧ (pyBounds r.start r.stop r.step n).1 = -1) ∨
    (∃ ir, r.indexRangeOld n = .ok ir ∧ ir.toList = pyIndices r.start r.stop r.step n ∧
      ir.steps = pyCount r.start r.stop r.step n ∧ (pyBounds r.start r.stop r.step n).1 ≠ -1) := by
  have hrc := resolveClamped_eq r n
  have hpos : ¬ r.step > 0 := by omega
  simp only [hpos, ht, if_true, if_false] at hrc
  have hR := pyBounds_neg_range r n ht
  unfold SliceRange.indexRangeOld
  rw [hrc]
  simp only [hpos, if_false]
  rcases hb : pyBounds r.start r.stop r.step n with ⟨S, E⟩
  rw [hb] at hR
  simp only at hR
  by_cases hS : S = -1
  · left
    subst hS
    refine ⟨?_, rfl⟩
    rw [if_pos (by omega)]
  · right
    rw [if_neg (by omega)]
    refine ⟨_, rfl, ?_⟩
    have hcount : (IndexRange.mk (n - 1 - ((n : Int) - 1 - S).toNat)
        (max ((n : Int) - 1 - ((max ((n : Int) - 1 - E) ((n : Int) - 1 - S)).toNat : Int)) (-1)) r.step).steps
        = pyCount r.start r.stop r.step n := by
      have key := count_eq E S (-r.step) (by omega)
      simp only [IndexRange.steps, pyCount, hb, ht, hpos, if_true, if_false]
      rw [← key, Int.natAbs_neg]
      congr 1
      omega
    refine ⟨?_, hcount, hS⟩
    simp only [IndexRange.toList, pyIndices, hcount, hb]
    apply List.map_congr_left
    intro j _
    congr 2
    omega

/-- **T3 (index_range, negative step)**: never fails and enumerates exactly CPython's indices
(the underflow branch is unreachable after fix `6e0e117`). -/
theorem indexRange_neg (r : SliceRange) (n : Nat) (ht : r.step < 0) :
    ∃ ir, r.indexRange n = .ok ir ∧ ir.toList = pyIndices r.start r.stop r.step n ∧
      ir.steps = pyCount r.start r.stop r.step n := by
  have hrc := resolveClamped_eq r n
  have hpos : ¬ r.step > 0 := by omega
  simp only [hpos, ht, if_true, if_false] at hrc
  have hR := pyBounds_neg_range r n ht
  unfold SliceRange.indexRange
  rw [hrc]
  simp only [hpos, if_false]
  rcases hb : pyBounds r.start r.stop r.step n with ⟨S, E⟩
  rw [hb] at hR
  simp only at hR
  by_cases hSE : S ≤ E
  · -- nothing selected: the resolved range is empty
    rw [if_pos (by omega)]
    refine ⟨_, rfl, ?_⟩
    have hc : pyCount r.start r.stop r.step n = 0 := by
      simp only [pyCount, hb, ht, if_true]
      rw [if_neg (by omega)]
    have hs : (IndexRange.mk 0 0 r.step).steps = 0 := by
      simp only [IndexRange.steps, hpos, if_false]
      apply Nat.div_eq_of_lt
      omega
    refine ⟨?_, by rw [hs, hc]⟩
    simp [IndexRange.toList, pyIndices, hs, hc]
  · rw [if_neg (by omega), if_neg (by omega)]
    refine ⟨_, rfl, ?_⟩
    have hcount : (IndexRange.mk (n - 1 - ((n : Int) - 1 - S).toNat)
        (max ((n : Int) - 1 - ((max ((n : Int) - 1 - E) ((n : Int) - 1 - S)).toNat : Int)) (-1)) r.step).steps
        = pyCount r.start r.stop r.step n := by
      have key := count_eq E S (-r.step) (by omega)
      simp only [IndexRange.steps, pyCount, hb, ht, hpos, if_true, if_false]
      rw [← key, Int.natAbs_neg]
      congr 1
      omega
    refine ⟨?_, hcount⟩
    simp only [IndexRange.toList, pyIndices, hcount, hb]
    apply List.map_congr_left
    intro j _
    congr 2
    omega

/-- When does the adjusted start of a negative-step slice fall before the first element? -/
theorem neg_start_before (start t : Int) (n : Nat) (ht : t < 0) :
    pyAdjust start t n = -1 ↔ (start < -(n : Int) ∨ n = 0) := by
  unfold pyAdjust
  simp only []
  split <;> (try split) <;> (try split) <;> omega

/-! ### `SliceRange::steps` -/

theorem clamp_start_neg (x t : Int) (n : Nat) (ht : t < 0) :
    offsetFromStart (clampI x (-(n : Int) - 1) ((n : Int) - 1)) n = pyAdjust x t n := by
  unfold offsetFromStart clampI pyAdjust
  simp only []
  split <;> split <;> (try split) <;> (try split) <;> (try split) <;> omega

/-- **T3 (`SliceRange::steps`)**: the element count is CPython's, for every start/stop/step≠0/n. -/
theorem steps_eq_pyCount (r : SliceRange) (n : Nat) (h0 : r.step ≠ 0) :
    r.steps n = pyCount r.start r.stop r.step n := by
  obtain ⟨start, stop, step⟩ := r
  simp only at h0
  by_cases ht : step > 0
  · have hneg : ¬ step < 0 := by omega
    have hS := pyAdjust_range_pos start step n ht
    cases stop with
    | none =>
      simp only [SliceRange.steps, SliceRange.clamp, ht, hneg, if_true, if_false, Option.map_none,
        Option.getD_none, clamp_start_pos _ _ _ ht, pyCount, pyBounds, true_and, false_and, or_false, false_or]
      by_cases hc : pyAdjust start step n < (n : Int)
      · simp only [hc, ↓reduceIte]
        rw [if_neg (by omega), Int.tdiv_eq_ediv_of_nonneg (by omega)]
        omega
      · simp only [hc, ↓reduceIte]
        rw [if_pos (by omega)]
    | some e =>
      have hE := pyAdjust_range_pos e step n ht
      simp only [SliceRange.steps, SliceRange.clamp, ht, hneg, if_true, if_false, Option.map_some,
        Option.getD_some, clamp_start_pos _ _ _ ht, pyCount, pyBounds, true_and, false_and, or_false, false_or]
      by_cases hc : pyAdjust start step n < pyAdjust e step n
      · simp only [hc, ↓reduceIte]
        rw [if_neg (by omega), Int.tdiv_eq_ediv_of_nonneg (by omega)]
        omega
      · simp only [hc, ↓reduceIte]
        rw [if_pos (by omega)]
  · have hn : step < 0 := by omega
    have hS := pyAdjust_range_neg start step n hn
    cases stop with
    | none =>
      simp only [SliceRange.steps, SliceRange.clamp, ht, hn, if_true, if_false, Option.map_none,
        Option.getD_none, clamp_start_neg _ _ _ hn, pyCount, pyBounds, true_and, false_and, or_false, false_or]
      by_cases hc : (-1 : Int) < pyAdjust start step n
      · simp only [hc, ↓reduceIte]
        rw [if_neg (by omega), Int.tdiv_eq_ediv_of_nonneg (by omega)]
        omega
      · simp only [hc, ↓reduceIte]
        rw [if_pos (by omega)]
    | some e =>
      have hE := pyAdjust_range_neg e step n hn
      simp only [SliceRange.steps, SliceRange.clamp, ht, hn, if_true, if_false, Option.map_some,
        Option.getD_some, clamp_start_neg _ _ _ hn, pyCount, pyBounds, true_and, false_and, or_false, false_or]
      by_cases hc : pyAdjust e step n < pyAdjust start step n
      · simp only [hc, ↓reduceIte]
        rw [if_neg (by omega), Int.tdiv_eq_ediv_of_nonneg (by omega)]
        omega
      · simp only [hc, ↓reduceIte]
        rw [if_pos (by omega)]

end RtenVerif.Layout
