import RtenVerif.Model.FillIter

/-!
Lemmas for the `FillIter` model (C36.T3): insertion sort membership/sortedness, `takeStart`,
the lifetime invariant of `update_active_edges` (an active edge ends at or above the bottom of
the bounding rect), the bounding rect, and the invariant + measure of the iteration.
-/
namespace RtenVerif.Contours

/-! ### insertion sort -/

theorem mem_insertE (le : Edge → Edge → Bool) (x y : Edge) (l : List Edge) :
    y ∈ insertE le x l ↔ y = x ∨ y ∈ l := by
  induction l with
  | nil => simp [insertE]
  | cons z zs ih =>
    simp only [insertE]
    split
    · simp
    · simp only [List.mem_cons, ih]
      constructor
      · rintro (h | h | h) <;> simp [h]
      · rintro (h | h | h) <;> simp [h]

theorem mem_isortE (le : Edge → Edge → Bool) (y : Edge) (l : List Edge) :
    y ∈ isortE le l ↔ y ∈ l := by
  induction l with
  | nil => simp [isortE]
  | cons x xs ih => simp [isortE, mem_insertE, ih]

def byStart (a c : Edge) : Bool := decide (a.startY ≤ c.startY)

theorem insertE_sorted (x : Edge) (l : List Edge)
    (hs : l.Pairwise (fun a c => a.startY ≤ c.startY)) :
    (insertE byStart x l).Pairwise (fun a c => a.startY ≤ c.startY) := by
  induction l with
  | nil => simp [insertE]
  | cons y ys ih =>
    obtain ⟨hy, hys⟩ := List.pairwise_cons.mp hs
    simp only [insertE]
    split
    · rename_i hle
      simp only [byStart, decide_eq_true_eq] at hle
      refine List.pairwise_cons.mpr ⟨?_, hs⟩
      intro z hz
      rcases List.mem_cons.mp hz with rfl | hz
      · exact hle
      · have := hy z hz; omega
    · rename_i hle
      simp only [byStart, decide_eq_true_eq] at hle
      refine List.pairwise_cons.mpr ⟨?_, ih hys⟩
      intro z hz
      rcases (mem_insertE _ x z ys).mp hz with rfl | hz
      · omega
      · exact hy z hz

theorem isortE_sorted (l : List Edge) :
    (isortE byStart l).Pairwise (fun a c => a.startY ≤ c.startY) := by
  induction l with
  | nil => simp [isortE]
  | cons x xs ih => exact insertE_sorted x _ ih

/-! ### `takeStart` -/

theorem takeStart_fst (y : Int) (l : List Edge) :
    ∀ e ∈ (takeStart y l).1, e ∈ l ∧ e.startY ≤ y := by
  induction l with
  | nil => intro e he; simp [takeStart] at he
  | cons x xs ih =>
    intro e he
    simp only [takeStart] at he
    split at he
    · simp at he
    · rename_i hx
      rcases List.mem_cons.mp he with rfl | he
      · exact ⟨List.mem_cons_self, by omega⟩
      · exact ⟨List.mem_cons_of_mem _ (ih e he).1, (ih e he).2⟩

theorem takeStart_snd (y : Int) (l : List Edge)
    (hs : l.Pairwise (fun a c => a.startY ≤ c.startY)) :
    (takeStart y l).2.Pairwise (fun a c => a.startY ≤ c.startY) ∧
    ∀ e ∈ (takeStart y l).2, e ∈ l ∧ y < e.startY := by
  induction l with
  | nil => simp [takeStart]
  | cons x xs ih =>
    obtain ⟨hx, hxs⟩ := List.pairwise_cons.mp hs
    simp only [takeStart]
    split
    · rename_i hgt
      refine ⟨hs, ?_⟩
      intro e he
      rcases List.mem_cons.mp he with rfl | he'
      · exact ⟨he, by omega⟩
      · exact ⟨he, by have := hx e he'; omega⟩
    · obtain ⟨h1, h2⟩ := ih hxs
      exact ⟨h1, fun e he => ⟨List.mem_cons_of_mem _ (h2 e he).1, (h2 e he).2⟩⟩

/-! ### `update_active_edges` keeps the edge lifetimes inside the bounding rect -/

theorem advanceEdge_spec {e e' : Edge} (h : advanceEdge e = some e') :
    e'.ySteps = e.ySteps - 1 ∧ 1 ≤ e'.ySteps ∧ e'.startY = e.startY := by
  unfold advanceEdge at h
  simp only at h
  split at h
  · rename_i hpos
    split at h <;> (simp only [Option.some.injEq] at h; subst h; exact ⟨rfl, by show 1 ≤ e.ySteps - 1; omega, rfl⟩)
  · cases h

theorem update_inv (ynew bottom : Int) (active pending : List Edge)
    (ha : ∀ e ∈ active, 1 ≤ e.ySteps ∧ ynew - 1 + e.ySteps ≤ bottom)
    (hp : ∀ e ∈ pending, 1 ≤ e.ySteps ∧ e.startY + e.ySteps ≤ bottom ∧ ynew ≤ e.startY)
    (hs : pending.Pairwise (fun a c => a.startY ≤ c.startY)) :
    (∀ e ∈ (updateActive ynew active pending).1, 1 ≤ e.ySteps ∧ ynew + e.ySteps ≤ bottom) ∧
    (∀ e ∈ (updateActive ynew active pending).2,
      1 ≤ e.ySteps ∧ e.startY + e.ySteps ≤ bottom ∧ ynew + 1 ≤ e.startY) ∧
    (updateActive ynew active pending).2.Pairwise (fun a c => a.startY ≤ c.startY) := by
  simp only [updateActive]
  obtain ⟨t1, t2⟩ := takeStart_snd ynew pending hs
  refine ⟨?_, ?_, t1⟩
  · intro e he
    rw [mem_isortE] at he
    rcases List.mem_append.mp he with he | he
    · obtain ⟨e0, he0, hadv⟩ := List.mem_filterMap.mp he
      obtain ⟨h1, h2, _⟩ := advanceEdge_spec hadv
      have := ha e0 he0
      omega
    · obtain ⟨hm, hle⟩ := takeStart_fst ynew pending e he
      have := hp e hm
      omega
  · intro e he
    obtain ⟨hm, hlt⟩ := t2 e he
    have := hp e hm
    omega


/-! ### the bounding rect -/

def Bnd (b : Int × Int × Int × Int) (p : Pt) : Prop :=
  b.1 ≤ p.1 ∧ p.1 ≤ b.2.2.1 ∧ b.2.1 ≤ p.2 ∧ p.2 ≤ b.2.2.2

def bStep (b : Int × Int × Int × Int) (q : Pt) : Int × Int × Int × Int :=
  (if q.1 < b.1 then q.1 else b.1, if q.2 < b.2.1 then q.2 else b.2.1,
   if q.1 > b.2.2.1 then q.1 else b.2.2.1, if q.2 > b.2.2.2 then q.2 else b.2.2.2)

theorem bStep_self (b) (q : Pt) : Bnd (bStep b q) q := by
  simp only [Bnd, bStep]; refine ⟨?_, ?_, ?_, ?_⟩ <;> split <;> omega

theorem bStep_mono (b) (q p : Pt) (h : Bnd b p) : Bnd (bStep b q) p := by
  obtain ⟨h1, h2, h3, h4⟩ := h
  simp only [Bnd, bStep]; refine ⟨?_, ?_, ?_, ?_⟩ <;> split <;> omega

theorem foldl_bnd (l : List Pt) (acc) (p : Pt) (h : p ∈ l ∨ Bnd acc p) :
    Bnd (l.foldl bStep acc) p := by
  induction l generalizing acc with
  | nil => rcases h with h | h; exact absurd h (by simp); exact h
  | cons q qs ih =>
    simp only [List.foldl_cons]
    apply ih
    rcases h with h | h
    · rcases List.mem_cons.mp h with rfl | h
      · exact Or.inr (bStep_self acc p)
      · exact Or.inl h
    · exact Or.inr (bStep_mono acc q p h)

theorem polyBounds_spec (pts : List Pt) (p : Pt) (hp : p ∈ pts) : Bnd (polyBounds pts) p := by
  cases pts with
  | nil => simp at hp
  | cons q qs =>
    show Bnd (qs.foldl bStep (q.1, q.2, q.1, q.2)) p
    apply foldl_bnd
    rcases List.mem_cons.mp hp with rfl | h
    · right; simp [Bnd]
    · exact Or.inl h

theorem polyEdges_mem {pts : List Pt} {e : Pt × Pt} (h : e ∈ polyEdges pts) :
    e.1 ∈ pts ∧ e.2 ∈ pts := by
  unfold polyEdges at h
  obtain ⟨h1, h2⟩ := List.of_mem_zip (a := e.1) (b := e.2) h
  refine ⟨h1, ?_⟩
  rcases List.mem_append.mp h2 with h | h
  · exact List.mem_of_mem_drop h
  · exact List.mem_of_mem_take h

theorem mkEdge_spec (b : Int × Int × Int × Int) (e : Pt × Pt) (h1 : Bnd b e.1) (h2 : Bnd b e.2)
    (hne : e.1.1 ≠ e.2.1) :
    1 ≤ (mkEdge e).ySteps ∧ (mkEdge e).startY + (mkEdge e).ySteps ≤ b.2.2.1 ∧
    b.1 ≤ (mkEdge e).startY := by
  obtain ⟨a1, a2, _, _⟩ := h1
  obtain ⟨c1, c2, _, _⟩ := h2
  simp only [mkEdge]
  split <;> omega

/-! ### the iteration -/

theorem runFill_spec (top left bottom right : Int) (hw : left < right) :
    ∀ (n : Nat) (st : FillSt),
      (left ≤ st.cursor.2 ∧ st.cursor.2 < right ∧ top ≤ st.cursor.1) →
      (∀ e ∈ st.active, 1 ≤ e.ySteps ∧ st.cursor.1 + e.ySteps ≤ bottom) →
      (∀ e ∈ st.pending, 1 ≤ e.ySteps ∧ e.startY + e.ySteps ≤ bottom ∧
        st.cursor.1 + 1 ≤ e.startY) →
      st.pending.Pairwise (fun a c => a.startY ≤ c.startY) →
      (∀ p ∈ (runFill (top, left, bottom, right) n st).1,
        top ≤ p.1 ∧ p.1 < bottom ∧ left ≤ p.2 ∧ p.2 < right) ∧
      ((bottom - st.cursor.1) * (right - left) - (st.cursor.2 - left) < n →
        (runFill (top, left, bottom, right) n st).2 = true) := by
  intro n
  induction n with
  | zero =>
    intro st hc ha _ _
    refine ⟨by simp [runFill], ?_⟩
    intro hm
    simp only [runFill]
    cases hact : st.active with
    | nil => rfl
    | cons e es =>
      exfalso
      have he := ha e (by rw [hact]; exact List.mem_cons_self)
      have h1 : (bottom - st.cursor.1) * (right - left) =
          (bottom - st.cursor.1 - 1) * (right - left) + (right - left) := by
        rw [Int.sub_mul _ 1, Int.one_mul]; omega
      have h2 : 0 ≤ (bottom - st.cursor.1 - 1) * (right - left) :=
        Int.mul_nonneg (by omega) (by omega)
      simp only [Int.natCast_zero] at hm
      omega
  | succ n ih =>
    intro st hc ha hp hs
    simp only [runFill]
    cases hact : st.active with
    | nil => simp
    | cons e0 es =>
      simp only [List.isEmpty_cons, Bool.false_eq_true, if_false]
      rw [← hact]
      have he := ha e0 (by rw [hact]; exact List.mem_cons_self)
      have hy : st.cursor.1 < bottom := by omega
      -- invariants of the successor state
      have hnext :
          (left ≤ (fillNext (top, left, bottom, right) st).cursor.2 ∧
            (fillNext (top, left, bottom, right) st).cursor.2 < right ∧
            top ≤ (fillNext (top, left, bottom, right) st).cursor.1) ∧
          (∀ e ∈ (fillNext (top, left, bottom, right) st).active,
            1 ≤ e.ySteps ∧ (fillNext (top, left, bottom, right) st).cursor.1 + e.ySteps ≤ bottom) ∧
          (∀ e ∈ (fillNext (top, left, bottom, right) st).pending,
            1 ≤ e.ySteps ∧ e.startY + e.ySteps ≤ bottom ∧
            (fillNext (top, left, bottom, right) st).cursor.1 + 1 ≤ e.startY) ∧
          (fillNext (top, left, bottom, right) st).pending.Pairwise
            (fun a c => a.startY ≤ c.startY) ∧
          (bottom - (fillNext (top, left, bottom, right) st).cursor.1) * (right - left) -
              ((fillNext (top, left, bottom, right) st).cursor.2 - left) =
            (bottom - st.cursor.1) * (right - left) - (st.cursor.2 - left) - 1 := by
        unfold fillNext
        by_cases hx : st.cursor.2 + 1 = right
        · rw [if_pos hx]
          obtain ⟨u1, u2, u3⟩ := update_inv (st.cursor.1 + 1) bottom st.active st.pending
            (fun e he' => by have := ha e he'; omega)
            (fun e he' => by have := hp e he'; omega) hs
          refine ⟨by simp only; omega, u1, u2, u3, ?_⟩
          simp only
          have : (bottom - (st.cursor.1 + 1)) * (right - left) =
              (bottom - st.cursor.1) * (right - left) - (right - left) := by
            rw [show bottom - (st.cursor.1 + 1) = bottom - st.cursor.1 - 1 by omega,
              Int.sub_mul _ 1, Int.one_mul]
          omega
        · rw [if_neg hx]
          refine ⟨by simp only; omega, ha, hp, hs, ?_⟩
          simp only
          omega
      obtain ⟨i1, i2, i3, i4, i5⟩ := hnext
      obtain ⟨r1, r2⟩ := ih _ i1 i2 i3 i4
      constructor
      · intro p hpm
        split at hpm
        · rcases List.mem_cons.mp hpm with rfl | hpm
          · exact ⟨hc.2.2, hy, hc.1, hc.2.1⟩
          · exact r1 p hpm
        · exact r1 p hpm
      · intro hm
        apply r2
        rw [i5]
        push_cast at hm
        omega


theorem fillIter_spec (pts : List Pt) :
    (∀ p ∈ (fillIter pts).1, (polyBounds pts).1 ≤ p.1 ∧ p.1 < (polyBounds pts).2.2.1 ∧
      (polyBounds pts).2.1 ≤ p.2 ∧ p.2 < (polyBounds pts).2.2.2) ∧
    (fillIter pts).2 = true := by
  unfold fillIter fillInit
  simp only
  generalize hb : polyBounds pts = b
  obtain ⟨top, left, bottom, right⟩ := b
  by_cases hemp : boundsEmpty (top, left, bottom, right) = true
  · simp only [hemp, if_true]
    have hu : updateActive bottom [] [] = ([], []) := by
      simp [updateActive, takeStart, isortE]
    rw [hu]
    simp [runFill]
  · have hne : boundsEmpty (top, left, bottom, right) = false := by simpa using hemp
    simp only [hne, Bool.false_eq_true, if_false]
    have hlr : left < right ∧ top < bottom := by
      simp only [boundsEmpty, decide_eq_false_iff_not] at hne; omega
    -- the sorted edge table
    let edges := isortE byStart (((polyEdges pts).filter fun e => e.1.1 != e.2.1).map mkEdge)
    have hedges : ∀ e ∈ edges, 1 ≤ e.ySteps ∧ e.startY + e.ySteps ≤ bottom ∧ top ≤ e.startY := by
      intro e he
      rw [mem_isortE] at he
      obtain ⟨pe, hpe, rfl⟩ := List.mem_map.mp he
      obtain ⟨hmem, hneq⟩ := List.mem_filter.mp hpe
      obtain ⟨m1, m2⟩ := polyEdges_mem hmem
      have b1 := polyBounds_spec pts pe.1 m1
      have b2 := polyBounds_spec pts pe.2 m2
      rw [hb] at b1 b2
      exact mkEdge_spec (top, left, bottom, right) pe b1 b2 (by simpa using hneq)
    obtain ⟨u1, u2, u3⟩ := update_inv top bottom [] edges (by intro e he; cases he) hedges
      (isortE_sorted _)
    obtain ⟨r1, r2⟩ := runFill_spec top left bottom right hlr.1
      (((bottom - top) * (right - left)).toNat + 1)
      { pending := (updateActive top [] edges).2, active := (updateActive top [] edges).1,
        cursor := (top, left) }
      ⟨by simp only; omega, by simp only; omega, by simp only; omega⟩ u1 u2 u3
    refine ⟨r1, r2 ?_⟩
    simp only
    have : 0 ≤ (bottom - top) * (right - left) := Int.mul_nonneg (by omega) (by omega)
    push_cast
    omega

end RtenVerif.Contours
