/-
Lemmas for the binary-operator dispatch model (C14): reading a view through broadcast strides
(stride 0 on stretched / padded axes) in row-major order is the reference broadcast `bcast` of the
view's own row-major element list — for every stride pattern of the source view.
-/
import RtenVerif.Lemmas.InPlace
import RtenVerif.Lemmas.LayoutSeq
import RtenVerif.Model.BinaryDispatch

namespace RtenVerif.Layout
open RtenVerif.Overlap RtenVerif.FastBroadcast RtenVerif.InPlace RtenVerif.Layout.Seq
open RtenVerif.Iter (rowMajor rowMajor_cons rowMajor_nil rowMajor_one rowMajor_length)

/-- `bcast` only reads the first `numel (ps.map fst)` elements of its argument. -/
theorem bcast_prefix {α : Type} : ∀ (ps : List (Nat × Nat)) (y z : List α), Compat ps →
    y.length = numel (ps.map (·.1)) → bcast ps (y ++ z) = bcast ps y
  | [], y, z, _, hy => by
    simp only [List.map_nil, numel, List.foldr_nil] at hy
    cases y with
    | nil => simp at hy
    | cons a as => simp [bcast]
  | (f, t) :: ps, y, z, hc, hy => by
    have hcp : Compat ps := fun p hp => hc p (by simp [hp])
    have hft : f = t ∨ f = 1 := hc (f, t) (by simp)
    simp only [List.map_cons, numel_cons] at hy
    rw [bcast_cons, bcast_cons]
    apply flatMap_congr'
    intro i hi
    have hi' : i < t := List.mem_range.mp hi
    generalize hj : (if f = 1 then 0 else i) = j
    generalize hin : numel (ps.map (·.1)) = inner at *
    have hjle : j * inner + inner ≤ y.length := by
      rw [hy]
      have : (j + 1) * inner ≤ f * inner := Nat.mul_le_mul_right _ (by
        rcases hft with rfl | rfl
        · subst hj; split <;> omega
        · subst hj; simp)
      rw [Nat.succ_mul] at this
      exact this
    -- split y.drop (j*inner) into its first block and the rest
    have h1 : (y ++ z).drop (j * inner) = (y.drop (j * inner)).take inner ++
        ((y.drop (j * inner)).drop inner ++ z) := by
      rw [List.drop_append_of_le_length (by omega), ← List.append_assoc, List.take_append_drop]
    have h2 : y.drop (j * inner) = (y.drop (j * inner)).take inner ++ ((y.drop (j * inner)).drop inner) :=
      (List.take_append_drop _ _).symm
    have hlen : ((y.drop (j * inner)).take inner).length = numel (ps.map (·.1)) := by
      rw [List.length_take, List.length_drop, hin]; omega
    rw [h1, bcast_prefix ps _ _ hcp hlen]
    conv => rhs; rw [h2]
    rw [bcast_prefix ps _ _ hcp hlen]

/-- Dropping `j` equal-length blocks of a block-wise list leaves block `j` in front. -/
theorem drop_blocks {β : Type} (L : Nat) : ∀ (n j : Nat) (B : Nat → List β),
    (∀ i, (B i).length = L) → j < n →
    ∃ rest, ((List.range n).flatMap B).drop (j * L) = B j ++ rest
  | 0, j, _, _, h => by omega
  | n + 1, 0, B, _, _ => by
    refine ⟨(List.range n).flatMap (fun i => B (i + 1)), ?_⟩
    rw [List.range_succ_eq_map, List.flatMap_cons, List.flatMap_map]
    simp
  | n + 1, j + 1, B, hB, h => by
    obtain ⟨rest, hr⟩ := drop_blocks L n j (fun i => B (i + 1)) (fun i => hB (i + 1)) (by omega)
    refine ⟨rest, ?_⟩
    rw [List.range_succ_eq_map, List.flatMap_cons, List.flatMap_map, Nat.succ_mul, Nat.add_comm,
      ← List.drop_drop, List.drop_append_of_le_length (by rw [hB 0]; exact Nat.le_refl _)]
    have : (B 0).drop L = [] := by rw [List.drop_eq_nil_iff]; rw [hB 0]; exact Nat.le_refl _
    rw [this, List.nil_append]
    exact hr

/-- Stride of one broadcast axis (`broadcast_strides`). -/
def bstride (p : Nat × Nat) (t : Nat) : Nat := if p.1 == 1 && decide (t > 1) then 0 else p.2

theorem numel_sizes_eq_total (d : Dims) : numel (sizes d) = RtenVerif.Iter.total d := by
  rw [total_eq_numel]; rfl

/-- Same-rank part: reading a view through broadcast strides (stride 0 on stretched axes) in
row-major order is the reference broadcast of its own row-major element list. -/
theorem rowMajor_bcast_same {α : Type} : ∀ (d : Dims) (tr : List Nat), d.length = tr.length →
    Compat (List.zip (sizes d) tr) → ∀ (g : Nat → α),
    (rowMajor (List.zip tr (List.zipWith bstride d tr))).map g =
      bcast (List.zip (sizes d) tr) ((rowMajor d).map g)
  | [], [], _, _, g => by simp [rowMajor_nil, bcast, sizes]
  | [], _ :: _, h, _, _ => by cases h
  | _ :: _, [], h, _, _ => by cases h
  | (n, st) :: d, t :: tr, hlen, hc, g => by
    have hlen' : d.length = tr.length := by simpa using hlen
    have hcp : Compat (List.zip (sizes d) tr) := fun p hp => hc p (by simp only [sizes, List.map_cons, List.zip_cons_cons, List.mem_cons]; exact Or.inr hp)
    have hnt : n = t ∨ n = 1 := hc (n, t) (by simp [sizes])
    have hfst : (List.zip (sizes d) tr).map (·.1) = sizes d :=
      List.map_fst_zip (by simp [sizes, hlen'])
    simp only [List.zipWith_cons_cons, List.zip_cons_cons, sizes, List.map_cons]
    rw [rowMajor_cons, List.map_flatMap, bcast_cons]
    apply flatMap_congr'
    intro i hi
    have hi' : i < t := List.mem_range.mp hi
    rw [List.map_map]
    have ih := rowMajor_bcast_same d tr hlen' hcp (fun o => g (i * bstride (n, st) t + o))
    simp only [sizes] at ih
    rw [show (g ∘ fun x => i * bstride (n, st) t + x) = (fun o => g (i * bstride (n, st) t + o)) from rfl, ih]
    -- the source block read by output index i
    generalize hj : (if n = 1 then 0 else i) = j
    have hjn : j < n := by
      rcases hnt with rfl | rfl
      · subst hj; split <;> omega
      · subst hj; simp
    have hmul : i * bstride (n, st) t = j * st := by
      unfold bstride
      by_cases h1 : n = 1
      · subst h1
        simp only [if_true] at hj
        subst hj
        by_cases ht : t > 1
        · simp [ht]
        · have : i = 0 := by omega
          simp [this]
      · simp only [h1, if_false] at hj
        subst hj
        simp [h1]
    rw [hmul]
    have hinner : numel ((List.zip (List.map Prod.fst d) tr).map (·.1)) = (rowMajor d).length := by
      have := hfst
      simp only [sizes] at this
      rw [this, rowMajor_length, ← numel_sizes_eq_total]; rfl
    rw [rowMajor_cons, List.map_flatMap]
    obtain ⟨rest, hrest⟩ := drop_blocks (rowMajor d).length n j
      (fun i => ((rowMajor d).map (i * st + ·)).map g) (by intro i; simp) hjn
    rw [hinner, hrest, bcast_prefix _ _ _ (by simpa [sizes] using hcp) (by simp [hinner])]
    rw [List.map_map]
    rfl


theorem zip_replicate_right {β γ : Type} (l : List β) (c : γ) :
    List.zip l (List.replicate l.length c) = l.map (fun x => (x, c)) := by
  induction l with
  | nil => rfl
  | cons x xs ih => simp [List.replicate_succ, ih]

theorem zip_replicate_left {β γ : Type} (l : List β) (c : γ) :
    List.zip (List.replicate l.length c) l = l.map (fun x => (c, x)) := by
  induction l with
  | nil => rfl
  | cons x xs ih => simp [List.replicate_succ, ih]

/-- Leading axes of stride 0 repeat the whole rest. -/
theorem rowMajor_zeros_lead {α : Type} (D : Dims) (g : Nat → α) : ∀ (L : List Nat),
    (rowMajor (L.map (fun n => (n, 0)) ++ D)).map g =
      (List.replicate (numel L) ((rowMajor D).map g)).flatten
  | [] => by simp [numel]
  | n :: L => by
    rw [List.map_cons, List.cons_append, rowMajor_cons, List.map_flatMap]
    have : ∀ i ∈ List.range n,
        ((rowMajor (L.map (fun n => (n, 0)) ++ D)).map (i * 0 + ·)).map g =
          (List.replicate (numel L) ((rowMajor D).map g)).flatten := by
      intro i _
      rw [← rowMajor_zeros_lead D g L]
      simp
    rw [flatMap_congr' _ _ _ this, flatMap_const, cycle_mul, numel_cons]

/-- **Broadcast views read the reference broadcast.**  For any source layout `d` (any strides:
permuted, stepped, already-broadcast …) and any target shape it can be broadcast to, the
row-major offsets of the broadcast view (`broadcast_strides`) read exactly
`bcast (row-major elements of the source)`. -/
theorem rowMajor_broadcast {α : Type} (d : Dims) (t : List Nat) (hle : d.length ≤ t.length)
    (hc : Compat (pairsTo (sizes d) t)) (g : Nat → α) :
    (rowMajor (List.zip t (broadcastStrides d t))).map g =
      bcastTo ((rowMajor d).map g) (sizes d) t := by
  have hsl : (sizes d).length = d.length := by simp [sizes]
  have hsplit : t = t.take (t.length - d.length) ++ t.drop (t.length - d.length) :=
    (List.take_append_drop _ _).symm
  generalize htp : t.take (t.length - d.length) = tp at hsplit
  generalize htr : t.drop (t.length - d.length) = tr at hsplit
  have hlp : tp.length = t.length - d.length := by rw [← htp, List.length_take]; omega
  have hlr : tr.length = d.length := by rw [← htr, List.length_drop]; omega
  have hstr : broadcastStrides d t = List.replicate tp.length 0 ++ List.zipWith bstride d tr := by
    unfold broadcastStrides
    simp only [hlp, htr]
    rfl
  have hpairs : pairsTo (sizes d) t =
      tp.map (fun x => (1, x)) ++ List.zip (sizes d) tr := by
    unfold pairsTo padFrom
    rw [hsl, ← hlp]
    conv => lhs; rw [hsplit]
    rw [List.zip_append (by simp), zip_replicate_left]
  have hzip : List.zip t (broadcastStrides d t) =
      tp.map (fun n => (n, 0)) ++ List.zip tr (List.zipWith bstride d tr) := by
    rw [hstr]
    conv => lhs; rw [hsplit]
    rw [List.zip_append (by simp), zip_replicate_right]
  have hc2 : Compat (List.zip (sizes d) tr) := by
    intro p hp
    exact hc p (by rw [hpairs]; exact List.mem_append_right _ hp)
  have hones : Ones (tp.map (fun x => ((1 : Nat), x))) := by
    intro p hp
    obtain ⟨x, _, rfl⟩ := List.mem_map.mp hp
    rfl
  rw [hzip, rowMajor_zeros_lead, bcastTo, hpairs, bcast_lead hones,
    rowMajor_bcast_same d tr hlr.symm hc2 g]
  simp [List.map_map, Function.comp_def]

/-! ## `broadcast_shapes`, view data -/

theorem allSome_eq_some {α : Type} : ∀ (L : List (Option α)) (r : List α), allSome L = some r →
    L = r.map some
  | [], r, h => by simp only [allSome, Option.some.injEq] at h; subst h; rfl
  | none :: _, _, h => by simp [allSome] at h
  | some x :: xs, r, h => by
    simp only [allSome, Option.map_eq_some_iff] at h
    obtain ⟨r', hr', rfl⟩ := h
    rw [allSome_eq_some xs r' hr']; rfl

theorem bsStep_rel {x y o : Nat} (h : bsStep x y = some o) : x = o ∨ x = 1 := by
  unfold bsStep at h
  split at h
  · left; exact Option.some.inj h
  · split at h
    · right; assumption
    · split at h
      · left; exact Option.some.inj h
      · cases h

theorem bs_rel : ∀ (ar br outr : List Nat), List.zipWith bsStep ar br = outr.map some →
    ∀ p ∈ List.zip ar outr, p.1 = p.2 ∨ p.1 = 1
  | [], _, _, _ => by simp
  | _ :: _, [], outr, h => by
    simp only [List.zipWith_nil_right] at h
    cases outr with
    | nil => simp
    | cons o os => cases h
  | x :: ar, y :: br, [], h => by simp
  | x :: ar, y :: br, o :: outr, h => by
    simp only [List.zipWith_cons_cons, List.map_cons, List.cons.injEq] at h
    intro p hp
    simp only [List.zip_cons_cons, List.mem_cons] at hp
    rcases hp with rfl | hp
    · exact bsStep_rel h.1
    · exact bs_rel ar br outr h.2 p hp

/-- The output shape of `broadcast_shapes` is one both operands can be broadcast to. -/
theorem compat_of_broadcastShapes (a b out : List Nat) (h : broadcastShapes a b = some out) :
    a.length ≤ out.length ∧ Compat (pairsTo a out) := by
  unfold broadcastShapes at h
  simp only [Option.map_eq_some_iff] at h
  obtain ⟨outr, hall, rfl⟩ := h
  have hz := allSome_eq_some _ _ hall
  have hlen : outr.length = max a.length b.length := by
    have := congrArg List.length hz
    simp only [List.length_zipWith, List.length_append, List.length_reverse, List.length_replicate,
      List.length_map] at this
    omega
  refine ⟨by rw [List.length_reverse]; omega, ?_⟩
  have hpad : padFrom a outr.reverse = (a.reverse ++ List.replicate (b.length - a.length) 1).reverse := by
    unfold padFrom
    rw [List.reverse_append, List.reverse_reverse, List.reverse_replicate, List.length_reverse, hlen]
    congr 2
    omega
  intro p hp
  unfold pairsTo at hp
  rw [hpad] at hp
  have hl : (a.reverse ++ List.replicate (b.length - a.length) 1).length = outr.length := by
    simp; omega
  have : List.zip (a.reverse ++ List.replicate (b.length - a.length) 1).reverse outr.reverse =
      (List.zip (a.reverse ++ List.replicate (b.length - a.length) 1) outr).reverse := by
    simp only [List.zip]
    exact (List.reverse_zipWith hl).symm
  rw [this] at hp
  exact bs_rel _ _ _ hz p (List.mem_reverse.mp hp)

theorem tensOf_data_length {α : Type} (v : View) (s : Nat → α) :
    (tensOf v s).data.length = numel (tensOf v s).shape := by
  simp only [tensOf, List.length_map, rowMajor_length, total_eq_numel]
  rfl

theorem viewData_eq {α : Type} (v : View) (s : Nat → α) (d : List α) (h : viewData v s = some d) :
    d = (tensOf v s).data := by
  unfold viewData at h
  split at h
  · rename_i hc
    injection h with h
    rw [← h, tensOf, rowMajor_of_isContiguous _ hc]
  · cases h

end RtenVerif.Layout
