import RtenVerif.Lemmas.OnnxRefSqueeze
import RtenVerif.Lemmas.OnnxRefIndexNorm
/-! `Squeeze(Unsqueeze(x, axes), axes) = x` on the operator functions themselves: negative axes are
normalised against the OUTPUT rank, duplicates are rejected. -/
namespace RtenVerif.OnnxRef

theorem mapM_ok_inv {α β : Type} (f : α → R β) : ∀ (l : List α) (out : List β), l.mapM f = .ok out →
    out.length = l.length ∧ ∀ b ∈ out, ∃ a ∈ l, f a = .ok b
  | [], out, h => by
    have : out = [] := by
      have h' : (Except.ok [] : R (List β)) = .ok out := h
      injection h' with h'; exact h'.symm
    subst this; simp
  | a :: l, out, h => by
    simp only [List.mapM_cons, bind, Except.bind] at h
    split at h
    · cases h
    · next b hb =>
      split at h
      · cases h
      · next bs hbs =>
        have : out = b :: bs := by
          have h' : (Except.ok (b :: bs) : R (List β)) = .ok out := h
          injection h' with h'; exact h'.symm
        subst this
        obtain ⟨ih1, ih2⟩ := mapM_ok_inv f l bs hbs
        refine ⟨by simp [ih1], ?_⟩
        intro c hc
        rcases List.mem_cons.mp hc with hc | hc
        · subst hc; exact ⟨a, by simp, hb⟩
        · obtain ⟨a', ha', hf⟩ := ih2 c hc
          exact ⟨a', by simp [ha'], hf⟩

theorem countP_or_disjoint (p q : Nat → Bool) : ∀ (l : List Nat), (∀ x ∈ l, ¬ (p x = true ∧ q x = true)) →
    l.countP (fun x => p x || q x) = l.countP p + l.countP q
  | [], _ => rfl
  | x :: xs, h => by
    have ih := countP_or_disjoint p q xs (fun y hy => h y (by simp [hy]))
    have hx := h x (by simp)
    simp only [List.countP_cons, ih]
    cases hp : p x <;> cases hq : q x <;> simp_all <;> omega

theorem countP_eq_range (n a : Nat) : (List.range n).countP (fun j => j == a) = if a < n then 1 else 0 := by
  induction n with
  | zero => simp
  | succ n ih =>
    rw [List.range_succ, List.countP_append, ih]
    by_cases h1 : a < n
    · have : (n == a) = false := by simp; omega
      simp [h1, this]; omega
    · by_cases h2 : a = n
      · subst h2; simp
      · have : (n == a) = false := by simp; omega
        have h3 : ¬ a < n + 1 := by omega
        simp [h1, this, h3]

/-- Distinct positions below `n`: exactly `ax.length` of `0 … n-1` belong to `ax`. -/
theorem count_positions (n : Nat) : ∀ (ax : List Nat), hasDup ax = false → (∀ a ∈ ax, a < n) →
    ((List.range n).filter (fun j => ax.contains j)).length = ax.length
  | [], _, _ => by simp
  | a :: t, hd, hb => by
    simp only [hasDup, Bool.or_eq_false_iff] at hd
    have ih := count_positions n t hd.2 (fun b hb' => hb b (by simp [hb']))
    rw [← List.countP_eq_length_filter] at ih ⊢
    have hfun : (fun j => (a :: t).contains j) = (fun j => (j == a) || t.contains j) := by
      funext j; simp only [List.contains_cons]
    rw [hfun, countP_or_disjoint (fun j => j == a) (fun j => t.contains j), countP_eq_range, ih]
    · have : a < n := hb a (by simp)
      simp [this]; omega
    · intro x _ hx
      have h1 : x = a := by simpa using hx.1
      subst h1
      rw [hd.1] at hx
      exact Bool.noConfusion hx.2

/-- SQ2. On the operators: if `Unsqueeze(x, axes)` succeeds (axes — possibly negative — normalise against
the output rank to distinct positions) then `Squeeze` of the result with the same `axes` succeeds and
returns `x`. -/
theorem squeeze_unsqueeze_op (x y : Tensor) (axes : List Int) (h : unsqueeze x axes = .ok y) :
    squeeze y (some axes) = .ok x := by
  unfold unsqueeze at h
  simp only [bind, Except.bind] at h
  split at h
  · cases h
  · next ax hax =>
    split at h
    · cases h
    · next hg =>
      have hdup : hasDup ax = false := by
        unfold guardR at hg
        split at hg
        · next hc => simpa using hc
        · cases hg
      have hy : y = ⟨insertOnes x.shape 0 ax (x.rank + axes.length), x.data⟩ := by
        have h' : (Except.ok ⟨insertOnes x.shape 0 ax (x.rank + axes.length), x.data⟩ : R Tensor) = .ok y := h
        injection h' with h'; exact h'.symm
      obtain ⟨hlen, hmem⟩ := mapM_ok_inv _ _ _ hax
      have hbound : ∀ a ∈ ax, a < x.shape.length + ax.length := by
        intro a ha
        obtain ⟨a', _, hf⟩ := hmem a ha
        have := (normAxis_spec _ _ _).mp hf
        rw [hlen]; unfold Tensor.rank at this
        split at this <;> omega
      have hcount := count_positions (x.shape.length + ax.length) ax hdup hbound
      obtain ⟨l1, l2, l3⟩ := squeeze_unsqueeze_shape x.shape ax hcount
      have hrk : x.rank + axes.length = x.shape.length + ax.length := by simp [Tensor.rank, hlen]
      rw [hrk] at hy hax
      subst hy
      unfold squeeze normAxes
      have hyr : (Tensor.mk (insertOnes x.shape 0 ax (x.shape.length + ax.length)) x.data).rank
          = x.shape.length + ax.length := by simp [Tensor.rank, l2]
      simp only [hyr, hax, bind, Except.bind, hdup, Bool.false_eq_true, if_false, pure, Except.pure]
      have hall : ax.all (fun k => getN (insertOnes x.shape 0 ax (x.shape.length + ax.length)) k == 1) = true := by
        rw [List.all_eq_true]
        intro k hk
        have := l3 k (hbound k hk) (by simpa using hk)
        simp [this]
      simp [guardR, hall, l1]
      cases x; rfl

end RtenVerif.OnnxRef
