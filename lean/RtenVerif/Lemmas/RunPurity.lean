import RtenVerif.Model.RunPurity
/-!
# Lemmas for C25.T1 / T3: what `run_plan` hands out mutably comes from places it owns

Invariant of the execution loop (`Inv`):
* every recorded take was found in `temp_values` or in the by-value map of the capture
  environment (`Loc.owned`);
* every entry of `temp_values` is an owned input of this run or an output of one of the
  graph's operators that lists the id as an output (`TempsOK`).
-/
namespace RtenVerif.RunPurity

variable {V : Type}

/-! ## `temp_values` -/

theorem mem_tRemove {ts : Temps V} {id : Nat} {e : Nat × Origin × V} (h : e ∈ tRemove ts id) :
    e ∈ ts := by
  unfold tRemove at h
  exact (List.mem_filter.mp h).1

theorem mem_tInsert {ts : Temps V} {id : Nat} {o : Origin} {v : V} {e : Nat × Origin × V}
    (h : e ∈ tInsert ts id o v) : e = (id, o, v) ∨ e ∈ ts := by
  unfold tInsert at h
  rcases List.mem_cons.mp h with h | h
  · exact Or.inl h
  · exact Or.inr (mem_tRemove h)

theorem tGet_mem {ts : Temps V} {id : Nat} {o : Origin} {v : V} (h : tGet ts id = some (o, v)) :
    (id, o, v) ∈ ts := by
  induction ts with
  | nil => simp [tGet] at h
  | cons hd tl ih =>
    obtain ⟨k, e⟩ := hd
    unfold tGet at h
    split at h
    · rename_i hk
      cases h
      subst hk
      exact List.mem_cons_self
    · exact List.mem_cons_of_mem _ (ih h)

/-- Entries of `temp_values` are owned inputs or operator outputs. -/
def EntryOK (r : Run V) (e : Nat × Origin × V) : Prop :=
  match e.2.1 with
  | .ownedIn => (e.1, e.2.2) ∈ r.owned
  | .opOut op => ∃ o, r.g.node op = .op o ∧ some e.1 ∈ o.outputs

def TempsOK (r : Run V) (ts : Temps V) : Prop := ∀ e, e ∈ ts → EntryOK r e

theorem tempsOK_remove {r : Run V} {ts : Temps V} (h : TempsOK r ts) (id : Nat) :
    TempsOK r (tRemove ts id) := fun e he => h e (mem_tRemove he)

theorem tempsOK_insert {r : Run V} {ts : Temps V} (h : TempsOK r ts) {id : Nat} {o : Origin} {v : V}
    (he : EntryOK r (id, o, v)) : TempsOK r (tInsert ts id o v) := by
  intro e hm
  rcases mem_tInsert hm with h1 | h1
  · rw [h1]; exact he
  · exact h e h1

theorem tempsOK_store {r : Run V} {opId : Nat} {o : Op} (hnode : r.g.node opId = .op o) :
    ∀ (ids : List (Option Nat)) (vs : List V) (ts : Temps V),
      (∀ i, i ∈ ids → i ∈ o.outputs) → TempsOK r ts → TempsOK r (storeOutputs r opId ts ids vs) := by
  intro ids
  induction ids with
  | nil => intro vs ts _ h; simpa [storeOutputs] using h
  | cons i ids ih =>
    intro vs ts hsub h
    cases vs with
    | nil => cases i <;> simpa [storeOutputs] using h
    | cons v vs =>
      cases i with
      | none =>
        simp only [storeOutputs]
        exact ih vs ts (fun i hi => hsub i (List.mem_cons_of_mem _ hi)) h
      | some id =>
        simp only [storeOutputs]
        split
        · exact ih vs ts (fun i hi => hsub i (List.mem_cons_of_mem _ hi)) h
        · apply ih vs _ (fun i hi => hsub i (List.mem_cons_of_mem _ hi))
          apply tempsOK_insert h
          exact ⟨o, hnode, hsub _ List.mem_cons_self⟩

theorem tempsOK_init (r : Run V) :
    ∀ (l : List (Nat × V)) (ts : Temps V), (∀ p, p ∈ l → p ∈ r.owned) → TempsOK r ts →
      TempsOK r (initTemps r.g ts l) := by
  intro l
  induction l with
  | nil => intro ts _ h; simpa [initTemps] using h
  | cons p l ih =>
    intro ts hsub h
    obtain ⟨id, v⟩ := p
    simp only [initTemps]
    split
    · exact ih _ (fun p hp => hsub p (List.mem_cons_of_mem _ hp)) h
    · apply ih _ (fun p hp => hsub p (List.mem_cons_of_mem _ hp))
      apply tempsOK_insert h
      exact hsub _ List.mem_cons_self

/-! ## The invariant -/

/-- A take is legitimate: the value was removed from this run's `temp_values`, or it is the
value the enclosing capture environment held by value under that id at entry. -/
def TakeOK (r : Run V) (t : Take V) : Prop :=
  (∃ id, t.loc = .temp id) ∨ (∃ id, t.loc = .capVal id ∧ r.envTake id = some t.val)

theorem TakeOK.owned {r : Run V} {t : Take V} (h : TakeOK r t) : t.loc.owned = true := by
  rcases h with ⟨id, h⟩ | ⟨id, h, _⟩ <;> rw [h] <;> rfl

/-- Every recorded take came from a place the run owns. -/
def TakesOwned (r : Run V) (recs : List (StepRec V)) : Prop :=
  ∀ s, s ∈ recs → ∀ t, t ∈ s.takes → TakeOK r t

/-- The remaining by-value captures are a subset of those at entry. -/
def CapsOK (r : Run V) (st : St V) : Prop := ∀ id v, st.capTake id = some v → r.envTake id = some v

structure Inv (r : Run V) (st : St V) : Prop where
  takes : TakesOwned r st.recs
  temps : TempsOK r st.temps
  caps : CapsOK r st

/-- What `take_value` can do to the state: it only removes. -/
structure Shrinks (st' st : St V) : Prop where
  recs : st'.recs = st.recs
  temps : ∀ e, e ∈ st'.temps → e ∈ st.temps
  caps : ∀ id v, st'.capTake id = some v → st.capTake id = some v

theorem Shrinks.refl (st : St V) : Shrinks st st := ⟨rfl, fun _ h => h, fun _ _ h => h⟩

theorem Shrinks.trans {a b c : St V} (h1 : Shrinks a b) (h2 : Shrinks b c) : Shrinks a c :=
  ⟨h1.recs.trans h2.recs, fun e he => h2.temps e (h1.temps e he),
   fun id v h => h2.caps id v (h1.caps id v h)⟩

theorem capsOK_shrinks {r : Run V} {st' st : St V} (hs : Shrinks st' st) (h : CapsOK r st) :
    CapsOK r st' := fun id v hv => h id v (hs.caps id v hv)

theorem upd_none_some {f : Nat → Option V} {k id : Nat} {v : V} (h : upd f k none id = some v) :
    f id = some v := by
  unfold upd at h
  split at h
  · cases h
  · exact h

/-- **Key fact.** In the code, `take_value` yields a value only out of `temp_values` or out of
the by-value map of the capture environment, and the value it yields is the one stored there. -/
theorem takeValue_code {r : Run V} {st st' : St V} {id : Nat} {v : V} {loc : Loc}
    (h : takeValue .code r st id = some (v, loc, st')) :
    Shrinks st' st ∧
      ((loc = .temp id ∧ ∃ o, (id, o, v) ∈ st.temps) ∨
       (loc = .capVal id ∧ r.g.captures.contains id = true ∧ st.capTake id = some v)) := by
  unfold takeValue at h
  split at h
  · split at h
    · rename_i o v' hget
      cases h
      exact ⟨⟨rfl, fun e he => mem_tRemove he, fun _ _ h => h⟩, Or.inl ⟨rfl, o, tGet_mem hget⟩⟩
    · split at h
      · rename_i hcap
        split at h
        · rename_i v' htk
          cases h
          exact ⟨⟨rfl, fun e he => he, fun _ _ h => upd_none_some h⟩, Or.inr ⟨rfl, hcap, htk⟩⟩
        · cases h
      · cases h
  · cases h

theorem takeValue_code_ok {r : Run V} {st st' : St V} {id : Nat} {v : V} {loc : Loc} {pos : Option Nat}
    (hc : CapsOK r st) (h : takeValue .code r st id = some (v, loc, st')) :
    TakeOK r { pos := pos, id := id, loc := loc, val := v } := by
  rcases (takeValue_code h).2 with ⟨h1, _⟩ | ⟨h1, _, h3⟩
  · exact Or.inl ⟨id, h1⟩
  · exact Or.inr ⟨id, h1, hc id v h3⟩

theorem takeAll_code {r : Run V} :
    ∀ (cs : List (Nat × Nat)) (st st' : St V) (ts : List (Take V)),
      CapsOK r st → takeAll .code r st cs = some (ts, st') →
      Shrinks st' st ∧ ∀ t, t ∈ ts → TakeOK r t := by
  intro cs
  induction cs with
  | nil =>
    intro st st' ts _ h
    simp only [takeAll, Option.some.injEq, Prod.mk.injEq] at h
    obtain ⟨h1, h2⟩ := h
    subst h1 h2
    exact ⟨Shrinks.refl _, fun t ht => by cases ht⟩
  | cons c cs ih =>
    intro st st' ts hc h
    obtain ⟨pos, id⟩ := c
    simp only [takeAll] at h
    split at h
    · cases h
    · rename_i v loc st1 htv
      split at h
      · cases h
      · rename_i ts' st2 hrest
        cases h
        obtain ⟨hs, ho⟩ := ih _ _ _ (capsOK_shrinks (takeValue_code htv).1 hc) hrest
        refine ⟨hs.trans (takeValue_code htv).1, ?_⟩
        intro t ht
        rcases List.mem_cons.mp ht with ht | ht
        · subst ht; exact takeValue_code_ok hc htv
        · exact ho t ht

theorem takeByValue_code {r : Run V} :
    ∀ (ds : List Nat) (st : St V), CapsOK r st →
      Shrinks (takeByValue .code r st ds).2 st ∧
        ∀ t, t ∈ (takeByValue .code r st ds).1 → TakeOK r t ∧ t.pos = none := by
  intro ds
  induction ds with
  | nil => intro st _; exact ⟨Shrinks.refl _, fun t ht => by cases ht⟩
  | cons d ds ih =>
    intro st hc
    simp only [takeByValue]
    split
    · exact ih st hc
    · rename_i v loc st1 htv
      obtain ⟨hs, ho⟩ := ih st1 (capsOK_shrinks (takeValue_code htv).1 hc)
      refine ⟨hs.trans (takeValue_code htv).1, ?_⟩
      intro t ht
      rcases List.mem_cons.mp ht with ht | ht
      · subst ht; exact ⟨takeValue_code_ok hc htv, rfl⟩
      · exact ho t ht

theorem decDeps_spec (usePool : Bool) :
    ∀ (ds : List Nat) (st : St V), Shrinks (decDeps usePool st ds) st := by
  intro ds
  induction ds with
  | nil => intro st; exact Shrinks.refl _
  | cons d ds ih =>
    intro st
    simp only [decDeps]
    refine (ih _).trans ?_
    split
    · exact ⟨rfl, fun e he => mem_tRemove he, fun _ _ h => h⟩
    · exact ⟨rfl, fun e he => he, fun _ _ h => h⟩

theorem tempsOK_shrinks {r : Run V} {st' st : St V} (hs : Shrinks st' st) (h : TempsOK r st.temps) :
    TempsOK r st'.temps := fun e he => h e (hs.temps e he)

/-- One step of the code preserves the invariant, whatever the operators do and whether or
not the step fails. -/
theorem step_inv (ops : Ops V) {r : Run V} {st : St V} (k opId : Nat) (h : Inv r st) :
    Inv r (step .code ops r st k opId).1 := by
  unfold step
  split
  · rename_i o hnode
    dsimp only
    split
    · exact h
    · rename_i ipTakes st1 htake
      -- the in-place takes
      have h1 : Shrinks st1 st ∧ ∀ t, t ∈ ipTakes → TakeOK r t := by
        split at htake
        · exact takeAll_code _ _ _ _ h.caps htake
        · simp only [Option.some.injEq, Prod.mk.injEq] at htake
          obtain ⟨ha, hb⟩ := htake
          subst ha hb
          exact ⟨Shrinks.refl _, fun t ht => by cases ht⟩
      -- the by-value captures
      have h2 : Shrinks (if o.subgraph then takeByValue .code r st1 o.capDeps else ([], st1)).2 st1 ∧
          ∀ t, t ∈ (if o.subgraph then takeByValue .code r st1 o.capDeps else ([], st1)).1 →
            TakeOK r t ∧ t.pos = none := by
        split
        · exact takeByValue_code _ _ (capsOK_shrinks h1.1 h.caps)
        · exact ⟨Shrinks.refl _, fun t ht => by cases ht⟩
      generalize (if o.subgraph then takeByValue .code r st1 o.capDeps else ([], st1)) = bv at h2
      obtain ⟨bvT, st2⟩ := bv
      dsimp only at h2 ⊢
      have hs2 : Shrinks st2 st := h2.1.trans h1.1
      have hrecs : TakesOwned r
          ({ step := k, op := opId, inPlace := runInPlaceOk .code r st (candidates ops o st.temps),
             takes := ipTakes ++ bvT } :: st2.recs : List (StepRec V)) := by
        intro s hs t ht
        rcases List.mem_cons.mp hs with hs | hs
        · subst hs
          rcases List.mem_append.mp ht with ht | ht
          · exact h1.2 t ht
          · exact (h2.2 t ht).1
        · rw [hs2.recs] at hs
          exact h.takes s hs t ht
      have htemps2 : TempsOK r st2.temps := tempsOK_shrinks hs2 h.temps
      have hcaps2 : CapsOK r st2 := capsOK_shrinks hs2 h.caps
      split
      · exact ⟨hrecs, htemps2, hcaps2⟩
      · split
        · exact ⟨hrecs, htemps2, hcaps2⟩
        · split
          · exact ⟨hrecs, htemps2, hcaps2⟩
          · rename_i outs _ _
            have hst4 : TempsOK r (storeOutputs r opId st2.temps o.outputs outs) :=
              tempsOK_store hnode _ _ _ (fun i hi => hi) htemps2
            have hd := decDeps_spec (V := V) r.usePool (opDeps o)
              { st2 with
                recs := { step := k, op := opId,
                          inPlace := runInPlaceOk .code r st (candidates ops o st.temps),
                          takes := ipTakes ++ bvT } :: st2.recs,
                temps := storeOutputs r opId st2.temps o.outputs outs }
            refine ⟨?_, ?_, ?_⟩
            · rw [hd.recs]; exact hrecs
            · exact fun e he => hst4 e (hd.temps e he)
            · exact fun id v hv => hcaps2 id v (hd.caps id v hv)
  · exact h

theorem steps_inv (ops : Ops V) {r : Run V} :
    ∀ (plan : List Nat) (st : St V) (k : Nat), Inv r st → Inv r (steps .code ops r st k plan).1 := by
  intro plan
  induction plan with
  | nil => intro st k h; exact h
  | cons opId rest ih =>
    intro st k h
    have hs := step_inv ops k opId h
    simp only [steps]
    split
    · rename_i st' heq
      rw [heq] at hs
      exact ih st' (k + 1) hs
    · rename_i st' e heq
      rw [heq] at hs
      exact hs

theorem initSt_inv {r : Run V} {plan outs : List Nat} {st0 : St V}
    (h : initSt r plan outs = some st0) : Inv r st0 := by
  unfold initSt at h
  split at h
  · cases h
  · cases h
    refine ⟨fun s hs => (by cases hs), ?_, fun _ _ h => h⟩
    exact tempsOK_init r r.owned [] (fun p hp => hp) (fun e he => by cases he)

/-- Running a prefix and then the rest is running the whole plan (while no step fails). -/
theorem steps_append (var : Variant) (ops : Ops V) (r : Run V) :
    ∀ (pre suf : List Nat) (st : St V) (k : Nat),
      (steps var ops r st k pre).2 = none →
      steps var ops r st k (pre ++ suf) =
        steps var ops r (steps var ops r st k pre).1 (k + pre.length) suf := by
  intro pre
  induction pre with
  | nil => intro suf st k _; simp [steps]
  | cons opId rest ih =>
    intro suf st k h
    simp only [steps, List.cons_append, List.length_cons] at h ⊢
    split
    · rename_i st' heq
      rw [heq] at h
      simp only at h
      rw [ih suf st' (k + 1) h]
      congr 1
      omega
    · rename_i st' e heq
      rw [heq] at h
      simp at h

/-! ## Memory outside the run -/

theorem writeOne_owned (ops : Ops V) (k op : Nat) (m : Mem V) (t : Take V) (h : t.loc.owned = true) :
    writeOne ops k op m t = m := by
  unfold writeOne
  cases hl : t.loc <;> simp_all [Loc.owned]

theorem memAfter_owned (ops : Ops V) :
    ∀ (recs : List (StepRec V)) (m : Mem V),
      (∀ s, s ∈ recs → ∀ t, t ∈ s.takes → t.loc.owned = true) → memAfter ops m recs = m := by
  intro recs
  induction recs with
  | nil => intro m _; rfl
  | cons s recs ih =>
    intro m h
    have hs : writeRec ops m s = m := by
      unfold writeRec
      have : ∀ (l : List (Take V)) (m : Mem V), (∀ t, t ∈ l → t.loc.owned = true) →
          l.foldl (writeOne ops s.step s.op) m = m := by
        intro l
        induction l with
        | nil => intro m _; rfl
        | cons t l ihl =>
          intro m hl
          simp only [List.foldl_cons]
          rw [writeOne_owned ops _ _ m t (hl t List.mem_cons_self)]
          exact ihl m (fun t ht => hl t (List.mem_cons_of_mem _ ht))
      exact this s.takes m (h s List.mem_cons_self)
    unfold memAfter
    simp only [List.foldl_cons]
    rw [hs]
    exact ih m (fun s' hs' => h s' (List.mem_cons_of_mem _ hs'))

theorem takesOwned_reverse {r : Run V} {recs : List (StepRec V)} (h : TakesOwned r recs) :
    TakesOwned r recs.reverse :=
  fun s hs => h s (List.mem_reverse.mp hs)

/-- The records of a complete `run_plan` call only contain owned places. -/
theorem runPlan_takesOwned (ops : Ops V) (r : Run V) (plan outs : List Nat) :
    TakesOwned r (runPlan .code ops r plan outs).recs := by
  unfold runPlan
  split
  · intro s hs; cases hs
  · rename_i st0 hinit
    have hinv := steps_inv ops plan st0 0 (initSt_inv hinit)
    split
    · rename_i st e heq
      rw [heq] at hinv
      exact takesOwned_reverse hinv.takes
    · rename_i st heq
      rw [heq] at hinv
      split <;> exact takesOwned_reverse hinv.takes

end RtenVerif.RunPurity
