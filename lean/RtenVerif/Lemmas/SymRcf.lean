import RtenVerif.Lemmas.SymList

/-! `remove_common_factors` preserves the truncated quotient (C11). -/
namespace RtenVerif.Sym

def prodL : List Int → Int
  | [] => 1
  | v :: vs => v * prodL vs

theorem aggO_mul (vs : List Int) : aggO .mul vs = if vs = [] then none else some (prodL vs) := by
  induction vs with
  | nil => rfl
  | cons v vs ih =>
    simp only [aggO, ih]
    cases vs with
    | nil => simp [prodL]
    | cons w ws => simp [prodL, opF]

/-- A product of factors, `Value(1)` for no factors. -/
theorem reduce_mul_ev {σ : Env} {ts : List SymExpr} {vs : List Int} (hvs : evL σ ts = some vs) :
    ev σ (reduceOp .mul (.value 1) ts) = .ok (prodL vs) := by
  cases ts with
  | nil => rw [evL_nil] at hvs; subst hvs; simp [reduceOp, prodL, ev, eval]
  | cons t ts =>
    refine reduce_ev (o := .mul) rfl _ hvs ?_
    rw [aggO_mul]
    rw [evL_cons] at hvs
    obtain ⟨_, _, _, _, rfl⟩ := hvs
    simp

theorem flatten_mul_ev {σ : Env} {e : SymExpr} {v : Int} (h : ev σ e = .ok v) :
    ∃ vs, evL σ (flatten .mul e) = some vs ∧ prodL vs = v := by
  obtain ⟨vs, hvs, hagg⟩ := flatten_ev (o := .mul) rfl h
  refine ⟨vs, hvs, ?_⟩
  rw [aggO_mul] at hagg
  split at hagg <;> simp at hagg
  exact hagg

theorem removeFirst_spec {σ : Env} {t : SymExpr} {tv : Int} (ht : ev σ t = .ok tv) :
    ∀ {rt rt' : List SymExpr} {rvs : List Int}, removeFirst t rt = some rt' →
      evL σ rt = some rvs → ∃ rvs', evL σ rt' = some rvs' ∧ prodL rvs = tv * prodL rvs' := by
  intro rt
  induction rt with
  | nil => intro rt' rvs h; simp [removeFirst] at h
  | cons u us ih =>
    intro rt' rvs h hr
    rw [evL_cons] at hr
    obtain ⟨uv, uvs, hu, hus, rfl⟩ := hr
    simp only [removeFirst] at h
    split at h
    · rename_i hb
      simp at h; subst h
      have := beq_sound σ _ _ _ hb ht
      rw [hu] at this; simp at this; subst this
      exact ⟨uvs, hus, rfl⟩
    · split at h
      · rename_i ts' hts'
        simp at h; subst h
        obtain ⟨rvs', hrvs', hp⟩ := ih hts' hus
        refine ⟨uv :: rvs', evL_cons.mpr ⟨uv, rvs', hu, hrvs', rfl⟩, ?_⟩
        simp only [prodL, hp]
        rw [← Int.mul_assoc, Int.mul_comm uv tv, Int.mul_assoc]
      · simp at h

theorem cancel_spec {σ : Env} :
    ∀ {lt rt : List SymExpr} {lvs rvs : List Int}, evL σ lt = some lvs → evL σ rt = some rvs →
      ∃ lvs' rvs' k, evL σ (cancel lt rt).1 = some lvs' ∧ evL σ (cancel lt rt).2 = some rvs' ∧
        prodL lvs = k * prodL lvs' ∧ prodL rvs = k * prodL rvs' := by
  intro lt
  induction lt with
  | nil =>
    intro rt lvs rvs hl hr
    rw [evL_nil] at hl; subst hl
    exact ⟨[], rvs, 1, by simp [cancel, evL], by simpa [cancel] using hr, by simp, by simp⟩
  | cons t lt ih =>
    intro rt lvs rvs hl hr
    rw [evL_cons] at hl
    obtain ⟨tv, lvs1, ht, hl1, rfl⟩ := hl
    simp only [cancel]
    split
    · rename_i rt' hrt'
      obtain ⟨rvs1, hrvs1, hp⟩ := removeFirst_spec ht hrt' hr
      obtain ⟨lvs', rvs', k, h1, h2, h3, h4⟩ := ih hl1 hrvs1
      refine ⟨lvs', rvs', tv * k, h1, h2, ?_, ?_⟩
      · simp only [prodL, h3, Int.mul_assoc]
      · rw [hp, h4, Int.mul_assoc]
    · obtain ⟨lvs', rvs', k, h1, h2, h3, h4⟩ := ih hl1 hr
      refine ⟨tv :: lvs', rvs', k, evL_cons.mpr ⟨tv, lvs', ht, h1, rfl⟩, h2, ?_, h4⟩
      simp only [prodL, h3]
      rw [← Int.mul_assoc, Int.mul_comm tv k, Int.mul_assoc]

theorem setFirstVal_spec {σ : Env} {c c' : Int} :
    ∀ {ts : List SymExpr} {vs : List Int}, firstVal ts = some c → evL σ ts = some vs →
      ∃ vs' m, evL σ (setFirstVal c' ts) = some vs' ∧ prodL vs = c * m ∧ prodL vs' = c' * m := by
  intro ts
  induction ts with
  | nil => intro vs h; simp [firstVal] at h
  | cons t ts ih =>
    intro vs h hvs
    rw [evL_cons] at hvs
    obtain ⟨tv, tvs, ht, hts, rfl⟩ := hvs
    cases t with
    | value x =>
      simp [firstVal] at h; subst h
      rw [ev_value] at ht; subst ht
      exact ⟨c' :: tvs, prodL tvs, by simp [setFirstVal, evL, ev, eval, hts], rfl, rfl⟩
    | var n p =>
      simp only [firstVal] at h
      obtain ⟨vs', m, h1, h2, h3⟩ := ih h hts
      refine ⟨tv :: vs', tv * m, evL_cons.mpr ⟨tv, vs', ht, h1, rfl⟩, ?_, ?_⟩ <;>
        simp only [prodL, h2, h3] <;> rw [← Int.mul_assoc, ← Int.mul_assoc, Int.mul_comm tv]
    | neg a =>
      simp only [firstVal] at h
      obtain ⟨vs', m, h1, h2, h3⟩ := ih h hts
      refine ⟨tv :: vs', tv * m, evL_cons.mpr ⟨tv, vs', ht, h1, rfl⟩, ?_, ?_⟩ <;>
        simp only [prodL, h2, h3] <;> rw [← Int.mul_assoc, ← Int.mul_assoc, Int.mul_comm tv]
    | bin o a b =>
      simp only [firstVal] at h
      obtain ⟨vs', m, h1, h2, h3⟩ := ih h hts
      refine ⟨tv :: vs', tv * m, evL_cons.mpr ⟨tv, vs', ht, h1, rfl⟩, ?_, ?_⟩ <;>
        simp only [prodL, h2, h3] <;> rw [← Int.mul_assoc, ← Int.mul_assoc, Int.mul_comm tv]

theorem gcdI_spec {a b g : Int} (h : gcdI a b = some g) (hg : 1 < g) :
    a.tdiv g * g = a ∧ b.tdiv g * g = b := by
  unfold gcdI at h
  simp only [] at h
  split at h <;> simp at h
  subst h
  exact ⟨Int.tdiv_mul_cancel (Int.gcd_dvd_left a b), Int.tdiv_mul_cancel (Int.gcd_dvd_right a b)⟩

theorem gcd_arith (k g q m : Int) : k * (q * g * m) = k * g * (q * m) := by ac_rfl

/-- `remove_common_factors`: the operands' values are divided by one common non-zero
factor, so the truncated quotient is unchanged. -/
theorem rcf_sound {σ : Env} {l r : SymExpr} {v : Int} (he : ev σ (.bin .div l r) = .ok v) :
    ev σ (.bin .div (rcf l r).1 (rcf l r).2) = .ok v := by
  rw [ev_bin_ok'] at he
  obtain ⟨x, y, hx, hy, hy0, rfl⟩ := he
  have hy0 : y ≠ 0 := hy0 (.inl rfl)
  obtain ⟨lvs, hlvs, hpl⟩ := flatten_mul_ev hx
  obtain ⟨rvs, hrvs, hpr⟩ := flatten_mul_ev hy
  obtain ⟨lvs', rvs', k, h1, h2, h3, h4⟩ := cancel_spec hlvs hrvs
  -- it suffices to exhibit the common factor for the lists that are finally multiplied out
  suffices hq : ∀ (q : List SymExpr × List SymExpr),
      (∃ as bs k', evL σ q.1 = some as ∧ evL σ q.2 = some bs ∧ x = k' * prodL as ∧
        y = k' * prodL bs) →
      ev σ (.bin .div (reduceOp .mul (.value 1) q.1) (reduceOp .mul (.value 1) q.2)) =
        .ok (opF .div x y) by
    unfold rcf
    simp only []
    apply hq
    have base : ∃ as bs k', evL σ (cancel (flatten .mul l) (flatten .mul r)).1 = some as ∧
        evL σ (cancel (flatten .mul l) (flatten .mul r)).2 = some bs ∧ x = k' * prodL as ∧
        y = k' * prodL bs := ⟨lvs', rvs', k, h1, h2, by rw [← hpl, h3], by rw [← hpr, h4]⟩
    split
    · rename_i lc rc hlc hrc
      split
      · rename_i g hg
        split
        · rename_i hcond
          obtain ⟨as, m1, ha, hpa, hpa'⟩ := setFirstVal_spec (c' := lc.tdiv g) hlc h1
          obtain ⟨bs, m2, hb, hpb, hpb'⟩ := setFirstVal_spec (c' := rc.tdiv g) hrc h2
          obtain ⟨hgl, hgr⟩ := gcdI_spec hg hcond.1
          refine ⟨as, bs, k * g, ha, hb, ?_, ?_⟩
          · rw [← hpl, h3, hpa, hpa']
            conv => lhs; rw [← hgl]
            exact gcd_arith _ _ _ _
          · rw [← hpr, h4, hpb, hpb']
            conv => lhs; rw [← hgr]
            exact gcd_arith _ _ _ _
        · exact base
      · exact base
    · exact base
  rintro q ⟨as, bs, k', ha, hb, hxk, hyk⟩
  have hk : k' ≠ 0 := by
    intro h0; subst h0; simp at hyk; exact hy0 hyk
  have hb0 : prodL bs ≠ 0 := by
    intro h0; rw [h0] at hyk; simp at hyk; exact hy0 hyk
  rw [ev_bin_ok']
  refine ⟨prodL as, prodL bs, reduce_mul_ev ha, reduce_mul_ev hb, fun _ => hb0, ?_⟩
  simp only [opF, hxk, hyk]
  exact mul_tdiv_mul_cancel k' _ _ hk

end RtenVerif.Sym
