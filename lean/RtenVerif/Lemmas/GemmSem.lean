import RtenVerif.Lemmas.GemmSched
import Mathlib.Tactic.Ring

/-! C16: semantics of a run of the schedule over a commutative semiring. -/
namespace RtenVerif.Gemm

section
variable {α : Type} [CommSemiring α] [DecidableEq α]

/-- A fold over kernel calls, observed at one element, only depends on the calls covering it. -/
theorem runCalls_elem (mr nr : Nat) (alpha beta : α) (bias : Bias α) (A B : Nat → Nat → α)
    (r c : Nat) (calls : List Call) (C : OutMat α) :
    runCalls mr nr alpha beta bias A B C calls r c =
      (calls.filter (fun cl => cl.covers mr nr r c)).foldl
        (elemStep alpha beta bias A B r c) (C r c) := by
  unfold runCalls
  induction calls generalizing C with
  | nil => rfl
  | cons cl t ih =>
    rw [List.foldl_cons, ih]
    by_cases h : cl.covers mr nr r c = true
    · simp [List.filter_cons, h, applyCall]
    · simp [List.filter_cons, h, applyCall]

theorem sumFrom_add (f : Nat → α) (a m n : Nat) :
    sumFrom f a (m + n) = sumFrom f a m + sumFrom f (a + m) n := by
  induction n with
  | zero => simp [sumFrom]
  | succ n ih =>
    rw [← Nat.add_assoc]
    simp only [sumFrom]
    rw [ih, Nat.add_assoc a m n]
    ring

theorem dot_split (A B : Nat → Nat → α) (r c s e : Nat) (h : s ≤ e) :
    dot A B r c 0 e = dot A B r c 0 s + dot A B r c s (e - s) := by
  unfold dot
  have : e = s + (e - s) := by omega
  conv => lhs; rw [this]
  rw [sumFrom_add, Nat.zero_add]

/-- The un-blocked specification for one element: one kernel application over the depth range
`[0, s)` with the caller's beta, then the bias. -/
def wholeElem (alpha beta : α) (bias : Bias α) (A B : Nat → Nat → α) (r c s : Nat)
    (v0 : Option α) : Option α :=
  addBias bias r c (kernelElem alpha (dot A B r c 0 s) beta v0)

/-- Accumulating one further depth block `[s, e)` (`s > 0`: effective beta one, no bias). -/
theorem elemStep_next (h1 : (1 : α) ≠ 0) (alpha beta : α) (bias : Bias α) (A B : Nat → Nat → α)
    (M N mr nr r c rt ct s e : Nat) (hs : 0 < s) (hse : s ≤ e) (v0 : Option α) :
    elemStep alpha beta bias A B r c (wholeElem alpha beta bias A B r c s v0)
        (mkCall M N mr nr (s, e) rt ct) =
      wholeElem alpha beta bias A B r c e v0 := by
  have hs0 : (s == 0) = false := by simp; omega
  simp only [elemStep, mkCall, hs0, wholeElem, kernelElem, h1, if_false, Bool.false_eq_true]
  rw [dot_split A B r c s e hse]
  by_cases hb : beta = 0
  · simp only [hb, if_true]
    cases bias <;> simp [addBias] <;> ring
  · simp only [hb, if_false]
    cases v0 with
    | none => cases bias <;> simp [addBias]
    | some x => cases bias <;> simp [addBias] <;> ring

/-- The first depth block `[0, e)`: the caller's beta, then the bias. -/
theorem elemStep_first (alpha beta : α) (bias : Bias α) (A B : Nat → Nat → α)
    (M N mr nr r c rt ct e : Nat) (v0 : Option α) :
    elemStep alpha beta bias A B r c v0 (mkCall M N mr nr (0, e) rt ct) =
      wholeElem alpha beta bias A B r c e v0 := by
  simp [elemStep, mkCall, wholeElem]

theorem depth_fold_tail (h1 : (1 : α) ≠ 0) (alpha beta : α) (bias : Bias α)
    (A B : Nat → Nat → α) (M N mr nr r c rt ct kc : Nat) (hkc : 0 < kc) (v0 : Option α) :
    ∀ (fuel s e : Nat), 0 < s → s ≤ e → e - s ≤ fuel →
      ((rangeChunks fuel s e kc).map (fun d => mkCall M N mr nr d rt ct)).foldl
          (elemStep alpha beta bias A B r c) (wholeElem alpha beta bias A B r c s v0) =
        wholeElem alpha beta bias A B r c e v0 := by
  intro fuel
  induction fuel with
  | zero =>
    intro s e _ hse hf
    have : s = e := by omega
    subst this
    simp [rangeChunks]
  | succ f ih =>
    intro s e hs hse hf
    unfold rangeChunks
    by_cases hlt : s < e
    · simp only [hlt, if_true, List.map_cons, List.foldl_cons]
      have hs' : s + (min (s + kc) e - s) = min (s + kc) e := by omega
      rw [hs', elemStep_next h1 _ _ _ _ _ _ _ _ _ _ _ _ _ _ _ hs (by omega)]
      exact ih _ _ (by omega) (by omega) (by omega)
    · have : s = e := by omega
      subst this
      simp [hlt]

/-- Folding one element over all depth blocks equals one un-blocked kernel application over
`[0, K)`: the sum over depth blocks with effective beta is the sum over `K`. -/
theorem depth_fold (h1 : (1 : α) ≠ 0) (alpha beta : α) (bias : Bias α) (A B : Nat → Nat → α)
    (M N mr nr r c rt ct K kc : Nat) (hK : 0 < K) (hkc : 0 < kc) (v0 : Option α) :
    ((depthBlocks K kc).map (fun d => mkCall M N mr nr d rt ct)).foldl
        (elemStep alpha beta bias A B r c) v0 =
      wholeElem alpha beta bias A B r c K v0 := by
  unfold depthBlocks
  obtain ⟨f, rfl⟩ : ∃ f, K = f + 1 := ⟨K - 1, by omega⟩
  unfold rangeChunks
  simp only [hK, if_true, List.map_cons, List.foldl_cons]
  have hs' : 0 + (min (0 + kc) (f + 1) - 0) = min (0 + kc) (f + 1) := by omega
  rw [hs', elemStep_first]
  exact depth_fold_tail h1 alpha beta bias A B M N mr nr r c rt ct kc hkc v0 f _ _
    (by omega) (by omega) (by omega)

end

end RtenVerif.Gemm
