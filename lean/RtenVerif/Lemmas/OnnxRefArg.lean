import RtenVerif.Model.OnnxRef
/-! ArgMax / ArgMin with `select_last_index = 0` return the least index among the extremes. -/
namespace RtenVerif.OnnxRef

/-- Scan invariant for "first maximum" over the processed prefix `pre`. -/
def ArgInv (pre : List Int) (st : Nat × Int × Nat) : Prop :=
  st.2.2 = pre.length ∧ st.1 < pre.length ∧ getI pre st.1 = st.2.1 ∧
  (∀ j, j < pre.length → getI pre j ≤ st.2.1) ∧ (∀ j, j < st.1 → getI pre j < st.2.1)

theorem getI_append_left (a b : List Int) (j : Nat) (h : j < a.length) : getI (a ++ b) j = getI a j := by
  simp [getI, List.getD_eq_getElem?_getD, List.getElem?_append_left h]

theorem getI_append_len (a : List Int) (v : Int) : getI (a ++ [v]) a.length = v := by
  simp [getI, List.getD_eq_getElem?_getD]

theorem argInv_step (pre : List Int) (st : Nat × Int × Nat) (v : Int) (h : ArgInv pre st) :
    ArgInv (pre ++ [v]) (argStep (fun a b => decide (a > b)) false st v) := by
  obtain ⟨h1, h2, h3, h4, h5⟩ := h
  unfold argStep
  by_cases hv : v > st.2.1
  · simp only [hv, decide_true, Bool.true_or, if_true]
    refine ⟨by simp [h1], by simp [h1], ?_, ?_, ?_⟩
    · simp only [h1]; exact getI_append_len pre v
    · intro j hj
      simp only [List.length_append, List.length_singleton] at hj
      by_cases hj' : j < pre.length
      · rw [getI_append_left _ _ _ hj']; have := h4 j hj'; simp only; omega
      · have : j = pre.length := by omega
        subst this; rw [getI_append_len]; simp
    · intro j hj
      simp only [h1] at hj
      rw [getI_append_left _ _ _ hj]; have := h4 j hj; simp only; omega
  · simp only [hv, decide_false, Bool.false_and, Bool.or_false, Bool.false_eq_true, ↓reduceIte]
    refine ⟨by simp [h1], by simp; omega, ?_, ?_, ?_⟩
    · rw [getI_append_left _ _ _ h2]; exact h3
    · intro j hj
      simp only [List.length_append, List.length_singleton] at hj
      by_cases hj' : j < pre.length
      · rw [getI_append_left _ _ _ hj']; exact h4 j hj'
      · have : j = pre.length := by omega
        subst this; rw [getI_append_len]; show v ≤ st.2.1; omega
    · intro j hj

      rw [getI_append_left _ _ _ (by omega)]; exact h5 j hj

theorem argInv_foldl : ∀ (xs pre : List Int) (st : Nat × Int × Nat), ArgInv pre st →
    ArgInv (pre ++ xs) (xs.foldl (argStep (fun a b => decide (a > b)) false) st)
  | [], pre, st, h => by simpa using h
  | v :: xs, pre, st, h => by
    have := argInv_foldl xs (pre ++ [v]) _ (argInv_step pre st v h)
    simpa using this

/-- ArgMax law: the index returned for a non-empty lane holds a maximum of the lane, and every
earlier position holds a strictly smaller value (first of ties). -/
theorem argBest_max_first (l : List Int) (i : Nat)
    (h : argBest (fun a b => decide (a > b)) false l = some i) :
    i < l.length ∧ (∀ j, j < l.length → getI l j ≤ getI l i) ∧ (∀ j, j < i → getI l j < getI l i) := by
  cases l with
  | nil => simp [argBest] at h
  | cons x xs =>
    simp only [argBest, Option.some.injEq] at h
    have hinv : ArgInv [x] (0, x, 1) := by
      refine ⟨rfl, by simp, by simp [getI], ?_, ?_⟩
      · intro j hj
        have : j = 0 := by simpa using hj
        subst this; simp [getI]
      · intro j hj; simp at hj
    have := argInv_foldl xs [x] _ hinv
    obtain ⟨_, h2, h3, h4, h5⟩ := this
    simp only [List.singleton_append] at h2 h3 h4 h5
    rw [h] at h2 h3 h5
    refine ⟨h2, ?_, ?_⟩
    · intro j hj; rw [h3]; exact h4 j hj
    · intro j hj; rw [h3]; exact h5 j hj

end RtenVerif.OnnxRef
