import RtenVerif.Model.Bpe

/-! Helper lemmas for C28 (core Lean only). -/
namespace RtenVerif.Bpe

set_option linter.unusedSectionVars false
variable {α : Type} [DecidableEq α]

/-! ### `windows2` -/

theorem windows2_mem {l : List α} {p : α × α} (h : p ∈ windows2 l) : p.1 ∈ l ∧ p.2 ∈ l := by
  induction l with
  | nil => simp [windows2] at h
  | cons a t ih =>
    cases t with
    | nil => simp [windows2] at h
    | cons b r =>
      simp only [windows2, List.mem_cons] at h
      rcases h with h | h
      · subst h; simp
      · have := ih h
        simp only [List.mem_cons] at this ⊢
        exact ⟨Or.inr this.1, Or.inr this.2⟩

theorem windows2_length (l : List α) : (windows2 l).length = l.length - 1 := by
  induction l with
  | nil => simp [windows2]
  | cons a t ih =>
    cases t with
    | nil => simp [windows2]
    | cons b r => simp only [windows2, List.length_cons] at ih ⊢; omega

theorem windows2_map {β : Type} (f : α → β) (l : List α) :
    windows2 (l.map f) = (windows2 l).map (fun p => (f p.1, f p.2)) := by
  induction l with
  | nil => simp [windows2]
  | cons a t ih =>
    cases t with
    | nil => simp [windows2]
    | cons b r => simp only [List.map_cons, windows2] at ih ⊢; rw [ih]

/-! ### `replacePairs` -/

theorem replacePairs_nil (f s m : α) : replacePairs f s m [] = [] := rfl
theorem replacePairs_single (f s m x : α) : replacePairs f s m [x] = [x] := rfl
theorem replacePairs_cons_cons (f s m x y : α) (rest : List α) :
    replacePairs f s m (x :: y :: rest) =
      if x = f ∧ y = s then m :: replacePairs f s m rest
      else x :: replacePairs f s m (y :: rest) := by
  cases rest <;> simp [replacePairs, replaceGo]

/-- Induction principle following the recursion of `replacePairs`. -/
theorem replacePairs_induct (f s : α) (motive : List α → Prop)
    (nil : motive []) (single : ∀ x, motive [x])
    (hit : ∀ x y rest, x = f ∧ y = s → motive rest → motive (x :: y :: rest))
    (miss : ∀ x y rest, ¬ (x = f ∧ y = s) → motive (y :: rest) → motive (x :: y :: rest)) :
    ∀ l, motive l := by
  intro l
  have : ∀ n, ∀ l : List α, l.length ≤ n → motive l := by
    intro n
    induction n with
    | zero => intro l h; cases l with | nil => exact nil | cons => simp at h
    | succ n ih =>
      intro l h
      match l, h with
      | [], _ => exact nil
      | [x], _ => exact single x
      | x :: y :: rest, h =>
        simp only [List.length_cons] at h
        by_cases hc : x = f ∧ y = s
        · exact hit x y rest hc (ih rest (by omega))
        · exact miss x y rest hc (ih (y :: rest) (by simp only [List.length_cons]; omega))
  exact this l.length l (Nat.le_refl _)

theorem replacePairs_length_le (f s m : α) (l : List α) :
    (replacePairs f s m l).length ≤ l.length := by
  induction l using replacePairs_induct f s with
  | nil => simp [replacePairs_nil]
  | single x => simp [replacePairs_single]
  | hit x y rest hc ih =>
    rw [replacePairs_cons_cons, if_pos hc]; simp only [List.length_cons]; omega
  | miss x y rest hc ih =>
    rw [replacePairs_cons_cons, if_neg hc]; simp only [List.length_cons] at ih ⊢; omega

/-- **T1 core**: if the pair occurs, the replacement strictly shortens the list. -/
theorem replacePairs_length_lt (f s m : α) (l : List α) (h : (f, s) ∈ windows2 l) :
    (replacePairs f s m l).length < l.length := by
  induction l using replacePairs_induct f s with
  | nil => simp [windows2] at h
  | single x => simp [windows2] at h
  | hit x y rest hc ih =>
    have := replacePairs_length_le f s m rest
    rw [replacePairs_cons_cons, if_pos hc]; simp only [List.length_cons]; omega
  | miss x y rest hc ih =>
    simp only [windows2, List.mem_cons, Prod.mk.injEq] at h
    rcases h with h | h
    · exact absurd ⟨h.1.symm, h.2.symm⟩ hc
    · have := ih h
      rw [replacePairs_cons_cons, if_neg hc]
      simp only [List.length_cons] at this ⊢; omega

/-- **T2 core**: the in-place loop started at index `pre.length` on `pre ++ suf` leaves `pre`
alone and performs the functional replacement on `suf`. -/
theorem replaceLoop_append (f s m : α) :
    ∀ (fuel : Nat) (pre suf : List α), suf.length ≤ fuel →
      replaceLoop f s m fuel pre.length (pre ++ suf) = pre ++ replacePairs f s m suf := by
  intro fuel
  induction fuel with
  | zero =>
    intro pre suf h
    have : suf = [] := List.length_eq_zero_iff.mp (Nat.le_zero.mp h)
    subst this; simp [replaceLoop, replacePairs]
  | succ n ih =>
    intro pre suf h
    match suf, h with
    | [], _ => simp [replaceLoop, replacePairs]; omega
    | [x], _ => simp [replaceLoop, replacePairs, replaceGo]
    | x :: y :: rest, h =>
      have hlt : pre.length < (pre ++ x :: y :: rest).length - 1 := by
        simp only [List.length_append, List.length_cons]; omega
      have h0 : (pre ++ x :: y :: rest)[pre.length]? = some x := by simp
      have h1 : (pre ++ x :: y :: rest)[pre.length + 1]? = some y := by
        rw [List.getElem?_append_right (by omega)]; simp
      rw [replaceLoop, if_pos hlt, h0, h1]
      by_cases hc : x = f ∧ y = s
      · have hc' : some x = some f ∧ some y = some s := by simp [hc.1, hc.2]
        rw [if_pos hc']
        have hset : ((pre ++ x :: y :: rest).set pre.length m).eraseIdx (pre.length + 1)
            = (pre ++ [m]) ++ rest := by
          rw [List.set_append_right _ _ (Nat.le_refl _)]
          simp only [Nat.sub_self, List.set_cons_zero]
          rw [List.eraseIdx_append_of_length_le (by omega)]
          simp
        rw [hset]
        have hl : pre.length + 1 = (pre ++ [m]).length := by simp
        rw [hl, ih (pre ++ [m]) rest (by simp only [List.length_cons] at h; omega)]
        rw [replacePairs_cons_cons, if_pos hc]; simp
      · have hc' : ¬ (some x = some f ∧ some y = some s) := by
          simpa using hc
        rw [if_neg hc']
        have hl : pre.length + 1 = (pre ++ [x]).length := by simp
        have happ : pre ++ x :: y :: rest = (pre ++ [x]) ++ (y :: rest) := by simp
        rw [happ, hl, ih (pre ++ [x]) (y :: rest) (by simp only [List.length_cons] at h ⊢; omega)]
        rw [replacePairs_cons_cons, if_neg hc]; simp

theorem replaceLoop_eq (f s m : α) (l : List α) :
    replaceLoop f s m l.length 0 l = replacePairs f s m l := by
  simpa using replaceLoop_append f s m l.length [] l (Nat.le_refl _)

/-! ### `minByKey` -/

theorem foldl_min_mem {β : Type} (key : β → Nat) (xs : List β) (x : β) :
    xs.foldl (fun best y => if key y < key best then y else best) x ∈ x :: xs := by
  induction xs generalizing x with
  | nil => simp
  | cons y ys ih =>
    simp only [List.foldl_cons]
    have := ih (if key y < key x then y else x)
    by_cases hk : key y < key x
    · simp only [hk, if_true, List.mem_cons] at this ⊢
      rcases this with h | h
      · exact Or.inr (Or.inl h)
      · exact Or.inr (Or.inr h)
    · simp only [hk, if_false, List.mem_cons] at this ⊢
      rcases this with h | h
      · exact Or.inl h
      · exact Or.inr (Or.inr h)

theorem minByKey_mem {β : Type} (key : β → Nat) {l : List β} {x : β}
    (h : minByKey key l = some x) : x ∈ l := by
  cases l with
  | nil => simp [minByKey] at h
  | cons a t =>
    simp only [minByKey, Option.some.injEq] at h
    rw [← h]; exact foldl_min_mem key t a

theorem minByKey_eq_none {β : Type} (key : β → Nat) {l : List β} :
    minByKey key l = none ↔ l = [] := by
  cases l <;> simp [minByKey]

theorem foldl_min_le {β : Type} (key : β → Nat) (xs : List β) (x : β) :
    key (xs.foldl (fun best y => if key y < key best then y else best) x) ≤ key x ∧
    ∀ y ∈ xs, key (xs.foldl (fun best y => if key y < key best then y else best) x) ≤ key y := by
  induction xs generalizing x with
  | nil => simp
  | cons y ys ih =>
    simp only [List.foldl_cons]
    obtain ⟨h1, h2⟩ := ih (if key y < key x then y else x)
    by_cases hk : key y < key x
    · simp only [hk, if_true] at h1 h2 ⊢
      refine ⟨by omega, ?_⟩
      intro z hz
      simp only [List.mem_cons] at hz
      rcases hz with rfl | hz
      · exact h1
      · exact h2 z hz
    · simp only [hk, if_false] at h1 h2 ⊢
      refine ⟨h1, ?_⟩
      intro z hz
      simp only [List.mem_cons] at hz
      rcases hz with rfl | hz
      · omega
      · exact h2 z hz

/-- `minByKey` returns an element of minimal key. -/
theorem minByKey_le {β : Type} (key : β → Nat) {l : List β} {x : β}
    (h : minByKey key l = some x) : ∀ y ∈ l, key x ≤ key y := by
  cases l with
  | nil => simp [minByKey] at h
  | cons a t =>
    simp only [minByKey, Option.some.injEq] at h
    intro y hy
    obtain ⟨h1, h2⟩ := foldl_min_le key t a
    rw [h] at h1 h2
    simp only [List.mem_cons] at hy
    rcases hy with rfl | hy
    · exact h1
    · exact h2 y hy

theorem minByKey_map {β γ : Type} (key : β → Nat) (key' : γ → Nat) (g : β → γ)
    (hk : ∀ x, key' (g x) = key x) (l : List β) :
    minByKey key' (l.map g) = (minByKey key l).map g := by
  cases l with
  | nil => rfl
  | cons a t =>
    simp only [List.map_cons, minByKey, Option.map_some, Option.some.injEq]
    induction t generalizing a with
    | nil => rfl
    | cons b r ih =>
      simp only [List.map_cons, List.foldl_cons]
      rw [hk, hk]
      have : (if key b < key a then g b else g a) = g (if key b < key a then b else a) := by
        split <;> rfl
      rw [this, ih]

/-- `minByKey` returns the **leftmost** element of minimal key: everything before it has a strictly
larger key, everything after it a key at least as large (Rust `min_by_key` keeps the first of
several equally minimal elements). -/
theorem foldl_min_first {β : Type} (key : β → Nat) :
    ∀ (xs : List β) (x : β),
      (xs.foldl (fun best y => if key y < key best then y else best) x = x ∧ ∀ y ∈ xs, key x ≤ key y) ∨
      ∃ pre post, xs = pre ++ xs.foldl (fun best y => if key y < key best then y else best) x :: post ∧
        key (xs.foldl (fun best y => if key y < key best then y else best) x) < key x ∧
        (∀ y ∈ pre, key (xs.foldl (fun best y => if key y < key best then y else best) x) < key y) ∧
        ∀ y ∈ post, key (xs.foldl (fun best y => if key y < key best then y else best) x) ≤ key y := by
  intro xs
  induction xs with
  | nil => intro x; left; simp
  | cons y ys ih =>
    intro x
    simp only [List.foldl_cons]
    by_cases hk : key y < key x
    · simp only [hk, if_true]
      rcases ih y with ⟨he, hall⟩ | ⟨pre, post, hys, hlt, hpre, hpost⟩
      · right
        refine ⟨[], ys, by rw [he]; rfl, by rw [he]; exact hk, by simp, ?_⟩
        rw [he]; exact hall
      · right
        refine ⟨y :: pre, post, by rw [List.cons_append, ← hys], by omega, ?_, hpost⟩
        intro z hz
        simp only [List.mem_cons] at hz
        rcases hz with rfl | hz
        · exact hlt
        · exact hpre z hz
    · simp only [hk, if_false]
      rcases ih x with ⟨he, hall⟩ | ⟨pre, post, hys, hlt, hpre, hpost⟩
      · left
        refine ⟨he, ?_⟩
        intro z hz
        simp only [List.mem_cons] at hz
        rcases hz with rfl | hz
        · omega
        · exact hall z hz
      · right
        refine ⟨y :: pre, post, by rw [List.cons_append, ← hys], hlt, ?_, hpost⟩
        intro z hz
        simp only [List.mem_cons] at hz
        rcases hz with rfl | hz
        · omega
        · exact hpre z hz

theorem minByKey_first {β : Type} (key : β → Nat) {l : List β} {x : β}
    (h : minByKey key l = some x) :
    ∃ pre post, l = pre ++ x :: post ∧ (∀ y ∈ pre, key x < key y) ∧ ∀ y ∈ post, key x ≤ key y := by
  cases l with
  | nil => simp [minByKey] at h
  | cons a t =>
    simp only [minByKey, Option.some.injEq] at h
    rcases foldl_min_first key t a with ⟨he, hall⟩ | ⟨pre, post, ht, hlt, hpre, hpost⟩
    · rw [h] at he
      subst he
      exact ⟨[], t, rfl, by simp, hall⟩
    · rw [h] at ht hlt hpre hpost
      refine ⟨a :: pre, post, by rw [List.cons_append, ← ht], ?_, hpost⟩
      intro z hz
      simp only [List.mem_cons] at hz
      rcases hz with rfl | hz
      · exact hlt
      · exact hpre z hz

/-! ### rounds -/

theorem candidates_mem {m : MergeMap α} {toks : List α} {c : (α × α) × (Nat × α)}
    (h : c ∈ candidates m toks) : c.1 ∈ windows2 toks ∧ lookup m c.1 = some c.2 := by
  simp only [candidates, List.mem_filterMap, Option.map_eq_some_iff] at h
  obtain ⟨p, hp, r, hr, rfl⟩ := h
  exact ⟨hp, hr⟩

theorem findMinPair_some {m : MergeMap α} {toks : List α} {c : (α × α) × (Nat × α)}
    (h : findMinPair m toks = some c) : c.1 ∈ windows2 toks ∧ lookup m c.1 = some c.2 :=
  candidates_mem (minByKey_mem _ h)

/-- The inner loop's `tokens.len() - 1` never underflows: it is only reached with ≥ 2 tokens. -/
theorem findMinPair_some_length {m : MergeMap α} {toks : List α} {c : (α × α) × (Nat × α)}
    (h : findMinPair m toks = some c) : 2 ≤ toks.length := by
  have h1 := (findMinPair_some h).1
  have h2 : 0 < (windows2 toks).length := List.length_pos_of_mem h1
  rw [windows2_length] at h2; omega

theorem mergeRound_eq (m : MergeMap α) (toks : List α) :
    mergeRound m toks =
      (findMinPair m toks).map (fun c => replacePairs c.1.1 c.1.2 c.2.2 toks) := by
  unfold mergeRound
  cases h : findMinPair m toks with
  | none => rfl
  | some c =>
    obtain ⟨⟨f, s⟩, ⟨r, mid⟩⟩ := c
    simp only [Option.map_some, replaceLoop_eq]

theorem mergeRound_length_lt {m : MergeMap α} {toks t' : List α}
    (h : mergeRound m toks = some t') : t'.length < toks.length := by
  rw [mergeRound_eq] at h
  cases hf : findMinPair m toks with
  | none => simp [hf] at h
  | some c =>
    simp only [hf, Option.map_some, Option.some.injEq] at h
    subst h
    exact replacePairs_length_lt _ _ _ _ (findMinPair_some hf).1

theorem mergeRound_nil (m : MergeMap α) : mergeRound m ([] : List α) = none := by
  simp [mergeRound, findMinPair, candidates, windows2, minByKey]

theorem bpeMergeFuel_fixpoint (m : MergeMap α) :
    ∀ (n : Nat) (toks : List α), toks.length ≤ n → mergeRound m (bpeMergeFuel m n toks) = none := by
  intro n
  induction n with
  | zero =>
    intro toks h
    have : toks = [] := List.length_eq_zero_iff.mp (Nat.le_zero.mp h)
    subst this; simp [bpeMergeFuel, mergeRound_nil]
  | succ n ih =>
    intro toks h
    simp only [bpeMergeFuel]
    cases hr : mergeRound m toks with
    | none => simpa using hr
    | some t' =>
      have := mergeRound_length_lt hr
      exact ih t' (by omega)

theorem bpeMergeFuel_stable (m : MergeMap α) :
    ∀ (n k : Nat) (toks : List α), toks.length ≤ n → toks.length ≤ k →
      bpeMergeFuel m n toks = bpeMergeFuel m k toks := by
  intro n
  induction n with
  | zero =>
    intro k toks h _
    have : toks = [] := List.length_eq_zero_iff.mp (Nat.le_zero.mp h)
    subst this
    cases k <;> simp [bpeMergeFuel, mergeRound_nil]
  | succ n ih =>
    intro k toks h hk
    cases k with
    | zero =>
      have : toks = [] := List.length_eq_zero_iff.mp (Nat.le_zero.mp hk)
      subst this; simp [bpeMergeFuel, mergeRound_nil]
    | succ k =>
      simp only [bpeMergeFuel]
      cases hr : mergeRound m toks with
      | none => rfl
      | some t' =>
        have := mergeRound_length_lt hr
        exact ih k t' (by omega) (by omega)

/-! ### the `tokens.len() - 1` of the inner loop never underflows -/

/-- The inner loop with the `usize` subtraction made partial: `none` where `tokens.len() - 1`
would underflow (panic in debug, wrap + out-of-bounds index in release). -/
def replaceLoopChecked (first second merged : α) : Nat → Nat → List α → Option (List α)
  | 0, _, toks => some toks
  | fuel + 1, i, toks =>
    if toks.length = 0 then none
    else if i < toks.length - 1 then
      if toks[i]? = some first ∧ toks[i + 1]? = some second then
        replaceLoopChecked first second merged fuel (i + 1) ((toks.set i merged).eraseIdx (i + 1))
      else
        replaceLoopChecked first second merged fuel (i + 1) toks
    else some toks

/-- Loop invariant: started on a non-empty vector the checked loop never hits the underflow, at
any iteration (a merge happens only at `i < len - 1`, i.e. `len ≥ 2`, and removes one element),
and computes what the unchecked model computes. -/
theorem replaceLoopChecked_eq (f s m : α) :
    ∀ (fuel i : Nat) (toks : List α), toks ≠ [] →
      replaceLoopChecked f s m fuel i toks = some (replaceLoop f s m fuel i toks) := by
  intro fuel
  induction fuel with
  | zero => intro i toks _; rfl
  | succ n ih =>
    intro i toks hne
    have hlen : toks.length ≠ 0 := fun h => hne (List.length_eq_zero_iff.mp h)
    simp only [replaceLoopChecked, replaceLoop, hlen, if_false]
    by_cases hi : i < toks.length - 1
    · simp only [hi, if_true]
      by_cases hc : toks[i]? = some f ∧ toks[i + 1]? = some s
      · simp only [hc, and_self, if_true]
        apply ih
        intro he
        have : ((toks.set i m).eraseIdx (i + 1)).length = 0 := by rw [he]; rfl
        rw [List.length_eraseIdx] at this
        simp only [List.length_set] at this
        split at this <;> omega
      · simp only [hc, if_false]
        exact ih _ _ hne
    · simp only [hi, if_false]

end RtenVerif.Bpe
