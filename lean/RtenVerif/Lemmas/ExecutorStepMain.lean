import RtenVerif.Lemmas.ExecutorStepRefine
/-!
# C02 — `step_refines`
-/
namespace RtenVerif.Executor
open RtenVerif.Graph

theorem canTake_noTake {V : Type} {r : Run V} {st : St V} (hc : NoTake st) {id : Nat}
    (h : canTake r st id = true) : st.rc id = 1 ∧ st.temps id ≠ none := by
  have hcap : capTakeable st id = false := by
    unfold capTakeable
    cases hs : st.caps id with
    | none => rfl
    | some p =>
      obtain ⟨x, b⟩ := p
      have := hc id x b hs
      subst this; rfl
  unfold canTake at h
  rw [hcap] at h
  simp only [Bool.and_false, Bool.or_false, Bool.and_eq_true, beq_iff_eq,
    Option.isSome_iff_ne_none] at h
  exact ⟨h.1, h.2⟩

/-- From a `Sim` state the executor's step and the naive step have the same outcome. -/
theorem step_refines {V : Type} {ops : Ops V} {r : Run V} {caps0 : Nat → Option (V × Bool)}
    {total : Nat → Nat} {i : Nat}
    {rest outs : List Nat} {st : St V} {E : Nat → Option V} (hwf : WF r)
    (hcw : CapsWF r caps0) (hct : Contract ops r.g)
    (hs : Sim r caps0 total (i :: rest) outs st E) :
    match step ops r st i with
    | .ok (st', _) => ∃ E', naiveStep ops r caps0 E i = .ok E' ∧ Sim r caps0 total rest outs st' E'
    | .error e => naiveStep ops r caps0 E i = .error e := by
  cases hop : getOp r.g i with
  | none => simp [step, naiveStep, hop]
  | some op =>
    -- take phase
    have htake_ex : ∃ st1 taken, (if (!(candidates ops i op st.temps).isEmpty &&
        (candidates ops i op st.temps).all (fun c => canTake r st c.2) && !r.neverInPlace) = true
        then takeAll r st (candidates ops i op st.temps) else some (st, [])) = some (st1, taken) := by
      by_cases hcond : (!(candidates ops i op st.temps).isEmpty &&
          (candidates ops i op st.temps).all (fun c => canTake r st c.2) && !r.neverInPlace) = true
      · rw [if_pos hcond]
        simp only [Bool.and_eq_true, List.all_eq_true] at hcond
        have hall : ∀ c ∈ candidates ops i op st.temps, st.rc c.2 = 1 ∧ st.temps c.2 ≠ none :=
          fun c hc => canTake_noTake (hs.noTake hcw) (hcond.1.2 c hc)
        have hnd : ((candidates ops i op st.temps).map (fun c => c.2)).Nodup := by
          apply nodup_snd_of_fst (candidates_fst_nodup i op st.temps (hct.idxNodup i))
          intro a ha b hb hab
          apply Classical.byContradiction
          intro hne
          have h1 := (candidates_spec ha).1
          have h2 := (candidates_spec hb).1
          rw [← hab] at h2
          have := count_two h1 h2 hne
          have hle := hs.count_le_one hop (hall a ha).1 (hall a ha).2
          rw [opDeps_eq, List.count_append] at hle
          unfold opInputs at hle
          omega
        cases hta : takeAll r st (candidates ops i op st.temps) with
        | none => exact absurd hta (takeAll_succeeds r st _ hall hnd)
        | some p => exact ⟨p.1, p.2, rfl⟩
      · rw [if_neg hcond]; exact ⟨st, [], rfl⟩
    obtain ⟨st1, taken, htake⟩ := htake_ex
    cases hbv : (if ops.isSubgraph i = true then takeByValue r st1 (capDeps r.g op) else (st1, [])) with
    | mk st2 byVal =>
    have T := takeFacts' htake hbv (hs.noTake hcw)
    rw [step_unfold hop htake hbv]
    -- inputs
    have HT : ∀ p v, (p, v) ∈ taken → ∃ id, op.inputs[p]? = some (some id) ∧
        valC r caps0 E id = some v := by
      intro p v hpv
      obtain ⟨id, h1, _, _, h4⟩ := T.htaken p v hpv
      exact ⟨id, h1, valC_of_val (hs.agree id v h4).2.2⟩
    have HN : ∀ p id, p ∉ taken.map (fun t => t.1) → op.inputs[p]? = some (some id) →
        lookupInput r st2 id = valC r caps0 E id := by
      intro p d hp hd
      have h2 : st2.temps d = st.temps d :=
        T.untouched p d hp hd (fun hrc hne => hs.count_le_one hop hrc hne)
      have : lookupInput r st2 d = lookupInput r st d := by
        unfold lookupInput
        rw [h2, T.caps]
      rw [this]
      apply lookupInput_eq hs
      intro hv
      rw [uses_cons hop rest outs d hv]
      have : d ∈ opDeps r.g op := by
        rw [opDeps_eq]; exact List.mem_append_left _ (mem_opInputs hd)
      have := List.count_pos_iff.mpr this
      omega
    have IS := inputs_sim r (valC r caps0 E) st2 taken op HT HN op.inputs 0 (by intro k; simp)
    simp only [naiveStep, hop]
    cases hci : collectInputs r st2 (taken.map (fun t => t.1)) op.inputs 0 with
    | none =>
      rw [hci] at IS
      have IS' : naiveInputs (naiveLook r caps0 E) op.inputs = none := IS
      simp only [IS']
    | some ins =>
      rw [hci] at IS
      obtain ⟨full, hf, hfill⟩ := IS
      have hf' : naiveInputs (naiveLook r caps0 E) op.inputs = some full := hf
      simp only [hf']
      -- the operator call
      have hres : (if (!taken.isEmpty) = true then ops.runInPlace i taken ins
          else if ops.isSubgraph i = true then
            ops.run i ins ((capDeps r.g op).map (capView r st2 byVal))
          else ops.run i ins []) =
          ops.run i full (if ops.isSubgraph i = true then (capDeps r.g op).map (naiveLook r caps0 E)
            else []) := by
        by_cases htk : taken = []
        · subst htk
          have : ins = full := hfill.nil_taken
          subst this
          simp only [List.isEmpty_nil, Bool.not_true, Bool.false_eq_true, if_false]
          by_cases hsub : ops.isSubgraph i = true
          · simp only [hsub, if_true]
            congr 1
            apply List.map_congr_left
            intro d hd
            exact capView_eq hcw hs hop T d hd
          · have hsub' : ops.isSubgraph i = false := by simpa using hsub
            simp only [hsub', Bool.false_eq_true, if_false]
        · have hne : (!taken.isEmpty) = true := by
            cases taken with
            | nil => exact absurd rfl htk
            | cons _ _ => rfl
          rw [if_pos hne]
          have hns := hct.notSub i (T.nonempty htk)
          simp only [hns, Bool.false_eq_true, if_false]
          have hnodup : (taken.map (fun t => t.1)).Nodup := by
            rcases T.hpos with h | h
            · exact absurd h htk
            · rw [h]; exact candidates_fst_nodup i op st.temps (hct.idxNodup i)
          have hplace : ∀ p v, (p, v) ∈ taken → ins[p]? = some none := by
            intro p v hm
            obtain ⟨id, hid, _⟩ := T.htaken p v hm
            have hlen := collectInputs_length r st2 _ op.inputs 0 ins hci
            have hp : p < ins.length := by
              rw [hlen]
              exact (List.getElem?_eq_some_iff.mp hid).1
            exact hfill.none_at p v (by simpa using hm) hp
          have hsingle : op.commutative = true → taken.length = 1 := by
            intro hcomm
            rcases T.hpos with h | h
            · exact absurd h htk
            · have hl := congrArg List.length h
              simp only [List.length_map] at hl
              have := candidates_comm_length (ops := ops) i op st.temps hcomm
              have hpos : 0 < taken.length := List.length_pos_iff.mpr htk
              omega
          apply hct.inPlace i op hop taken ins full htk hnodup hplace hsingle _ hfill
          intro p hp
          rw [List.mem_map] at hp
          obtain ⟨⟨p', v⟩, hm, rfl⟩ := hp
          obtain ⟨_, _, h3, _⟩ := T.htaken p' v hm
          exact h3
      rw [hres]
      cases hrun : ops.run i full (if ops.isSubgraph i = true then
          (capDeps r.g op).map (naiveLook r caps0 E) else []) with
      | none => simp only
      | some vs =>
        simp only
        by_cases hlen : vs.length < op.outputs.length
        · simp only [hlen, if_true]
        · simp only [hlen, if_false]
          refine ⟨_, rfl, ?_⟩
          have hstep : step ops r st i = .ok
              ((releaseLoop r { st2 with temps := (storeOutputs r st2.temps op.outputs vs).1 }
                (opDeps r.g op)).1,
              { op := i
                rip := (!(candidates ops i op st.temps).isEmpty &&
                  (candidates ops i op st.temps).all (fun c => canTake r st c.2) && !r.neverInPlace)
                taken := ((candidates ops i op st.temps).zip taken).map (fun ct => (ct.1.1, ct.1.2))
                byVal := byVal.map (fun p => p.1)
                stored := (storeOutputs r st2.temps op.outputs vs).2
                released := (releaseLoop r
                  { st2 with temps := (storeOutputs r st2.temps op.outputs vs).1 }
                  (opDeps r.g op)).2 }) := by
            rw [step_unfold hop htake hbv, hci]
            simp only [hres, hrun, hlen, if_false]
          exact Sim.step' hwf hcw hstep hs hop T (stored := (storeOutputs r st2.temps op.outputs vs).2)
            (released := (releaseLoop r
              { st2 with temps := (storeOutputs r st2.temps op.outputs vs).1 } (opDeps r.g op)).2)
            rfl rfl

end RtenVerif.Executor
