import RtenVerif.Model.Sym
import RtenVerif.Lemmas.SymArith
set_option linter.unusedSimpArgs false
namespace RtenVerif.Sym

/-- Ideal evaluation. -/
abbrev ev (σ : Env) (e : SymExpr) : Except EvalErr Int := eval Arith.ideal σ e

/-- Arithmetic in which a delivered result is the exact result. -/
def Exact (A : Arith) : Prop :=
  (∀ x y, A.norm x = some y → y = x) ∧ (∀ x y, A.normDiv x = some y → y = x)

theorem exact_ideal : Exact Arith.ideal := by
  constructor <;> intro x y h <;> simp [Arith.ideal] at h <;> omega

theorem chk_some {x y : Int} (h : chk x = some y) : y = x ∧ I32MIN ≤ x ∧ x ≤ I32MAX := by
  unfold chk inI32 at h
  split at h
  · rename_i hh
    simp at hh h
    omega
  · simp at h

theorem exact_checked : Exact Arith.checked := by
  constructor <;> intro x y h <;> exact (chk_some h).1

/-- The AC operators and their integer meaning. -/
def opF : Op → Int → Int → Int
  | .add, x, y => x + y
  | .sub, x, y => x - y
  | .mul, x, y => x * y
  | .div, x, y => Int.tdiv x y
  | .divCeil, x, y => divCeilI x y
  | .max, x, y => if x ≤ y then y else x
  | .min, x, y => if x ≤ y then x else y
  | .broadcast, x, y => bcastI x y

theorem evalOp_ideal (o : Op) (x y : Int) :
    evalOp Arith.ideal o x y =
      if (o = .div ∨ o = .divCeil) ∧ y = 0 then .error .divisionByZero else .ok (opF o x y) := by
  cases o <;> simp [evalOp, opF, Arith.ideal, lift] <;> split <;> simp_all

theorem ev_bin_ok {σ : Env} {o : Op} {a b : SymExpr} {v : Int} :
    ev σ (.bin o a b) = .ok v ↔
      ∃ x y, ev σ a = .ok x ∧ ev σ b = .ok y ∧ evalOp Arith.ideal o x y = .ok v := by
  simp only [ev, eval]
  cases h1 : eval Arith.ideal σ a with
  | error e => simp
  | ok x =>
    cases h2 : eval Arith.ideal σ b with
    | error e => simp
    | ok y => simp

theorem ev_neg_ok {σ : Env} {a : SymExpr} {v : Int} :
    ev σ (.neg a) = .ok v ↔ ∃ x, ev σ a = .ok x ∧ v = -x := by
  simp only [ev, eval]
  cases h1 : eval Arith.ideal σ a with
  | error e => simp
  | ok x => simp [Arith.ideal, lift]; omega

theorem beq_sound (σ : Env) : ∀ (a b : SymExpr) (v : Int), beq a b = true → ev σ a = .ok v → ev σ b = .ok v := by
  intro a
  induction a with
  | value x => intro b v h; cases b <;> simp_all [beq]
  | var n p => intro b v h; cases b <;> simp_all [beq, ev, eval]
  | neg a ih =>
    intro b v h
    cases b <;> simp [beq] at h
    rename_i b
    intro he
    rw [ev_neg_ok] at he ⊢
    obtain ⟨x, hx, rfl⟩ := he
    exact ⟨x, ih b x h hx, rfl⟩
  | bin o a b iha ihb =>
    intro e v h
    cases e <;> simp [beq] at h
    rename_i o' c d
    obtain ⟨rfl, h⟩ := h
    intro he
    rw [ev_bin_ok] at he ⊢
    obtain ⟨x, y, hx, hy, hv⟩ := he
    cases hc : o.comm
    · simp [hc] at h
      exact ⟨x, y, iha c x h.1 hx, ihb d y h.2 hy, hv⟩
    · simp [hc] at h
      rcases h with h | h
      · exact ⟨x, y, iha c x h.1 hx, ihb d y h.2 hy, hv⟩
      · refine ⟨y, x, ihb c y h.2 hy, iha d x h.1 hx, ?_⟩
        rw [evalOp_ideal] at hv ⊢
        cases o <;> simp [Op.comm] at hc <;> simp [opF, bcastI] at hv ⊢ <;> first | omega | (rw [Int.mul_comm]; exact hv) | (split at hv <;> split <;> (try split) <;> (try split) <;> omega)

theorem isVal_true {e : SymExpr} {k : Int} (h : isVal e k = true) : e = .value k := by
  cases e <;> simp_all [isVal]

theorem ev_value {σ : Env} {x v : Int} : ev σ (.value x) = .ok v ↔ x = v := by
  simp [ev, eval]

theorem mkVal_some {r : Option Int} {e : SymExpr} (h : mkVal r = some e) :
    ∃ v, r = some v ∧ e = .value v := by
  cases r <;> simp_all [mkVal]

/-- `ev` of a binary node in terms of `opF`. -/
theorem ev_bin_ok' {σ : Env} {o : Op} {a b : SymExpr} {v : Int} :
    ev σ (.bin o a b) = .ok v ↔
      ∃ x y, ev σ a = .ok x ∧ ev σ b = .ok y ∧
        (((o = .div ∨ o = .divCeil) → y ≠ 0) ∧ v = opF o x y) := by
  rw [ev_bin_ok]
  constructor
  · rintro ⟨x, y, hx, hy, h⟩
    refine ⟨x, y, hx, hy, ?_⟩
    rw [evalOp_ideal] at h
    split at h
    · simp at h
    · rename_i hc
      simp at h
      exact ⟨fun ho hy0 => hc ⟨ho, hy0⟩, h.symm⟩
  · rintro ⟨x, y, hx, hy, hc, rfl⟩
    refine ⟨x, y, hx, hy, ?_⟩
    rw [evalOp_ideal]
    split
    · rename_i h; exact absurd h.2 (hc h.1)
    · rfl

section steps
variable {A : Arith} {σ : Env} {l r e' : SymExpr} {v : Int}

theorem stepNeg_sound (hA : Exact A) (h : stepNeg A l = some e') (he : ev σ (.neg l) = .ok v) :
    ev σ e' = .ok v := by
  rw [ev_neg_ok] at he
  obtain ⟨x, hx, rfl⟩ := he
  unfold stepNeg at h
  split at h
  · obtain ⟨w, hw, rfl⟩ := mkVal_some h
    have := hA.1 _ _ hw
    rw [ev_value] at hx ⊢
    omega
  · simp at h; subst h
    rw [ev_neg_ok] at hx
    obtain ⟨y, hy, rfl⟩ := hx
    rw [hy]; simp
  · simp at h; subst h
    rw [ev_neg_ok]; exact ⟨x, hx, rfl⟩

theorem stepAdd_sound (hA : Exact A) (h : stepAdd A l r = some e')
    (he : ev σ (.bin .add l r) = .ok v) : ev σ e' = .ok v := by
  rw [ev_bin_ok'] at he
  obtain ⟨x, y, hx, hy, -, rfl⟩ := he
  unfold stepAdd at h
  split at h
  · rename_i h0
    have := isVal_true h0; subst this
    simp at h; subst h
    rw [ev_value] at hx; subst hx
    simp [opF, bcastI, hy]
  split at h
  · rename_i h0
    have := isVal_true h0; subst this
    simp at h; subst h
    rw [ev_value] at hy; subst hy
    simp [opF, bcastI, hx]
  split at h
  · obtain ⟨w, hw, rfl⟩ := mkVal_some h
    have := hA.1 _ _ hw
    rw [ev_value] at hx hy ⊢
    simp [opF, bcastI]; omega
  · split at h
    · rename_i hb
      simp at h; subst h
      rw [ev_neg_ok] at hy
      obtain ⟨z, hz, rfl⟩ := hy
      have := beq_sound σ _ _ _ hb hx
      rw [hz] at this
      rw [ev_value]; simp at this; simp [opF, bcastI]; omega
    · simp at h; subst h
      rw [ev_bin_ok']; exact ⟨x, y, hx, hy, by simp, rfl⟩
  · simp at h; subst h
    rw [ev_bin_ok']; exact ⟨x, y, hx, hy, by simp, rfl⟩

theorem stepSub_sound (hA : Exact A) (h : stepSub A l r = some e')
    (he : ev σ (.bin .sub l r) = .ok v) : ev σ e' = .ok v := by
  rw [ev_bin_ok'] at he
  obtain ⟨x, y, hx, hy, -, rfl⟩ := he
  unfold stepSub at h
  split at h
  · rename_i h0
    have := isVal_true h0; subst this
    simp at h; subst h
    rw [ev_value] at hy; subst hy
    simp [opF, bcastI, hx]
  split at h
  · obtain ⟨w, hw, rfl⟩ := mkVal_some h
    have := hA.1 _ _ hw
    rw [ev_value] at hx hy ⊢
    simp [opF, bcastI]; omega
  · split at h
    · rename_i hb
      simp at h; subst h
      have := beq_sound σ _ _ _ hb hx
      rw [hy] at this
      rw [ev_value]; simp at this; simp [opF, bcastI]; omega
    · simp at h; subst h
      rw [ev_bin_ok']; exact ⟨x, y, hx, hy, by simp, rfl⟩

theorem stepMul_sound (hA : Exact A) (h : stepMul A l r = some e')
    (he : ev σ (.bin .mul l r) = .ok v) : ev σ e' = .ok v := by
  rw [ev_bin_ok'] at he
  obtain ⟨x, y, hx, hy, -, rfl⟩ := he
  unfold stepMul at h
  split at h
  · rename_i h0
    have := isVal_true h0; subst this
    simp at h; subst h
    rw [ev_value] at hx; subst hx
    simp [opF, bcastI, hy]
  split at h
  · rename_i h0
    have := isVal_true h0; subst this
    simp at h; subst h
    rw [ev_value] at hy; subst hy
    simp [opF, bcastI, hx]
  split at h
  · obtain ⟨w, hw, rfl⟩ := mkVal_some h
    have := hA.1 _ _ hw
    rw [ev_value] at hx hy ⊢
    subst hx hy
    simp [opF, bcastI]; exact this
  · simp at h; subst h
    rw [ev_bin_ok']; exact ⟨x, y, hx, hy, by simp, rfl⟩

theorem stepMax_sound (h : stepMax l r = some e')
    (he : ev σ (.bin .max l r) = .ok v) : ev σ e' = .ok v := by
  rw [ev_bin_ok'] at he
  obtain ⟨x, y, hx, hy, -, rfl⟩ := he
  unfold stepMax at h
  split at h
  · rename_i hb
    simp at h; subst h
    have := beq_sound σ _ _ _ hb hx
    rw [hy] at this
    simp at this; subst this
    simp [opF, bcastI, hx]
  split at h
  · simp at h; subst h
    rw [ev_value] at hx hy ⊢
    subst hx hy
    simp [opF, bcastI]
  · simp at h; subst h
    rw [ev_bin_ok']; exact ⟨x, y, hx, hy, by simp, rfl⟩

theorem stepMin_sound (h : stepMin l r = some e')
    (he : ev σ (.bin .min l r) = .ok v) : ev σ e' = .ok v := by
  rw [ev_bin_ok'] at he
  obtain ⟨x, y, hx, hy, -, rfl⟩ := he
  unfold stepMin at h
  split at h
  · rename_i hb
    simp at h; subst h
    have := beq_sound σ _ _ _ hb hx
    rw [hy] at this
    simp at this; subst this
    simp [opF, bcastI, hx]
  split at h
  · simp at h; subst h
    rw [ev_value] at hx hy ⊢
    subst hx hy
    simp [opF, bcastI]
  · simp at h; subst h
    rw [ev_bin_ok']; exact ⟨x, y, hx, hy, by simp, rfl⟩

/-- The `Broadcast` arms are sound on the constructor's domain: the operands are equal or one
of them is 1 (code after fix `a4a397a`: `eval` broadcasts a 1 to the other size). -/
theorem stepBroadcast_sound (h : stepBroadcast l r = some e')
    (hdom : ∀ x y, ev σ l = .ok x → ev σ r = .ok y → (x = y ∨ x = 1 ∨ y = 1))
    (he : ev σ (.bin .broadcast l r) = .ok v) : ev σ e' = .ok v := by
  rw [ev_bin_ok'] at he
  obtain ⟨x, y, hx, hy, -, rfl⟩ := he
  have hd := hdom x y hx hy
  unfold stepBroadcast at h
  split at h
  · rw [ev_value] at hx hy; subst hx hy
    split at h
    · simp at h; subst h; rw [ev_value]; simp [opF, bcastI]; omega
    split at h
    · simp at h; subst h; rw [ev_value]; simp [opF, bcastI]; omega
    split at h
    · simp at h; subst h; rw [ev_value]; simp [opF, bcastI]; omega
    · simp at h; subst h; rw [ev_value]; simp [opF, bcastI]; omega
  · rw [ev_value] at hx; subst hx
    split at h
    · simp at h; subst h; rw [hy]; simp [opF, bcastI]; omega
    · simp at h; subst h; rw [ev_value]; simp [opF, bcastI]; omega
  · rw [ev_value] at hy; subst hy
    split at h
    · simp at h; subst h; rw [hx]; simp [opF, bcastI]; omega
    · simp at h; subst h; rw [ev_value]; simp [opF, bcastI]; omega
  · split at h
    · rename_i hb
      simp at h; subst h
      have := beq_sound σ _ _ _ hb hx
      rw [hy] at this
      simp at this; subst this
      simp [opF, bcastI, hx]
    · simp at h; subst h
      rw [ev_bin_ok']; exact ⟨x, y, hx, hy, by simp, rfl⟩

theorem stepDiv_sound (hA : Exact A) (h : stepDiv A l r = some e')
    (he : ev σ (.bin .div l r) = .ok v) : ev σ e' = .ok v := by
  rw [ev_bin_ok'] at he
  obtain ⟨x, y, hx, hy, hy0, rfl⟩ := he
  have hy0 : y ≠ 0 := hy0 (.inl rfl)
  unfold stepDiv at h
  split at h
  · rename_i h0
    have := isVal_true h0; subst this
    simp at h; subst h
    rw [ev_value] at hy; subst hy
    simp [opF, bcastI, hx]
  split at h
  · rw [ev_value] at hx hy; subst hx hy
    split at h
    · obtain ⟨w, hw, rfl⟩ := mkVal_some h
      have := hA.2 _ _ hw
      rw [ev_value]; simp [opF, bcastI]; omega
    · rename_i hc; exact absurd (by simpa using hc) hy0
  · -- nested division
    rename_i l' c1
    rw [ev_bin_ok'] at hx
    obtain ⟨x1, z1, hx1, hz1, hz0, rfl⟩ := hx
    have hz0 : z1 ≠ 0 := hz0 (.inl rfl)
    have key : opF .div (opF .div x1 z1) y = Int.tdiv x1 (z1 * y) := by
      simp only [opF, bcastI]; exact tdiv_tdiv x1 z1 y
    have hne : z1 * y ≠ 0 := Int.mul_ne_zero hz0 hy0
    have gen : ev σ (.bin .div l' (.bin .mul c1 r)) = .ok (opF .div (opF .div x1 z1) y) := by
      rw [ev_bin_ok']
      refine ⟨x1, z1 * y, hx1, ?_, fun _ => hne, by rw [key]; rfl⟩
      rw [ev_bin_ok']; exact ⟨z1, y, hz1, hy, by simp, rfl⟩
    split at h
    · rename_i v1 v2 _
      rw [ev_value] at hz1 hy; subst hz1 hy
      split at h
      · split at h
        · rename_i w hw
          simp at h; subst h
          have := (chk_some hw).1; subst this
          rw [ev_bin_ok']
          exact ⟨x1, v1 * v2, hx1, by simp [ev, eval], fun _ => hne, by rw [key]; rfl⟩
        · simp at h; subst h
          rw [ev_bin_ok']
          refine ⟨opF .div x1 v1, v2, ?_, by simp [ev, eval], fun _ => hy0, rfl⟩
          rw [ev_bin_ok']; exact ⟨x1, v1, hx1, by simp [ev, eval], fun _ => hz0, rfl⟩
      · simp at h; subst h; exact gen
    · simp at h; subst h; exact gen
  · simp at h; subst h
    rw [ev_bin_ok']; exact ⟨x, y, hx, hy, fun _ => hy0, rfl⟩

/-- The `DivCeil` arms.  `hG` is the side condition written in the code comment of the
nested-`DivCeil` arm ("if b > 0 and c > 0"), which the code only checks when both divisors
are constants. -/
theorem stepDivCeil_sound (hA : Exact A) (h : stepDivCeil A l r = some e')
    (hG : ∀ l' c1, l = .bin .divCeil l' c1 → ∀ v1 v2, ev σ c1 = .ok v1 → ev σ r = .ok v2 →
      0 < v1 ∧ 0 < v2)
    (he : ev σ (.bin .divCeil l r) = .ok v) : ev σ e' = .ok v := by
  rw [ev_bin_ok'] at he
  obtain ⟨x, y, hx, hy, hy0, rfl⟩ := he
  have hy0 : y ≠ 0 := hy0 (.inr rfl)
  unfold stepDivCeil at h
  split at h
  · rename_i h0
    have := isVal_true h0; subst this
    simp at h; subst h
    rw [ev_value] at hy; subst hy
    simp [opF, bcastI, hx, divCeilI]
  split at h
  · rw [ev_value] at hx hy; subst hx hy
    split at h
    · obtain ⟨w, hw, rfl⟩ := mkVal_some h
      have := hA.2 _ _ hw
      rw [ev_value]; simp [opF, bcastI]; omega
    · rename_i hc; exact absurd (by simpa using hc) hy0
  · split at h
    · rename_i hb
      simp at h; subst h
      have := beq_sound σ _ _ _ hb hx
      rw [hy] at this
      simp at this; subst this
      rw [ev_value]; simp [opF, bcastI, divCeilI_self hy0]
    · split at h
      · rename_i l' c1 _ _
        rw [ev_bin_ok'] at hx
        obtain ⟨x1, z1, hx1, hz1, hz0, rfl⟩ := hx
        obtain ⟨hz1p, hyp⟩ := hG l' c1 rfl z1 y hz1 hy
        have key : opF .divCeil (opF .divCeil x1 z1) y = divCeilI x1 (z1 * y) := by
          simp only [opF, bcastI]; exact divCeilI_divCeilI hz1p hyp
        have hne : z1 * y ≠ 0 := Int.mul_ne_zero (by omega) hy0
        have gen : ev σ (.bin .divCeil l' (.bin .mul c1 r)) =
            .ok (opF .divCeil (opF .divCeil x1 z1) y) := by
          rw [ev_bin_ok']
          refine ⟨x1, z1 * y, hx1, ?_, fun _ => hne, by rw [key]; rfl⟩
          rw [ev_bin_ok']; exact ⟨z1, y, hz1, hy, by simp, rfl⟩
        split at h
        · rename_i v1 v2 _ _ _
          rw [ev_value] at hz1 hy; subst hz1 hy
          split at h
          · split at h
            · rename_i w hw
              simp at h; subst h
              have := (chk_some hw).1; subst this
              rw [ev_bin_ok']
              exact ⟨x1, v1 * v2, hx1, by simp [ev, eval], fun _ => hne, by rw [key]; rfl⟩
            · simp at h; subst h
              rw [ev_bin_ok']
              refine ⟨opF .divCeil x1 v1, v2, ?_, by simp [ev, eval], fun _ => hy0, rfl⟩
              rw [ev_bin_ok']; exact ⟨x1, v1, hx1, by simp [ev, eval], fun _ => by omega, rfl⟩
          · simp at h; subst h; exact gen
        · simp at h; subst h; exact gen
      · simp at h; subst h
        rw [ev_bin_ok']; exact ⟨x, y, hx, hy, fun _ => hy0, rfl⟩

end steps

end RtenVerif.Sym
