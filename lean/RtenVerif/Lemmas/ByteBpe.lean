import RtenVerif.Model.ByteBpe

/-!
Helper lemmas for C27 (`Props/C27.lean`): the `byte_to_char` bijection, the invariant
"the token strings concatenate to the byte-mapped piece" kept by `bpe_merge`, decoding.
-/
namespace RtenVerif.ByteBpe

/-! ### `byte_to_char` is a bijection onto its image (finite check over all 256 bytes) -/

theorem charToByte_byteToChar : ∀ b, b < 256 → charToByte (byteToChar b) = some b := by
  decide +kernel

theorem byteToChar_injective (a b : Nat) (ha : a < 256) (hb : b < 256)
    (h : byteToChar a = byteToChar b) : a = b := by
  have h1 := charToByte_byteToChar a ha
  have h2 := charToByte_byteToChar b hb
  rw [h, h2] at h1
  exact (Option.some.inj h1).symm

/-! ### Vocabulary -/

theorem find_snd_of_mem : ∀ (v : List (Str × Nat)) (e : Str × Nat), (v.map (·.2)).Nodup → e ∈ v →
    v.find? (fun x => x.2 == e.2) = some e := by
  intro v
  induction v with
  | nil => intro e _ h; simp at h
  | cons x xs ih =>
    intro e hnd he
    rw [List.map_cons, List.nodup_cons] at hnd
    rw [List.find?_cons]
    rcases List.mem_cons.mp he with rfl | he'
    · simp
    · have hne : x.2 ≠ e.2 := by
        intro heq
        exact hnd.1 (heq ▸ List.mem_map_of_mem he')
      have : (x.2 == e.2) = false := by simpa using hne
      rw [this]
      exact ih e hnd.2 he'

/-- With distinct ids, inverting the vocabulary is consistent with looking a string up. -/
theorem vocabGet_strOf (v : List (Str × Nat)) (hnd : (v.map (·.2)).Nodup) (s : Str) (id : Nat)
    (h : vocabGet v s = some id) : strOf v id = some s := by
  unfold vocabGet at h
  rw [Option.map_eq_some_iff] at h
  obtain ⟨e, he, rfl⟩ := h
  have hmem := List.mem_of_find?_eq_some he
  have hs : e.1 = s := by simpa using List.find?_some he
  unfold strOf
  rw [find_snd_of_mem v e hnd hmem]
  simp [hs]

/-- Every merge entry's merged token string is the concatenation of its parts' strings. -/
def Consistent (v : List (Str × Nat)) (ms : List ((Nat × Nat) × Nat)) : Prop :=
  ∀ e ∈ ms, ∃ sa sb, strOf v e.1.1 = some sa ∧ strOf v e.1.2 = some sb ∧ strOf v e.2 = some (sa ++ sb)

theorem buildMergeMap_consistent (v : List (Str × Nat)) (hnd : (v.map (·.2)).Nodup) :
    ∀ (merges : List (Str × Str)) (mm : List ((Nat × Nat) × Nat)),
      buildMergeMap v merges = some mm → Consistent v mm := by
  intro merges
  induction merges with
  | nil => intro mm h; simp [buildMergeMap] at h; subst h; intro e he; simp at he
  | cons ab rest ih =>
    intro mm h
    obtain ⟨a, b⟩ := ab
    simp only [buildMergeMap] at h
    split at h
    · rename_i ai bi mi r ha hb hm hr
      simp only [Option.some.injEq] at h; subst h
      intro e he
      rcases List.mem_cons.mp he with rfl | he'
      · exact ⟨a, b, vocabGet_strOf v hnd _ _ ha, vocabGet_strOf v hnd _ _ hb,
          vocabGet_strOf v hnd _ _ hm⟩
      · exact ih r hr e he'
    · simp at h

theorem mergeLookup_mem : ∀ (ms : List ((Nat × Nat) × Nat)) (i : Nat) (p : Nat × Nat) (r m : Nat),
    mergeLookup ms i p = some (r, m) → (p, m) ∈ ms := by
  intro ms
  induction ms with
  | nil => intro i p r m h; simp [mergeLookup] at h
  | cons km rest ih =>
    intro i p r m h
    obtain ⟨k, m'⟩ := km
    simp only [mergeLookup] at h
    split at h
    · rename_i r' hr'
      simp only [Option.some.injEq] at h; subst h
      exact List.mem_cons_of_mem _ (ih _ _ _ _ hr')
    · split at h
      · rename_i hk
        simp only [Option.some.injEq, Prod.mk.injEq] at h
        have : k = p := by simpa using hk
        rw [this, h.2]; exact List.mem_cons_self
      · simp at h

theorem minPair_mem (ms : List ((Nat × Nat) × Nat)) : ∀ (toks : List Nat) (p rm : Nat × Nat),
    minPair ms toks = some (p, rm) → (p, rm.2) ∈ ms := by
  intro toks
  induction toks with
  | nil => intro p rm h; simp [minPair] at h
  | cons a tl ih =>
    intro p rm h
    cases tl with
    | nil => simp [minPair] at h
    | cons b rest =>
      simp only [minPair] at h
      split at h
      · exact ih p rm h
      · rename_i rm' hl _
        simp only [Option.some.injEq, Prod.mk.injEq] at h
        obtain ⟨rfl, rfl⟩ := h
        exact mergeLookup_mem ms 0 _ rm'.1 rm'.2 hl
      · rename_i rm' best hl hb
        split at h
        · simp only [Option.some.injEq, Prod.mk.injEq] at h
          obtain ⟨rfl, rfl⟩ := h
          exact mergeLookup_mem ms 0 _ rm'.1 rm'.2 hl
        · simp only [Option.some.injEq] at h
          subst h
          exact ih _ _ hb

/-! ### The invariant of `bpe_merge` -/

/-- Concatenation of the token strings (`none` if some id has no string). -/
def cat (v : List (Str × Nat)) : List Nat → Option Str
  | [] => some []
  | id :: rest =>
    match strOf v id, cat v rest with
    | some s, some r => some (s ++ r)
    | _, _ => none

theorem cat_cons_some (v : List (Str × Nat)) (id : Nat) (rest : List Nat) (x : Str)
    (h : cat v (id :: rest) = some x) :
    ∃ s r, strOf v id = some s ∧ cat v rest = some r ∧ x = s ++ r := by
  simp only [cat] at h
  split at h
  · rename_i s r hs hr
    exact ⟨s, r, hs, hr, by simpa using h.symm⟩
  · simp at h

theorem cat_cons_of (v : List (Str × Nat)) (id : Nat) (rest : List Nat) (s r : Str)
    (hs : strOf v id = some s) (hr : cat v rest = some r) : cat v (id :: rest) = some (s ++ r) := by
  simp [cat, hs, hr]

/-- One replacement pass keeps the concatenation. -/
theorem mergePass_cat (v : List (Str × Nat)) (f s m : Nat) (sf ss : Str)
    (hf : strOf v f = some sf) (hs : strOf v s = some ss) (hm : strOf v m = some (sf ++ ss)) :
    ∀ (n : Nat) (toks : List Nat), toks.length ≤ n → ∀ x, cat v toks = some x →
      cat v (mergePass f s m toks) = some x := by
  intro n
  induction n with
  | zero =>
    intro toks hl x h
    have : toks = [] := List.eq_nil_of_length_eq_zero (by omega)
    subst this; simpa [mergePass] using h
  | succ n ih =>
    intro toks hl x h
    match toks, hl, h with
    | [], _, h => simpa [mergePass] using h
    | [a], _, h => simpa [mergePass] using h
    | a :: b :: rest, hl, h =>
      simp only [mergePass]
      obtain ⟨sa, ra, hsa, hra, rfl⟩ := cat_cons_some v a _ x h
      split
      · rename_i hc
        simp only [Bool.and_eq_true, beq_iff_eq] at hc
        obtain ⟨rfl, rfl⟩ := hc
        obtain ⟨sb, rb, hsb, hrb, rfl⟩ := cat_cons_some v b _ ra hra
        rw [hf] at hsa; rw [hs] at hsb
        have e1 : sa = sf := (Option.some.inj hsa).symm
        have e2 : sb = ss := (Option.some.inj hsb).symm
        subst e1 e2
        have := ih rest (by simp at hl; omega) rb hrb
        rw [cat_cons_of v m _ _ rb hm this, List.append_assoc]
      · have := ih (b :: rest) (by simp at hl ⊢; omega) ra hra
        exact cat_cons_of v a _ sa ra hsa this

theorem bpeMerge_cat (v : List (Str × Nat)) (ms : List ((Nat × Nat) × Nat)) (hc : Consistent v ms) :
    ∀ (fuel : Nat) (toks : List Nat) (x : Str), cat v toks = some x →
      cat v (bpeMerge ms fuel toks) = some x := by
  intro fuel
  induction fuel with
  | zero => intro toks x h; simpa [bpeMerge] using h
  | succ fuel ih =>
    intro toks x h
    simp only [bpeMerge]
    split
    · exact h
    · rename_i f s r m hmin
      obtain ⟨sa, sb, h1, h2, h3⟩ := hc _ (minPair_mem ms toks (f, s) (r, m) hmin)
      exact ih _ x (mergePass_cat v f s m sa sb h1 h2 h3 toks.length toks (Nat.le_refl _) x h)

/-! ### Decoding -/

theorem decodeStr_append : ∀ (a b : Str) (x y : List Nat), decodeStr a = some x → decodeStr b = some y →
    decodeStr (a ++ b) = some (x ++ y) := by
  intro a
  induction a with
  | nil => intro b x y ha hb; simp [decodeStr] at ha; subst ha; simpa using hb
  | cons c cs ih =>
    intro b x y ha hb
    simp only [decodeStr] at ha
    split at ha
    · rename_i b0 bs hc hcs
      simp only [Option.some.injEq] at ha; subst ha
      simp [decodeStr, hc, ih b bs y hcs hb]
    · simp at ha

theorem decodeStr_append_inv : ∀ (a b : Str) (z : List Nat), decodeStr (a ++ b) = some z →
    ∃ x y, decodeStr a = some x ∧ decodeStr b = some y ∧ z = x ++ y := by
  intro a
  induction a with
  | nil => intro b z h; exact ⟨[], z, rfl, by simpa using h, rfl⟩
  | cons c cs ih =>
    intro b z h
    simp only [List.cons_append, decodeStr] at h
    split at h
    · rename_i b0 bs hc hcs
      simp only [Option.some.injEq] at h; subst h
      obtain ⟨x, y, hx, hy, rfl⟩ := ih b bs hcs
      exact ⟨b0 :: x, y, by simp [decodeStr, hc, hx], hy, rfl⟩
    · simp at h

theorem decodeStr_map_byteToChar : ∀ (bytes : List Nat), (∀ b ∈ bytes, b < 256) →
    decodeStr (bytes.map byteToChar) = some bytes := by
  intro bytes
  induction bytes with
  | nil => intro _; rfl
  | cons b bs ih =>
    intro h
    simp [decodeStr, charToByte_byteToChar b (h b (by simp)),
      ih (fun x hx => h x (List.mem_cons_of_mem _ hx))]

/-- If the token strings concatenate to `enc`, no id is shadowed by an added token and `enc`
maps back to `bs`, then `decode` returns `bs`. -/
theorem decodeIds_of_cat (t : Bpe)
    (hadd : ∀ id s, strOf t.vocab id = some s → t.added.lookup id = none) :
    ∀ (toks : List Nat) (enc : Str) (bs : List Nat), cat t.vocab toks = some enc →
      decodeStr enc = some bs → decodeIds t toks = .ok bs := by
  intro toks
  induction toks with
  | nil =>
    intro enc bs h hd
    simp [cat] at h; subst h
    simp [decodeStr] at hd; subst hd
    rfl
  | cons id rest ih =>
    intro enc bs h hd
    obtain ⟨s, r, hs, hr, rfl⟩ := cat_cons_some _ id rest enc h
    obtain ⟨x, y, hx, hy, rfl⟩ := decodeStr_append_inv s r bs hd
    simp only [decodeIds, decodeOne, hadd id s hs, hs, hx, ih r y hr hy]

theorem decodeIds_append (t : Bpe) : ∀ (xs ys : List Nat) (bx bys : List Nat),
    decodeIds t xs = .ok bx → decodeIds t ys = .ok bys → decodeIds t (xs ++ ys) = .ok (bx ++ bys) := by
  intro xs
  induction xs with
  | nil => intro ys bx bys hx hy; simp [decodeIds] at hx; subst hx; simpa using hy
  | cons id rest ih =>
    intro ys bx bys hx hy
    simp only [decodeIds, List.cons_append] at hx ⊢
    cases h1 : decodeOne t id with
    | ok bs =>
      rw [h1] at hx
      cases h2 : decodeIds t rest with
      | ok more =>
        rw [h2] at hx
        simp only [DecodeResult.ok.injEq] at hx; subst hx
        simp only [ih ys more bys h2 hy, List.append_assoc]
      | invalidId => rw [h2] at hx; simp at hx
      | panic => rw [h2] at hx; simp at hx
    | invalidId => rw [h1] at hx; simp at hx
    | panic => rw [h1] at hx; simp at hx

end RtenVerif.ByteBpe
