/-
Row-major element sequences of views (shared by C13 T3 and C14 T2/T3).

`denote v s` (Model/Layout.lean, from the C09 work) lists its elements in row-major index
order; that list is `rowMajor v.dims` (C07: storage offsets in row-major order) read through the
storage function.  Consequences: a contiguous layout reads `base, base+1, …`; a freshly
allocated contiguous tensor holding an array denotes that array; size-1 axes do not change the
sequence.
-/
import RtenVerif.Model.Layout
import RtenVerif.Lemmas.Layout
import RtenVerif.Lemmas.IterLayout

namespace RtenVerif.Layout
open RtenVerif.Arr RtenVerif.Overlap
open RtenVerif.Iter (rowMajor total rowMajor_one rowMajor_cons_congr rowMajor_length contig_rowMajor)

/-! The lemmas live in `RtenVerif.Layout.Seq` (C09 has lemmas of the same short names). -/
namespace Seq

theorem indices_eq_idxs (d : Dims) : indices d = idxs (sizes d) := by
  induction d with
  | nil => rfl
  | cons p ps ih =>
    obtain ⟨n, st⟩ := p
    simp only [indices, sizes, List.map_cons, idxs] at ih ⊢
    rw [ih]

theorem total_eq_numel (d : Dims) : total d = numel (sizes d) := by
  induction d with
  | nil => rfl
  | cons p ps ih => simp only [total, sizes, List.map_cons, numel, List.foldr_cons] at ih ⊢; rw [ih]

theorem denote_shape {α : Type} (v : View) (s : Nat → α) : (denote v s).shape = sizes v.dims := rfl

/-- The element list of a view: its row-major storage offsets read through the storage. -/
theorem denote_data {α : Type} (v : View) (s : Nat → α) :
    (denote v s).data = (rowMajor v.dims).map (fun o => s (v.base + o)) := by
  simp only [denote, NArr.ofFn, rowMajor, List.map_map, indices_eq_idxs]
  rfl

theorem denote_data_length {α : Type} (v : View) (s : Nat → α) :
    (denote v s).data.length = numel (sizes v.dims) := by
  rw [denote_data, List.length_map, rowMajor_length, total_eq_numel]

theorem sizes_contigDims (shape : List Nat) : sizes (contigDims shape) = shape := by
  induction shape with
  | nil => rfl
  | cons n ns ih => simp only [contigDims, sizes, List.map_cons] at ih ⊢; rw [ih]

theorem contigR_contigDims (shape : List Nat) : contigR (contigDims shape) = some (numel shape) := by
  induction shape with
  | nil => rfl
  | cons n ns ih =>
    simp only [contigDims, contigR, ih, contigStep]
    have hn : numel (n :: ns) = n * numel ns := rfl
    by_cases h1 : n = 1
    · subst h1; simp [hn]
    · simp [h1, hn, Nat.mul_comm]

/-- A contiguous layout of `shape` reads offsets `0, 1, …, numel shape - 1` in order. -/
theorem rowMajor_contigDims (shape : List Nat) :
    rowMajor (contigDims shape) = List.range (numel shape) :=
  (contig_rowMajor _ _ (contigR_contigDims shape)).1

/-- Any layout accepted by `is_contiguous` reads offsets `0, 1, …` in order. -/
theorem rowMajor_of_isContiguous (d : Dims) (h : isContiguous d = true) :
    rowMajor d = List.range (numel (sizes d)) := by
  rw [isContiguous_eq] at h
  cases hc : contigR d with
  | none => simp [hc] at h
  | some p =>
    have h1 := (contig_rowMajor d p hc).1
    have h2 := rowMajor_length d
    rw [h1, List.length_range, total_eq_numel] at h2
    rw [h1, h2]

theorem map_getD_range (l : List Nat) : (List.range l.length).map (fun i => l.getD i 0) = l := by
  apply List.ext_getElem
  · simp
  · intro i h1 h2
    simp at h1
    simp [h1]

/-- A freshly allocated contiguous tensor holding `A` denotes `A` (for well-formed `A`). -/
theorem ofArr_arr (A : NArr Nat) (hwf : A.data.length = numel A.shape) : (TState.ofArr A).arr = A := by
  have hs : ((TState.ofArr A).arr).shape = A.shape := by
    simp [TState.arr, TState.ofArr, denote_shape, sizes_contigDims]
  have hd : ((TState.ofArr A).arr).data = A.data := by
    simp only [TState.arr, TState.ofArr, denote_data, rowMajor_contigDims, Nat.zero_add, ← hwf]
    exact map_getD_range A.data
  cases A with
  | mk sh da =>
    cases h : (TState.ofArr ⟨sh, da⟩).arr with
    | mk sh' da' =>
      rw [h] at hs hd
      simp only at hs hd
      rw [hs, hd]

theorem arr_wf (t : TState) : t.arr.data.length = numel t.arr.shape := by
  rw [TState.arr, denote_data_length, denote_shape]

/-- Inserting a size-1 axis anywhere does not change the row-major offset sequence. -/
theorem rowMajor_insertIdx (st : Nat) : ∀ (d : Dims) (k : Nat), k ≤ d.length →
    rowMajor (d.insertIdx k (1, st)) = rowMajor d
  | d, 0, _ => by rw [List.insertIdx_zero]; exact rowMajor_one st d
  | [], k + 1, h => by simp at h
  | p :: ps, k + 1, h => by
    rw [List.insertIdx_succ_cons]
    exact rowMajor_cons_congr p (rowMajor_insertIdx st ps k (by simpa using h))

/-- Removing a size-1 axis does not change the row-major offset sequence. -/
theorem rowMajor_eraseIdx (d : Dims) (k : Nat) (hk : k < d.length) (h1 : (d.getD k (0, 0)).1 = 1) :
    rowMajor (d.eraseIdx k) = rowMajor d := by
  have hre := insertIdx_eraseIdx_getD d k (0, 0) hk
  have hp : d.getD k (0, 0) = (1, (d.getD k (0, 0)).2) := by
    rw [← h1]
  rw [hp] at hre
  have := rowMajor_insertIdx (d.getD k (0, 0)).2 (d.eraseIdx k) k (by rw [List.length_eraseIdx]; split <;> omega)
  rw [hre] at this
  exact this.symm

end Seq

end RtenVerif.Layout
