import RtenVerif.Lemmas.OnnxRefConcat
/-! CumSum(reverse) = flip ∘ CumSum ∘ flip along the axis. -/
namespace RtenVerif.OnnxRef

/-- Reverse a tensor along axis `ax` (ONNX `Slice` with step −1 over the whole axis). -/
def flipAx (x : Tensor) (ax : Nat) : Tensor :=
  build x.shape (fun idx => x.get (withAt idx ax (getN x.shape ax - 1 - getN idx ax)))

theorem foldl_add_acc : ∀ (l : List Int) (acc : Int), l.foldl (· + ·) acc = acc + l.foldl (· + ·) 0
  | [], acc => by simp
  | a :: l, acc => by
    simp only [List.foldl_cons]
    rw [foldl_add_acc l (acc + a), foldl_add_acc l (0 + a)]
    omega

theorem sumI_cons (a : Int) (l : List Int) : sumI (a :: l) = a + sumI l := by
  unfold sumI
  simp only [List.foldl_cons]
  rw [foldl_add_acc]; omega

theorem sumI_append (a b : List Int) : sumI (a ++ b) = sumI a + sumI b := by
  induction a with
  | nil => simp [sumI]
  | cons x xs ih => rw [List.cons_append, sumI_cons, sumI_cons, ih]; omega

theorem sumI_reverse (l : List Int) : sumI l.reverse = sumI l := by
  induction l with
  | nil => rfl
  | cons x xs ih =>
    have h0 : sumI ([] : List Int) = 0 := rfl
    rw [List.reverse_cons, sumI_append, ih, sumI_cons, sumI_cons, h0]; omega

theorem range_mirror (d : Nat) : (List.range d).map (fun j => d - 1 - j) = (List.range d).reverse := by
  apply List.ext_getElem (by simp)
  intro k h1 h2
  simp only [List.length_map, List.length_range] at h1
  simp [List.getElem_reverse]

/-- Re-indexing a filtered sum over `0 … d-1` by the mirror `j ↦ d-1-j`. -/
theorem sum_mirror (d : Nat) (Q : Nat → Bool) (g : Nat → Int) :
    sumI (((List.range d).filter Q).map (fun j => g (d - 1 - j))) =
      sumI (((List.range d).filter (fun m => Q (d - 1 - m))).map g) := by
  have h1 : ((List.range d).filter Q).map (fun j => g (d - 1 - j))
      = ((((List.range d).map (fun j => d - 1 - j)).filter (fun m => Q (d - 1 - m))).map g) := by
    rw [List.filter_map, List.map_map]
    congr 1
    apply List.filter_congr
    intro j hj
    have : j < d := List.mem_range.mp hj
    simp only [Function.comp]
    congr 1; omega
  rw [h1, range_mirror, List.filter_reverse, List.map_reverse, sumI_reverse]

/-- CS1. `CumSum(reverse = 1)` is `CumSum(reverse = 0)` of the tensor flipped along the axis, flipped
back (for the inclusive and the exclusive variant). -/
theorem cumsum_reverse (x : Tensor) (ax : Nat) (excl : Bool) (hax : ax < x.shape.length) :
    cumsumCore x ax excl true = flipAx (cumsumCore (flipAx x ax) ax excl false) ax := by
  unfold flipAx
  have hsh : (cumsumCore (build x.shape fun idx => x.get (withAt idx ax (getN x.shape ax - 1 - getN idx ax))) ax excl
      false).shape = x.shape := rfl
  rw [hsh]
  show cumsumCore x ax excl true = build x.shape _
  unfold cumsumCore
  simp only [build]
  show build x.shape _ = build x.shape _
  apply build_congr
  intro idx hv
  obtain ⟨hil, hib⟩ := (validIdx_iff _ _).mp hv
  have hi : getN idx ax < getN x.shape ax := hib ax hax
  have haxi : ax < idx.length := by rw [hil]; exact hax
  -- the mirrored index is valid
  have hv1 : validIdx x.shape (withAt idx ax (getN x.shape ax - 1 - getN idx ax)) = true := by
    rw [validIdx_iff]
    refine ⟨by simp [hil], ?_⟩
    intro k hk
    rw [getN_withAt]
    by_cases h : ax = k
    · subst h; simp [haxi]; omega
    · simp [h]; exact hib k hk
  have hb : (⟨x.shape, (allIdx x.shape).map fun idx =>
      sumI (((List.range (getN x.shape ax)).filter (fun j =>
        if false = true then (if excl = true then decide (j > getN idx ax) else decide (j ≥ getN idx ax))
        else (if excl = true then decide (j < getN idx ax) else decide (j ≤ getN idx ax)))).map
          (fun j => Tensor.get ⟨x.shape, (allIdx x.shape).map fun idx =>
            x.get (withAt idx ax (getN x.shape ax - 1 - getN idx ax))⟩ (withAt idx ax j)))⟩ : Tensor)
      = build x.shape (fun idx =>
      sumI (((List.range (getN x.shape ax)).filter (fun j =>
        if excl = true then decide (j < getN idx ax) else decide (j ≤ getN idx ax))).map
          (fun j => (build x.shape fun idx => x.get (withAt idx ax (getN x.shape ax - 1 - getN idx ax))).get
            (withAt idx ax j)))) := by
    simp [build]
  rw [hb, get_build _ _ _ hv1]
  rw [getN_withAt_same _ _ _ haxi]
  -- read through the inner flip
  have hinner : ((List.range (getN x.shape ax)).filter (fun j =>
      if excl = true then decide (j < getN x.shape ax - 1 - getN idx ax)
      else decide (j ≤ getN x.shape ax - 1 - getN idx ax))).map
        (fun j => (build x.shape fun idx => x.get (withAt idx ax (getN x.shape ax - 1 - getN idx ax))).get
          (withAt (withAt idx ax (getN x.shape ax - 1 - getN idx ax)) ax j))
      = ((List.range (getN x.shape ax)).filter (fun j =>
      if excl = true then decide (j < getN x.shape ax - 1 - getN idx ax)
      else decide (j ≤ getN x.shape ax - 1 - getN idx ax))).map
        (fun j => x.get (withAt idx ax (getN x.shape ax - 1 - j))) := by
    apply List.map_congr_left
    intro j hj
    have hjd : j < getN x.shape ax := List.mem_range.mp (List.mem_filter.mp hj).1
    rw [withAt_withAt]
    have hv2 : validIdx x.shape (withAt idx ax j) = true := by
      rw [validIdx_iff]
      refine ⟨by simp [hil], ?_⟩
      intro k hk
      rw [getN_withAt]
      by_cases h : ax = k
      · subst h; simp [haxi]; exact hjd
      · simp [h]; exact hib k hk
    rw [get_build _ _ _ hv2, getN_withAt_same _ _ _ haxi, withAt_withAt]
  rw [hinner, sum_mirror (getN x.shape ax) _ (fun m => x.get (withAt idx ax m))]
  congr 2
  apply List.filter_congr
  intro m hm
  have hmd : m < getN x.shape ax := List.mem_range.mp hm
  cases excl
  · simp only [Bool.false_eq_true, if_false, if_true]
    simp only [decide_eq_decide]; omega
  · simp only [if_true]
    simp only [decide_eq_decide]; omega

end RtenVerif.OnnxRef
