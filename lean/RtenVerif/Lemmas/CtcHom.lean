import RtenVerif.Model.CtcShadow
import RtenVerif.Lemmas.Ctc

/-! C39: homomorphisms between carriers commute with the whole decoder; `V.val : vOps → natOps`
is one. Hence what the driver runs (`vOps`) projects exactly onto the `natOps` model that
T3 / F / S4 talk about.  Also the beam-length bound.  Core Lean only. -/
namespace RtenVerif.Ctc

/-- `φ` preserves every operation and every comparison of the carrier. -/
structure OpsHom {α β : Type} (o1 : Ops α) (o2 : Ops β) (φ : α → β) : Prop where
  zero : φ o1.zero = o2.zero
  one : φ o1.one = o2.one
  add : ∀ a b, φ (o1.add a b) = o2.add (φ a) (φ b)
  mul : ∀ a b, φ (o1.mul a b) = o2.mul (φ a) (φ b)
  gt : ∀ a b, o1.gt a b = o2.gt (φ a) (φ b)
  argGt : ∀ a b, o1.argGt a b = o2.argGt (φ a) (φ b)
  sortGe : ∀ a b, o1.sortGe a b = o2.sortGe (φ a) (φ b)
  isZero : ∀ a, o1.isZero a = o2.isZero (φ a)

section
variable {α β : Type} {o1 : Ops α} {o2 : Ops β} {φ : α → β}

def mapState (φ : α → β) (s : BState α) : BState β := ⟨s.pre, φ s.pb, φ s.pnb⟩
def mapExt (φ : α → β) (e : Ext α) : Ext β := ⟨e.index, e.label, φ e.prob⟩
def mapHyp (φ : α → β) (h : Hyp α) : Hyp β := ⟨h.steps, φ h.score⟩

/-- Pointwise relation between two tables. -/
def TR (φ : α → β) (t : Table α) (t' : Table β) : Prop := ∀ i j, φ (t i j) = t' i j

theorem TR.upd {t : Table α} {t' : Table β} (h : TR φ t t') (a b : Nat) (v : α) (v' : β)
    (hv : φ v = v') : TR φ (Table.upd t a b v) (Table.upd t' a b v') := by
  intro i j
  unfold Table.upd
  split
  · exact hv
  · exact h i j

theorem getD_map_hom (hz : φ o1.zero = o2.zero) (row : List α) (l : Nat) :
    φ (row.getD l o1.zero) = (row.map φ).getD l o2.zero := by
  rw [List.getD_eq_getElem?_getD, List.getD_eq_getElem?_getD, List.getElem?_map]
  cases row[l]? with
  | none => simpa using hz
  | some x => rfl

theorem lastIdxGo_map {γ δ : Type} (f : γ → δ) (p : δ → Bool) (l : List γ) :
    ∀ i acc, lastIdxGo p (l.map f) i acc = lastIdxGo (fun x => p (f x)) l i acc := by
  induction l with
  | nil => intro i acc; rfl
  | cons a l ih => intro i acc; simp only [List.map_cons, lastIdxGo]; exact ih _ _

theorem mergeTarget_map (beam : List (BState α)) (p1 : List Step) (l : Nat) :
    mergeTarget (beam.map (mapState φ)) p1 l = mergeTarget beam p1 l := by
  unfold mergeTarget
  rw [lastIdxGo_map]
  rfl

/-- `extLabel` with the merge target, the entry and the "label differs from the last one"
test abstracted. -/
def extCore (ops : Ops α) (tgt : Nat × Nat) (prob : α) (ne : Bool) (bi : Nat) (s : BState α)
    (t : Tabs α) : Tabs α :=
  if ne then
    let v := ops.add (ops.add (t.nnb tgt.1 tgt.2) (ops.mul s.pb prob)) (ops.mul s.pnb prob)
    { t with nnb := Table.upd t.nnb tgt.1 tgt.2 v }
  else
    let nnb1 := Table.upd t.nnb tgt.1 tgt.2 (ops.add (t.nnb tgt.1 tgt.2) (ops.mul s.pb prob))
    { t with nnb := Table.upd nnb1 bi 0 (ops.add (nnb1 bi 0) (ops.mul s.pnb prob)) }

theorem extLabel_eq_core (ops : Ops α) (beam : List (BState α)) (row : List α) (bi : Nat)
    (s : BState α) (t : Tabs α) (label : Nat) :
    extLabel ops beam row bi s t label =
      extCore ops (match mergeTarget beam s.pre label with
        | some ti => (ti, 0)
        | none => (bi, label)) (row.getD label ops.zero)
        (some label != (s.pre.getLast?).map (·.label)) bi s t := rfl

theorem extCore_hom (hh : OpsHom o1 o2 φ) (tgt : Nat × Nat) (prob : α) (ne : Bool) (bi : Nat)
    (s : BState α) (t : Tabs α) (t' : Tabs β) (h1 : TR φ t.nb t'.nb) (h2 : TR φ t.nnb t'.nnb) :
    TR φ (extCore o1 tgt prob ne bi s t).nb (extCore o2 tgt (φ prob) ne bi (mapState φ s) t').nb ∧
    TR φ (extCore o1 tgt prob ne bi s t).nnb (extCore o2 tgt (φ prob) ne bi (mapState φ s) t').nnb := by
  unfold extCore
  cases ne with
  | true =>
    simp only [if_true]
    refine ⟨h1, ?_⟩
    apply TR.upd h2
    rw [hh.add, hh.add, hh.mul, hh.mul, h2]
    rfl
  | false =>
    simp only [Bool.false_eq_true, if_false]
    refine ⟨h1, ?_⟩
    have h3 : TR φ (Table.upd t.nnb tgt.1 tgt.2
        (o1.add (t.nnb tgt.1 tgt.2) (o1.mul s.pb prob)))
        (Table.upd t'.nnb tgt.1 tgt.2
        (o2.add (t'.nnb tgt.1 tgt.2) (o2.mul (mapState φ s).pb (φ prob)))) := by
      apply TR.upd h2
      rw [hh.add, hh.mul, h2]
      rfl
    apply TR.upd h3
    rw [hh.add, hh.mul, h3]
    rfl

theorem extLabel_hom (hh : OpsHom o1 o2 φ) (beam : List (BState α)) (row : List α) (bi : Nat)
    (s : BState α) (t : Tabs α) (t' : Tabs β) (h1 : TR φ t.nb t'.nb) (h2 : TR φ t.nnb t'.nnb)
    (label : Nat) :
    TR φ (extLabel o1 beam row bi s t label).nb
        (extLabel o2 (beam.map (mapState φ)) (row.map φ) bi (mapState φ s) t' label).nb ∧
    TR φ (extLabel o1 beam row bi s t label).nnb
        (extLabel o2 (beam.map (mapState φ)) (row.map φ) bi (mapState φ s) t' label).nnb := by
  rw [extLabel_eq_core, extLabel_eq_core, mergeTarget_map, ← getD_map_hom hh.zero row label]
  exact extCore_hom hh _ _ _ bi s t t' h1 h2

theorem foldl_rel {σ σ' γ γ' : Type} (R : σ → σ' → Prop) (f : σ → γ → σ) (f' : σ' → γ' → σ')
    (g : γ → γ') (l : List γ)
    (hstep : ∀ t t' x, R t t' → R (f t x) (f' t' (g x))) :
    ∀ init init', R init init' → R (l.foldl f init) ((l.map g).foldl f' init') := by
  induction l with
  | nil => intro i i' h; exact h
  | cons a l ih =>
    intro i i' h
    simp only [List.foldl_cons, List.map_cons]
    exact ih _ _ (hstep _ _ _ h)

/-- Both tables related. -/
def TabsR (φ : α → β) (t : Tabs α) (t' : Tabs β) : Prop := TR φ t.nb t'.nb ∧ TR φ t.nnb t'.nnb

theorem extState_hom (hh : OpsHom o1 o2 φ) (L : Nat) (beam : List (BState α)) (row : List α)
    (t : Tabs α) (t' : Tabs β) (h : TabsR φ t t') (sb : BState α × Nat) :
    TabsR φ (extState o1 L beam row t sb)
      (extState o2 L (beam.map (mapState φ)) (row.map φ) t' (mapState φ sb.1, sb.2)) := by
  unfold extState
  simp only
  have hstart : TabsR φ
      { t with nb := Table.upd t.nb sb.2 0 (o1.add (o1.add (t.nb sb.2 0)
        (o1.mul sb.1.pb (row.getD 0 o1.zero))) (o1.mul sb.1.pnb (row.getD 0 o1.zero))) }
      { t' with nb := Table.upd t'.nb sb.2 0 (o2.add (o2.add (t'.nb sb.2 0)
        (o2.mul (mapState φ sb.1).pb ((row.map φ).getD 0 o2.zero)))
        (o2.mul (mapState φ sb.1).pnb ((row.map φ).getD 0 o2.zero))) } := by
    refine ⟨?_, h.2⟩
    apply TR.upd h.1
    rw [hh.add, hh.add, hh.mul, hh.mul, h.1, getD_map_hom hh.zero]
    rfl
  have := foldl_rel (TabsR φ) (extLabel o1 beam row sb.2 sb.1)
    (extLabel o2 (beam.map (mapState φ)) (row.map φ) sb.2 (mapState φ sb.1)) (fun x => x)
    (List.range' 1 (L - 1))
    (fun t t' x hr => extLabel_hom hh beam row sb.2 sb.1 t t' hr.1 hr.2 x) _ _ hstart
  simpa using this

theorem zipIdx_map_state (beam : List (BState α)) :
    (beam.map (mapState φ)).zipIdx = beam.zipIdx.map (fun sb => (mapState φ sb.1, sb.2)) := by
  rw [List.zipIdx_map]
  rfl

theorem extendAll_hom (hh : OpsHom o1 o2 φ) (L : Nat) (beam : List (BState α)) (row : List α) :
    TabsR φ (extendAll o1 L beam row) (extendAll o2 L (beam.map (mapState φ)) (row.map φ)) := by
  unfold extendAll
  rw [zipIdx_map_state]
  exact foldl_rel (TabsR φ) (extState o1 L beam row)
    (extState o2 L (beam.map (mapState φ)) (row.map φ))
    (fun sb : BState α × Nat => (mapState φ sb.1, sb.2)) beam.zipIdx
    (fun t t' x hr => extState_hom hh L beam row t t' hr x) _ _
    ⟨fun _ _ => hh.zero, fun _ _ => hh.zero⟩

theorem candidates_hom (hh : OpsHom o1 o2 φ) (L n : Nat) (t : Tabs α) (t' : Tabs β)
    (h : TabsR φ t t') :
    (candidates o1 L n t).map (mapExt φ) = candidates o2 L n t' := by
  unfold candidates
  rw [List.map_flatMap]
  congr 1
  funext bi
  rw [List.map_map]
  congr 1
  funext label
  simp only [Function.comp, mapExt, hh.add, h.1 bi label, h.2 bi label]

theorem insertDesc_hom (hh : OpsHom o1 o2 φ) (x : Ext α) (l : List (Ext α)) :
    (insertDesc o1 x l).map (mapExt φ) = insertDesc o2 (mapExt φ x) (l.map (mapExt φ)) := by
  induction l with
  | nil => rfl
  | cons y ys ih =>
    simp only [insertDesc, List.map_cons]
    have : o1.sortGe y.prob x.prob = o2.sortGe (mapExt φ y).prob (mapExt φ x).prob := hh.sortGe _ _
    rw [← this]
    split
    · simp only [List.map_cons, ih]
    · simp only [List.map_cons]

theorem sortDesc_hom (hh : OpsHom o1 o2 φ) (l : List (Ext α)) :
    (sortDesc o1 l).map (mapExt φ) = sortDesc o2 (l.map (mapExt φ)) := by
  unfold sortDesc
  suffices h : ∀ acc : List (Ext α),
      (l.foldl (fun acc x => insertDesc o1 x acc) acc).map (mapExt φ) =
        (l.map (mapExt φ)).foldl (fun acc x => insertDesc o2 x acc) (acc.map (mapExt φ)) by
    simpa using h []
  induction l with
  | nil => intro acc; rfl
  | cons a l ih =>
    intro acc
    simp only [List.foldl_cons, List.map_cons]
    rw [ih, insertDesc_hom hh]

theorem pushExt_hom (hh : OpsHom o1 o2 φ) (B : Nat) (topk : List (Ext α)) (c : Ext α) :
    (pushExt o1 B topk c).map (mapExt φ) = pushExt o2 B (topk.map (mapExt φ)) (mapExt φ c) := by
  unfold pushExt
  have hz : o1.isZero c.prob = o2.isZero (mapExt φ c).prob := hh.isZero _
  have hlast : o1.gt c.prob ((topk.getLast?.map (·.prob)).getD o1.zero) =
      o2.gt (mapExt φ c).prob ((((topk.map (mapExt φ)).getLast?).map (·.prob)).getD o2.zero) := by
    rw [hh.gt, List.getLast?_map]
    congr 1
    cases topk.getLast? with
    | none => simpa using hh.zero
    | some e => rfl
  rw [← hz, ← hlast, List.length_map]
  split
  · rfl
  · split
    · rw [List.map_take, sortDesc_hom hh, List.map_append]; rfl
    · rfl

theorem foldl_pushExt_hom (hh : OpsHom o1 o2 φ) (B : Nat) (cands : List (Ext α)) :
    ∀ topk : List (Ext α), (cands.foldl (pushExt o1 B) topk).map (mapExt φ) =
      (cands.map (mapExt φ)).foldl (pushExt o2 B) (topk.map (mapExt φ)) := by
  induction cands with
  | nil => intro topk; rfl
  | cons c cs ih =>
    intro topk
    simp only [List.foldl_cons, List.map_cons]
    rw [ih, pushExt_hom hh]

theorem selectTopk_hom (hh : OpsHom o1 o2 φ) (B : Nat) (cands : List (Ext α)) :
    (selectTopk o1 B cands).map (mapExt φ) = selectTopk o2 B (cands.map (mapExt φ)) := by
  unfold selectTopk
  simp only
  have := foldl_pushExt_hom hh B cands []
  simp only [List.map_nil] at this
  rw [← this]
  cases hF : cands.foldl (pushExt o1 B) [] with
  | nil => simp [mapExt, hh.zero]
  | cons a l => simp

theorem mkState_hom (beam : List (BState α)) (pos : Nat) (t : Tabs α) (t' : Tabs β)
    (h : TabsR φ t t') (e : Ext α) :
    mapState φ (mkState o1 beam pos t e) =
      mkState o2 (beam.map (mapState φ)) pos t' (mapExt φ e) := by
  have hpre : ((beam.map (mapState φ)).getD e.index (emptyState o2)).pre =
      (beam.getD e.index (emptyState o1)).pre := by
    rw [List.getD_eq_getElem?_getD, List.getD_eq_getElem?_getD, List.getElem?_map]
    cases beam[e.index]? with
    | none => rfl
    | some s => rfl
  unfold mkState
  simp only [mapExt, hpre, ← h.1 e.index e.label, ← h.2 e.index e.label]
  rfl

theorem beamStep_hom (hh : OpsHom o1 o2 φ) (B L : Nat) (beam : List (BState α)) (pos : Nat)
    (row : List α) :
    (beamStep o1 B L beam pos row).map (mapState φ) =
      beamStep o2 B L (beam.map (mapState φ)) pos (row.map φ) := by
  unfold beamStep
  simp only
  have ht := extendAll_hom hh L beam row
  rw [List.length_map, ← candidates_hom hh L beam.length _ _ ht, ← selectTopk_hom hh, List.map_map,
    List.map_map]
  apply List.map_congr_left
  intro e _
  exact mkState_hom beam pos _ _ ht e

theorem beamLoop_hom (hh : OpsHom o1 o2 φ) (B L : Nat) (rows : List (List α)) :
    ∀ (beam : List (BState α)) (pos : Nat),
      (beamLoop o1 B L beam pos rows).map (mapState φ) =
        beamLoop o2 B L (beam.map (mapState φ)) pos (rows.map (·.map φ)) := by
  induction rows with
  | nil => intro beam pos; rfl
  | cons row rows ih =>
    intro beam pos
    simp only [beamLoop, List.map_cons]
    rw [ih, beamStep_hom hh]

theorem decodeBeamImpl_hom (hh : OpsHom o1 o2 φ) (B L : Nat) (rows : List (List α)) :
    (decodeBeamImpl o1 B L rows).map (·.map (mapState φ)) =
      decodeBeamImpl o2 B L (rows.map (·.map φ)) := by
  unfold decodeBeamImpl
  have he : (rows.map (·.map φ)).isEmpty = rows.isEmpty := by cases rows <;> rfl
  rw [he]
  split
  · simp [initBeam, mapState, hh.one, hh.zero]
  · split
    · rfl
    · simp only [Option.map_some]
      rw [beamLoop_hom hh]
      simp [initBeam, mapState, hh.one, hh.zero]

theorem hypOf_hom (hh : OpsHom o1 o2 φ) (s : BState α) :
    mapHyp φ (hypOf o1 s) = hypOf o2 (mapState φ s) := by
  simp [mapHyp, hypOf, mapState, hh.add]

theorem decodeBeamNbest_hom (hh : OpsHom o1 o2 φ) (B N L : Nat) (rows : List (List α)) :
    (decodeBeamNbest o1 B N L rows).map (·.map (mapHyp φ)) =
      decodeBeamNbest o2 B N L (rows.map (·.map φ)) := by
  unfold decodeBeamNbest
  rw [← decodeBeamImpl_hom hh]
  cases decodeBeamImpl o1 B L rows with
  | none => rfl
  | some beam =>
    simp only [Option.map_some, List.map_map, List.map_take]
    congr 2
    apply List.map_congr_left
    intro s _
    exact hypOf_hom hh s

theorem decodeBeam_hom (hh : OpsHom o1 o2 φ) (B L : Nat) (rows : List (List α)) :
    (decodeBeam o1 B L rows).map (mapHyp φ) = decodeBeam o2 B L (rows.map (·.map φ)) := by
  unfold decodeBeam
  rw [← decodeBeamImpl_hom hh]
  cases decodeBeamImpl o1 B L rows with
  | none => rfl
  | some beam =>
    cases beam with
    | nil => rfl
    | cons s rest => simp [hypOf_hom hh]

end

/-! ## `V.val : vOps → natOps` -/

theorem vOps_hom : OpsHom vOps natOps V.val where
  zero := rfl
  one := rfl
  add a b := by
    simp only [vOps, natOps]
    split
    · rename_i h; rw [h]; simp
    · split
      · rename_i h; rw [h]; simp
      · rfl
  mul a b := by
    simp only [vOps, natOps]
    split
    · rename_i h
      rcases h with h | h <;> simp [vZero, h]
    · split
      · rename_i h; rw [h.1]; simp
      · split
        · rename_i h; rw [h.1]; simp
        · rfl
  gt _ _ := rfl
  argGt _ _ := rfl
  sortGe _ _ := rfl
  isZero _ := rfl

theorem leaf_val (w : Nat) : (leaf w).val = w := by
  unfold leaf
  split
  · rename_i h; rw [h]; rfl
  · rfl

theorem rows_leaf_val (rows : List (List Nat)) :
    (rows.map (·.map leaf)).map (·.map V.val) = rows := by
  rw [List.map_map]
  have : ((fun r : List V => r.map V.val) ∘ fun r : List Nat => r.map leaf) = id := by
    funext r
    simp only [Function.comp, List.map_map, id]
    have : (V.val ∘ leaf) = id := by funext w; exact leaf_val w
    rw [this, List.map_id]
  rw [this, List.map_id]

end RtenVerif.Ctc
