import RtenVerif.Lemmas.Gemm

/-! C16 (T3): the slot order written by `pack_a_block` / `pack_b_block` (`packASlots` /
`packBSlots`) as an index map.  Core Lean only. -/
namespace RtenVerif.Gemm

/-! ### indexing into a `flatMap` of equally long pieces -/

theorem length_flatMap_uniform {ι β : Type} (l : List ι) (f : ι → List β) (L : Nat)
    (h : ∀ a ∈ l, (f a).length = L) : (l.flatMap f).length = l.length * L := by
  induction l with
  | nil => simp
  | cons a t ih =>
    rw [List.flatMap_cons, List.length_append, h a List.mem_cons_self,
      ih (fun b hb => h b (List.mem_cons_of_mem _ hb)), List.length_cons, Nat.succ_mul]
    omega

theorem getElem?_flatMap_uniform {ι β : Type} (f : ι → List β) (L : Nat) :
    ∀ (l : List ι), (∀ a ∈ l, (f a).length = L) → ∀ (i : Nat) (a : ι), l[i]? = some a →
      ∀ j, j < L → (l.flatMap f)[i * L + j]? = (f a)[j]? := by
  intro l
  induction l with
  | nil => intro _ i a h; simp at h
  | cons b t ih =>
    intro h i a hia j hj
    rw [List.flatMap_cons]
    have hb : (f b).length = L := h b List.mem_cons_self
    cases i with
    | zero =>
      rw [List.getElem?_cons_zero] at hia
      cases hia
      rw [Nat.zero_mul, Nat.zero_add, List.getElem?_append_left (by omega)]
    | succ i =>
      rw [List.getElem?_cons_succ] at hia
      have hidx : (i + 1) * L + j - (f b).length = i * L + j := by
        rw [hb, Nat.succ_mul]; omega
      rw [List.getElem?_append_right (by rw [hb, Nat.succ_mul]; omega), hidx]
      exact ih (fun c hc => h c (List.mem_cons_of_mem _ hc)) i a hia j hj

/-- Every index below `n·(X·Y)` is `p·(X·Y) + (x·Y + y)` for unique digits. -/
theorem decomp3 {n X Y i : Nat} (hi : i < n * (X * Y)) :
    i / (X * Y) < n ∧ i % (X * Y) / Y < X ∧ i % (X * Y) % Y < Y ∧
    i = i / (X * Y) * (X * Y) + (i % (X * Y) / Y * Y + i % (X * Y) % Y) := by
  have hXY : 0 < X * Y := by
    rcases Nat.eq_zero_or_pos (X * Y) with h | h
    · rw [h] at hi; omega
    · exact h
  have hY : 0 < Y := by
    rcases Nat.eq_zero_or_pos Y with h | h
    · subst h; omega
    · exact h
  refine ⟨(Nat.div_lt_iff_lt_mul hXY).mpr hi, ?_, Nat.mod_lt _ hY, ?_⟩
  · exact (Nat.div_lt_iff_lt_mul hY).mpr (Nat.mod_lt _ hXY)
  · have h1 := Nat.div_add_mod' i (X * Y)
    have h2 := Nat.div_add_mod' (i % (X * Y)) Y
    omega

/-! ### `pack_b_block` -/

theorem packBSlots_length (nr rows cols : Nat) :
    (packBSlots nr rows cols).length = divCeil cols nr * (rows * nr) := by
  unfold packBSlots
  rw [length_flatMap_uniform _ _ (rows * nr), List.length_range]
  intro panel _
  rw [length_flatMap_uniform _ _ nr, List.length_range]
  intro row _
  simp

/-- Slot `panel·(rows·NR) + row·NR + j` of the packed B block holds element
`(row, panel·NR + j)` of the block, or zero padding if that column is beyond the block. -/
theorem packBSlots_get (nr rows cols : Nat) {panel row j : Nat} (hp : panel < divCeil cols nr)
    (hr : row < rows) (hj : j < nr) :
    (packBSlots nr rows cols)[panel * (rows * nr) + (row * nr + j)]? =
      some (if panel * nr + j < cols then some (row, panel * nr + j) else none) := by
  unfold packBSlots
  have hrn : row * nr + j < rows * nr := by
    have : (row + 1) * nr ≤ rows * nr := Nat.mul_le_mul_right _ hr
    rw [Nat.succ_mul] at this; omega
  rw [getElem?_flatMap_uniform _ (rows * nr) _ _ panel panel (List.getElem?_range hp) _ hrn]
  · rw [getElem?_flatMap_uniform _ nr _ _ row row (List.getElem?_range hr) _ hj]
    · rw [List.getElem?_map, List.getElem?_range hj]; rfl
    · intro a _; simp
  · intro a _
    rw [length_flatMap_uniform _ _ nr, List.length_range]
    intro b _; simp

/-! ### `pack_a_block` -/

/-- One row panel written by `pack_a_block`: the rows present, then the zero rows. -/
def panelA (mr cols : Nat) (pr : Nat × Nat) : List (Option (Nat × Nat)) :=
  ((List.range' pr.1 (pr.2 - pr.1)).flatMap fun row =>
    (List.range cols).map fun col => some (row, col)) ++
  ((List.range' pr.2 (pr.1 + mr - pr.2)).flatMap fun _ => List.replicate cols none)

theorem packASlots_eq (mr rows cols : Nat) :
    packASlots mr rows cols = (rangeChunks rows 0 rows mr).flatMap (panelA mr cols) := rfl

theorem panelA_length (mr cols : Nat) (pr : Nat × Nat) (h1 : pr.1 ≤ pr.2) (h2 : pr.2 ≤ pr.1 + mr) :
    (panelA mr cols pr).length = mr * cols := by
  unfold panelA
  rw [List.length_append, length_flatMap_uniform _ _ cols, length_flatMap_uniform _ _ cols,
    List.length_range', List.length_range', ← Nat.add_mul]
  · congr 1; omega
  · intro a _; simp
  · intro a _; simp

theorem panelA_get (mr cols : Nat) (pr : Nat × Nat) (h1 : pr.1 ≤ pr.2) (h2 : pr.2 ≤ pr.1 + mr)
    {j col : Nat} (hj : j < mr) (hc : col < cols) :
    (panelA mr cols pr)[j * cols + col]? =
      some (if pr.1 + j < pr.2 then some (pr.1 + j, col) else none) := by
  unfold panelA
  have hlen1 : ((List.range' pr.1 (pr.2 - pr.1)).flatMap fun row =>
      (List.range cols).map fun col => (some (row, col) : Option (Nat × Nat))).length =
      (pr.2 - pr.1) * cols := by
    rw [length_flatMap_uniform _ _ cols, List.length_range']
    intro a _; simp
  by_cases hlt : pr.1 + j < pr.2
  · have hidx : j * cols + col < (pr.2 - pr.1) * cols := by
      have : (j + 1) * cols ≤ (pr.2 - pr.1) * cols := Nat.mul_le_mul_right _ (by omega)
      rw [Nat.succ_mul] at this; omega
    rw [List.getElem?_append_left (by rw [hlen1]; exact hidx)]
    rw [getElem?_flatMap_uniform _ cols _ _ j (pr.1 + j)
      (by rw [List.getElem?_range' (by omega)]; simp) _ hc]
    · rw [List.getElem?_map, List.getElem?_range hc]; simp [hlt]
    · intro a _; simp
  · have hge : (pr.2 - pr.1) * cols ≤ j * cols := Nat.mul_le_mul_right _ (by omega)
    have hidx : j * cols + col - (pr.2 - pr.1) * cols = (j - (pr.2 - pr.1)) * cols + col := by
      have := Nat.sub_mul j (pr.2 - pr.1) cols; omega
    rw [List.getElem?_append_right (by rw [hlen1]; omega), hlen1, hidx]
    rw [getElem?_flatMap_uniform _ cols _ _ (j - (pr.2 - pr.1)) (pr.2 + (j - (pr.2 - pr.1)))
      (by rw [List.getElem?_range' (by omega)]; simp) _ hc]
    · rw [List.getElem?_replicate]; simp [hc, hlt]
    · intro a _; simp

/-- Number of chunks of `range_chunks`: chunk `p` exists iff `s + p·c < e`. -/
theorem rangeChunks_length_lt (c : Nat) (hc : 0 < c) :
    ∀ (fuel s e : Nat), e - s ≤ fuel → ∀ p, p < (rangeChunks fuel s e c).length ↔ s + p * c < e := by
  intro fuel
  induction fuel with
  | zero => intro s e h p; simp [rangeChunks]; omega
  | succ f ih =>
    intro s e h p
    unfold rangeChunks
    by_cases hse : s < e
    · simp only [hse, if_true, List.length_cons]
      have hs' : s + (min (s + c) e - s) = min (s + c) e := by omega
      rw [hs']
      cases p with
      | zero => simp; omega
      | succ p =>
        rw [Nat.succ_lt_succ_iff, ih _ _ (by omega), Nat.succ_mul]
        rcases Nat.le_total (s + c) e with hle | hle
        · rw [Nat.min_eq_left hle]; omega
        · rw [Nat.min_eq_right hle]; omega
    · simp only [hse, if_false, List.length_nil]
      omega

theorem rangeChunks_length (c : Nat) (hc : 0 < c) (n : Nat) :
    (rangeChunks n 0 n c).length = divCeil n c := by
  have h := rangeChunks_length_lt c hc n 0 n (by omega)
  have hd : ∀ p, p < divCeil n c ↔ 0 + p * c < n := by
    intro p
    rw [Nat.zero_add]
    constructor
    · intro hp
      have : ¬ divCeil n c ≤ p := by omega
      rw [divCeil_le_iff hc] at this
      omega
    · intro hp
      have : ¬ divCeil n c ≤ p := by rw [divCeil_le_iff hc]; omega
      omega
  apply Nat.le_antisymm
  · apply Nat.le_of_not_lt
    intro hlt
    have := (hd _).mpr ((h _).mp hlt)
    omega
  · apply Nat.le_of_not_lt
    intro hlt
    have := (h _).mpr ((hd _).mp hlt)
    omega

theorem packA_get_aux (mr cols : Nat) (hmr : 0 < mr) :
    ∀ (fuel s e : Nat), e - s ≤ fuel → ∀ (p j col : Nat), s + p * mr < e → j < mr → col < cols →
      ((rangeChunks fuel s e mr).flatMap (panelA mr cols))[p * (mr * cols) + (j * cols + col)]? =
        some (if s + p * mr + j < e then some (s + p * mr + j, col) else none) := by
  intro fuel
  induction fuel with
  | zero => intro s e h p j col hp; omega
  | succ f ih =>
    intro s e h p j col hp hj hc
    have hse : s < e := by omega
    unfold rangeChunks
    simp only [hse, if_true, List.flatMap_cons]
    have hs' : s + (min (s + mr) e - s) = min (s + mr) e := by omega
    rw [hs']
    have hlen : (panelA mr cols (s, min (s + mr) e)).length = mr * cols :=
      panelA_length mr cols _ (by simp only; omega) (by simp only; omega)
    have hjc : j * cols + col < mr * cols := by
      have : (j + 1) * cols ≤ mr * cols := Nat.mul_le_mul_right _ hj
      rw [Nat.succ_mul] at this; omega
    cases p with
    | zero =>
      rw [Nat.zero_mul, Nat.zero_add, List.getElem?_append_left (by rw [hlen]; exact hjc),
        panelA_get mr cols _ (by simp only; omega) (by simp only; omega) hj hc]
      simp only [Nat.zero_mul, Nat.add_zero]
      by_cases h1 : s + j < e
      · have : s + j < min (s + mr) e := by omega
        simp [h1, this]
      · have : ¬ s + j < min (s + mr) e := by omega
        simp [h1, this]
    | succ p =>
      have hsm : s + mr < e := by rw [Nat.succ_mul] at hp; omega
      have hmin : min (s + mr) e = s + mr := by omega
      have hidx : (p + 1) * (mr * cols) + (j * cols + col) - (panelA mr cols (s, min (s + mr) e)).length =
          p * (mr * cols) + (j * cols + col) := by
        rw [hlen, Nat.succ_mul]; omega
      rw [List.getElem?_append_right (by rw [hlen, Nat.succ_mul]; omega), hidx, hmin,
        ih (s + mr) e (by omega) p j col (by rw [Nat.succ_mul] at hp; omega) hj hc]
      have : s + (p + 1) * mr = s + mr + p * mr := by rw [Nat.succ_mul]; omega
      rw [this]

/-- Slot `p·(MR·cols) + j·cols + col` of the packed A block holds element `(p·MR + j, col)` of the
block, or zero padding if that row is beyond the block. -/
theorem packASlots_get (mr rows cols : Nat) (hmr : 0 < mr) {p j col : Nat} (hp : p * mr < rows)
    (hj : j < mr) (hc : col < cols) :
    (packASlots mr rows cols)[p * (mr * cols) + (j * cols + col)]? =
      some (if p * mr + j < rows then some (p * mr + j, col) else none) := by
  rw [packASlots_eq]
  have := packA_get_aux mr cols hmr rows 0 rows (by omega) p j col (by omega) hj hc
  simpa using this

theorem packASlots_length (mr rows cols : Nat) (hmr : 0 < mr) :
    (packASlots mr rows cols).length = divCeil rows mr * (mr * cols) := by
  rw [packASlots_eq, length_flatMap_uniform _ _ (mr * cols), rangeChunks_length mr hmr]
  intro pr hpr
  have := rangeChunks_mem mr hmr _ _ _ pr hpr
  exact panelA_length mr cols pr (by omega) (by omega)

/-! ### packing from strided storage -/

theorem flatMap_congr_mem {ι β : Type} (l : List ι) (f g : ι → List β)
    (h : ∀ a ∈ l, f a = g a) : l.flatMap f = l.flatMap g := by
  induction l with
  | nil => rfl
  | cons a t ih =>
    rw [List.flatMap_cons, List.flatMap_cons, h a List.mem_cons_self,
      ih (fun b hb => h b (List.mem_cons_of_mem _ hb))]

/-- `pack_b_block` reads, for slot `(k, c)` of the block, storage offset
`(r0 + k)·row_stride + (c0 + c)·col_stride` — in both branches, for every stride pair. -/
theorem packBSrc_eq (nr rstr cstr r0 r1 c0 c1 : Nat) :
    packBSrc nr rstr cstr r0 r1 c0 c1 =
      (packBSlots nr (r1 - r0) (c1 - c0)).map
        (Option.map fun kc => (r0 + kc.1) * rstr + (c0 + kc.2) * cstr) := by
  unfold packBSrc packBSlots
  rw [List.map_flatMap]
  apply flatMap_congr_mem
  intro panel _
  rw [List.map_flatMap]
  simp only [List.map_map]
  split
  · rename_i hfull
    apply flatMap_congr_mem
    intro row _
    apply List.map_congr_left
    intro col hcol
    have hc : col < nr := List.mem_range.mp hcol
    have hlt : panel * nr + col < c1 - c0 := by omega
    simp only [Function.comp, hlt, if_true, Option.map_some]
    congr 1
    rw [Nat.add_mul, Nat.add_mul, Nat.add_mul, Nat.add_mul]
    omega
  · apply flatMap_congr_mem
    intro row _
    apply List.map_congr_left
    intro col _
    simp only [Function.comp]
    split
    · simp only [Option.map_some]
      congr 1
      rw [Nat.add_assoc c0]
    · rfl

/-- `pack_a_block` reads, for slot `(p·MR + j, col)` of the block, storage offset
`(r0 + p·MR + j)·row_stride + (c0 + col)·col_stride`, for every stride pair. -/
theorem packASrc_get (mr rstr cstr r0 r1 c0 c1 : Nat) (hmr : 0 < mr) {p j col : Nat}
    (hp : r0 + p * mr < r1) (hj : j < mr) (hc : col < c1 - c0) :
    (packASrc mr rstr cstr r0 r1 c0 c1)[p * (mr * (c1 - c0)) + (j * (c1 - c0) + col)]? =
      some (if r0 + p * mr + j < r1 then some ((r0 + p * mr + j) * rstr + (c0 + col) * cstr)
        else none) := by
  have hmap : packASrc mr rstr cstr r0 r1 c0 c1 =
      ((rangeChunks (r1 - r0) r0 r1 mr).flatMap (panelA mr (c1 - c0))).map
        (Option.map fun rc => rc.1 * rstr + (c0 + rc.2) * cstr) := by
    unfold packASrc
    rw [List.map_flatMap]
    apply flatMap_congr_mem
    intro pr _
    unfold panelA
    rw [List.map_append, List.map_flatMap, List.map_flatMap]
    congr 1
    · apply flatMap_congr_mem
      intro row _
      rw [List.map_map]
      rfl
    · apply flatMap_congr_mem
      intro _ _
      simp
  rw [hmap, List.getElem?_map,
    packA_get_aux mr (c1 - c0) hmr (r1 - r0) r0 r1 (by omega) p j col hp hj hc]
  by_cases h : r0 + p * mr + j < r1 <;> simp [h]

end RtenVerif.Gemm
