import RtenVerif.Lemmas.SliceT1

/-! C09: the copying path of `slice_copy` (fixed code) for range items with any non-zero step. -/
namespace RtenVerif.Layout
open RtenVerif.Arr RtenVerif.Overlap

/-- The reference selection for range-only items. -/
def rsels : Dims → List SliceItem → List Sel
  | (n, _) :: ds, .range r :: its => Sel.take (pyIndices r.start r.stop r.step n) :: rsels ds its
  | _, _ => []

/-- The per-axis index lists `copy_range_into_slice` enumerates (every axis). -/
def rlists : Dims → List SliceItem → List (List Nat)
  | [], _ => []
  | (n, _) :: ds, [] => List.range n :: rlists ds []
  | (n, _) :: ds, .range r :: its => pyIndices r.start r.stop r.step n :: rlists ds its
  | (_, _) :: ds, .index _ :: its => [] :: rlists ds its

def rangesOnly (items : List SliceItem) : Prop :=
  ∀ it ∈ items, ∃ r, it = SliceItem.range r ∧ r.step ≠ 0

theorem indexRange_total (r : SliceRange) (n : Nat) (h0 : r.step ≠ 0) :
    ∃ ir, r.indexRange n = .ok ir ∧ ir.toList = pyIndices r.start r.stop r.step n ∧
      ir.steps = pyCount r.start r.stop r.step n := by
  by_cases ht : r.step > 0
  · obtain ⟨ir, h1, h2, h3, _⟩ := indexRange_pos r n ht
    exact ⟨ir, h1, h2, h3⟩
  · exact indexRange_neg r n (by omega)

theorem pyIndices_length (a : Int) (b : Option Int) (c : Int) (n : Nat) :
    (pyIndices a b c n).length = pyCount a b c n := by
  simp [pyIndices]

theorem copyRanges_nil (d : Dims) : copyRanges d [] = .ok (rlists d []) := by
  induction d with
  | nil => rfl
  | cons p ds ih =>
    obtain ⟨n, st⟩ := p
    simp only [copyRanges, ih, rlists, bind, Except.bind, pure, Except.pure]

theorem copy_path_spec (d : Dims) (items : List SliceItem) (hlen : items.length ≤ d.length)
    (hr : rangesOnly items) :
    copyRanges d items = .ok (rlists d items) ∧
    slicedShape d items = .ok (selShape (rsels d items) (sizes d)) ∧
    NArr.copySels (items.map toRefItem) (sizes d) = .ok (rsels d items) ∧
    (rlists d items).map List.length = selShape (rsels d items) (sizes d) := by
  induction d generalizing items with
  | nil =>
    cases items with
    | nil => exact ⟨rfl, rfl, rfl, rfl⟩
    | cons it its => simp at hlen
  | cons p ds ih =>
    obtain ⟨n, st⟩ := p
    cases items with
    | nil =>
      have h := ih [] (by simp) (fun it h => by cases h)
      refine ⟨copyRanges_nil _, rfl, rfl, ?_⟩
      have h4 := h.2.2.2
      simp only [rlists, rsels, selShape, List.map_cons, List.length_range, sizes] at h4 ⊢
      rw [h4]
    | cons it its =>
      have hlen' : its.length ≤ ds.length := by simpa using hlen
      obtain ⟨r, hit, h0⟩ := hr it List.mem_cons_self
      subst hit
      have hr' : rangesOnly its := fun it h => hr it (List.mem_cons_of_mem _ h)
      obtain ⟨h1, h2, h3, h4⟩ := ih its hlen' hr'
      obtain ⟨ir, hir, htl, hst⟩ := indexRange_total r n h0
      refine ⟨?_, ?_, ?_, ?_⟩
      · simp only [copyRanges, SliceItem.indexRange, hir, h1, rlists, htl, bind, Except.bind, pure,
          Except.pure]
      · simp only [slicedShape, h2, hir, rsels, sizes, List.map_cons, selShape, hst,
          pyIndices_length, bind, Except.bind, pure, Except.pure]
      · simp only [List.map_cons, toRefItem, sizes, NArr.copySels, h0, if_false, rsels]
        simp only [sizes] at h3
        rw [h3]; rfl
      · simp only [rlists, rsels, sizes, List.map_cons, selShape]
        simp only [sizes] at h4
        rw [h4]

/-- Enumerating an un-sliced axis explicitly (`0..n`) is the same as leaving it out. -/
theorem lists_src (d : Dims) (items : List SliceItem) (hlen : items.length ≤ d.length)
    (hr : rangesOnly items) :
    selShape ((rlists d items).map Sel.take) (sizes d) = selShape (rsels d items) (sizes d) ∧
    ∀ idx, validIdx (selShape (rsels d items) (sizes d)) idx = true →
      selSrc ((rlists d items).map Sel.take) idx = selSrc (rsels d items) idx := by
  induction d generalizing items with
  | nil =>
    cases items with
    | nil => exact ⟨rfl, fun idx _ => rfl⟩
    | cons it its => simp at hlen
  | cons p ds ih =>
    obtain ⟨n, st⟩ := p
    cases items with
    | nil =>
      obtain ⟨h1, h2⟩ := ih [] (by simp) (fun it h => by cases h)
      have hs : selShape (rsels ds []) (sizes ds) = sizes ds := by cases ds <;> rfl
      rw [hs] at h1 h2
      refine ⟨?_, ?_⟩
      · simp only [rlists, rsels, List.map_cons, sizes, selShape, List.length_range]
        simp only [sizes] at h1
        rw [h1]
      · intro idx hv
        cases idx with
        | nil => simp [rsels, selShape, sizes, validIdx] at hv
        | cons j js =>
          simp only [rsels, selShape, sizes, List.map_cons, validIdx, Bool.and_eq_true,
            decide_eq_true_eq] at hv
          have hj : (List.range n).getD j 0 = j := by
            simp [List.getD_eq_getElem?_getD, List.getElem?_eq_getElem, hv.1]
          have h2' := h2 js (by simpa [sizes] using hv.2)
          have hs2 : selSrc (rsels ds []) js = js := by cases ds <;> rfl
          rw [hs2] at h2'
          simp only [rlists, rsels, List.map_cons, selSrc, hj, h2']
    | cons it its =>
      have hlen' : its.length ≤ ds.length := by simpa using hlen
      obtain ⟨r, hit, h0⟩ := hr it List.mem_cons_self
      subst hit
      have hr' : rangesOnly its := fun it h => hr it (List.mem_cons_of_mem _ h)
      obtain ⟨h1, h2⟩ := ih its hlen' hr'
      refine ⟨?_, ?_⟩
      · simp only [rlists, rsels, List.map_cons, sizes, selShape]
        simp only [sizes] at h1
        rw [h1]
      · intro idx hv
        cases idx with
        | nil => simp [rsels, selShape, sizes, validIdx] at hv
        | cons j js =>
          simp only [rsels, selShape, sizes, List.map_cons, validIdx, Bool.and_eq_true] at hv
          simp only [rlists, rsels, List.map_cons, selSrc, h2 js (by simpa [sizes] using hv.2)]

end RtenVerif.Layout
