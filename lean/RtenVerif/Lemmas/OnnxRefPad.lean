import RtenVerif.Lemmas.OnnxRefValid
/-! `Pad` followed by the `Slice` that removes the padding is the identity (every mode). -/
namespace RtenVerif.OnnxRef

theorem getN_map_range (n : Nat) (f : Nat → Nat) (k : Nat) (h : k < n) :
    getN ((List.range n).map f) k = f k := by
  simp [getN, List.getD_eq_getElem?_getD, h]

theorem getI_replicate (n : Nat) (v : Int) (k : Nat) (h : k < n) : getI (List.replicate n v) k = v := by
  simp [getI, List.getD_eq_getElem?_getD, h]

theorem padSrc_inRange (mode : String) (dim i : Nat) (h : i < dim) : padSrc mode dim (i : Int) = some i := by
  unfold padSrc
  have h1 : (0 : Int) ≤ (i : Int) ∧ (i : Int) < (dim : Int) := ⟨by omega, by omega⟩
  simp [h1]

theorem slice_padCore (x : Tensor) (before : List Int) (outDims : List Nat) (mode : String) (c : Int)
    (hwf : x.data.length = prod x.shape)
    (hout : outDims.length = x.shape.length)
    (hnn : ∀ k, k < x.shape.length → 0 ≤ getI before k)
    (hfit : ∀ k, k < x.shape.length → getI before k + (getN x.shape k : Int) ≤ (getN outDims k : Int)) :
    sliceCore (padCore x before outDims mode c) before (List.replicate x.shape.length 1) x.shape = x := by
  unfold sliceCore
  apply Eq.trans (build_congr x.shape _ x.get _) (build_get x hwf)
  intro idx hv
  have hv' := (validIdx_iff _ _).mp hv
  rw [hv'.1]
  -- the index read from the padded tensor
  have hJ : validIdx outDims ((List.range x.shape.length).map
      (fun k => (getI before k + (getN idx k : Int) * getI (List.replicate x.shape.length 1) k).toNat)) = true := by
    rw [validIdx_iff]
    refine ⟨by simp [hout], ?_⟩
    intro k hk
    rw [hout] at hk
    rw [getN_map_range _ _ _ hk, getI_replicate _ _ _ hk]
    have h1 := hnn k hk
    have h2 := hfit k hk
    have h3 := hv'.2 k hk
    omega
  unfold padCore
  rw [get_build _ _ _ hJ]
  have hsrc : (List.range x.rank).map (fun k => padSrc mode (getN x.shape k)
      ((getN ((List.range x.shape.length).map
        (fun k => (getI before k + (getN idx k : Int) * getI (List.replicate x.shape.length 1) k).toNat)) k : Int)
        - getI before k)) = (List.range x.shape.length).map (fun k => some (getN idx k)) := by
    unfold Tensor.rank
    apply List.map_congr_left
    intro k hk
    have hk' : k < x.shape.length := List.mem_range.mp hk
    rw [getN_map_range _ _ _ hk', getI_replicate _ _ _ hk']
    have h1 := hnn k hk'
    have h3 := hv'.2 k hk'
    have : ((getI before k + (getN idx k : Int) * 1).toNat : Int) - getI before k = (getN idx k : Int) := by omega
    rw [this]
    exact padSrc_inRange mode _ _ h3
  simp only [hsrc]
  have hall : ((List.range x.shape.length).map (fun k => some (getN idx k))).all Option.isSome = true := by
    simp
  simp only [hall, if_true, List.map_map]
  congr 1
  apply list_ext_getN _ _ (by simp [hv'.1])
  intro k hk
  have hk' : k < x.shape.length := by simpa using hk
  rw [getN_map_range _ _ _ hk']
  rfl

end RtenVerif.OnnxRef
