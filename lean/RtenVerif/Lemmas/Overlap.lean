import RtenVerif.Model.Overlap

/-! Helper lemmas for C08 (overlap check soundness). -/
namespace RtenVerif.Overlap

/-- A valid index vector for `dims` (`(size, stride)` pairs). -/
inductive ValidIdx : List (Nat × Nat) → List Nat → Prop
  | nil : ValidIdx [] []
  | cons {size stride i : Nat} {ds : List (Nat × Nat)} {is : List Nat} :
      i < size → ValidIdx ds is → ValidIdx ((size, stride) :: ds) (i :: is)

theorem mixed_radix {s x y a b : Nat} (hx : x < s) (hy : y < s)
    (h : x + a * s = y + b * s) : x = y ∧ a = b := by
  have h1 : (x + a * s) % s = (y + b * s) % s := by rw [h]
  rw [Nat.add_mul_mod_self_right, Nat.add_mul_mod_self_right,
    Nat.mod_eq_of_lt hx, Nat.mod_eq_of_lt hy] at h1
  subst h1
  have h2 : a * s = b * s := by omega
  have hs : 0 < s := by omega
  exact ⟨rfl, Nat.eq_of_mul_eq_mul_right hs h2⟩

/-! ### Insertion sort -/

theorem insertBy_perm {α : Type} (le : α → α → Bool) (x : α) (l : List α) :
    (insertBy le x l).Perm (x :: l) := by
  induction l with
  | nil => exact List.Perm.refl _
  | cons y ys ih =>
    simp only [insertBy]
    split
    · exact List.Perm.refl _
    · exact ((List.Perm.cons y ih).trans (List.Perm.swap x y ys))

theorem isort_perm {α : Type} (le : α → α → Bool) (l : List α) : (isort le l).Perm l := by
  induction l with
  | nil => exact List.Perm.refl _
  | cons x xs ih => exact (insertBy_perm le x _).trans (List.Perm.cons x ih)

theorem map_insertBy {α β : Type} (f : α → β) (le : β → β → Bool) (x : α) (l : List α) :
    (insertBy (fun a b => le (f a) (f b)) x l).map f = insertBy le (f x) (l.map f) := by
  induction l with
  | nil => rfl
  | cons y ys ih =>
    simp only [insertBy, List.map_cons]
    split <;> simp [ih]

theorem map_isort {α β : Type} (f : α → β) (le : β → β → Bool) (l : List α) :
    (isort (fun a b => le (f a) (f b)) l).map f = isort le (l.map f) := by
  induction l with
  | nil => rfl
  | cons x xs ih => simp only [isort, List.map_cons, map_insertBy, ih]

/-! ### Contiguous case -/

/-- `is_contiguous` loop as a right fold (innermost dimension first). -/
def contigR : List (Nat × Nat) → Option Nat
  | [] => some 1
  | d :: ds => contigStep (contigR ds) d

theorem isContiguous_eq (dims : List (Nat × Nat)) :
    isContiguous dims = (contigR dims).isSome := by
  unfold isContiguous
  rw [List.foldl_reverse]
  congr 1
  induction dims with
  | nil => rfl
  | cons d ds ih => simp [List.foldr, contigR, ih]

theorem contig_inj : ∀ (dims : List (Nat × Nat)) (p : Nat) (i : List Nat),
    contigR dims = some p → ValidIdx dims i →
    offset dims i < p ∧ ∀ j, ValidIdx dims j → offset dims i = offset dims j → i = j := by
  intro dims
  induction dims with
  | nil =>
    intro p i hp hi
    cases hi
    simp [contigR] at hp
    subst hp
    refine ⟨by simp [offset], ?_⟩
    intro j hj _
    cases hj; rfl
  | cons d ds ih =>
    intro p i hp hi
    cases hi with
    | @cons size stride i0 _ is hlt hrest =>
      simp only [contigR] at hp
      cases hc : contigR ds with
      | none => simp [hc, contigStep] at hp
      | some p' =>
        obtain ⟨hbound, hinj⟩ := ih p' is hc hrest
        simp only [hc, contigStep] at hp
        by_cases h1 : size = 1
        · simp [h1] at hp
          subst hp
          have hi0 : i0 = 0 := by omega
          subst hi0
          refine ⟨by simpa [offset] using hbound, ?_⟩
          intro j hj hoff
          cases hj with
          | @cons _ _ j0 _ js hjlt hjrest =>
            have hj0 : j0 = 0 := by omega
            subst hj0
            simp only [offset, Nat.zero_mul, Nat.zero_add] at hoff
            rw [hinj js hjrest hoff]
        · simp only [h1, if_false] at hp
          by_cases h2 : stride = p'
          · simp [h2] at hp
            subst h2
            subst hp
            constructor
            · simp only [offset]
              have : (i0 + 1) * stride ≤ size * stride := Nat.mul_le_mul_right _ hlt
              rw [Nat.mul_comm stride size]
              have h3 : (i0 + 1) * stride = i0 * stride + stride := by
                rw [Nat.add_mul]; simp
              omega
            · intro j hj hoff
              cases hj with
              | @cons _ _ j0 _ js hjlt hjrest =>
                obtain ⟨hjbound, _⟩ := ih stride js hc hjrest
                simp only [offset] at hoff
                have := mixed_radix (s := stride) (x := offset ds is) (y := offset ds js)
                  (a := i0) (b := j0) hbound hjbound (by omega)
                obtain ⟨h4, h5⟩ := this
                rw [h5, hinj js hjrest h4]
          · simp [h2] at hp

/-! ### Sorted "steps over" case, on lists of quadruples -/

/-- `(stride, size, a, b)`: one dimension together with the two indices compared. -/
structure Quad where
  stride : Nat
  size : Nat
  a : Nat
  b : Nat

def Quad.key (q : Quad) : Nat × Nat := (q.stride, q.size)

def sumA (Q : List Quad) : Nat := (Q.map (fun q => q.a * q.stride)).sum
def sumB (Q : List Quad) : Nat := (Q.map (fun q => q.b * q.stride)).sum

theorem stepsOver_inj : ∀ (Q : List Quad) (m x y : Nat),
    (stepsOver m (Q.map Quad.key)).isSome → x ≤ m → y ≤ m →
    (∀ q ∈ Q, q.a < q.size ∧ q.b < q.size) →
    x + sumA Q = y + sumB Q → x = y ∧ ∀ q ∈ Q, q.a = q.b := by
  intro Q
  induction Q with
  | nil =>
    intro m x y _ _ _ _ h
    simp [sumA, sumB] at h
    exact ⟨h, by simp⟩
  | cons q Q ih =>
    intro m x y hs hx hy hv h
    simp only [List.map_cons, Quad.key, stepsOver] at hs
    by_cases hle : q.stride ≤ m
    · simp [hle] at hs
    · simp only [hle, if_false] at hs
      have hq := hv q (List.mem_cons_self)
      have hva : q.a * q.stride ≤ (q.size - 1) * q.stride :=
        Nat.mul_le_mul_right _ (by omega)
      have hvb : q.b * q.stride ≤ (q.size - 1) * q.stride :=
        Nat.mul_le_mul_right _ (by omega)
      simp only [sumA, sumB, List.map_cons, List.sum_cons] at h
      have := ih (m + (q.size - 1) * q.stride) (x + q.a * q.stride) (y + q.b * q.stride)
        (by simpa [Quad.key] using hs) (by omega) (by omega)
        (fun q' hq' => hv q' (List.mem_cons_of_mem _ hq'))
        (by simp only [sumA, sumB]; omega)
      obtain ⟨h1, h2⟩ := this
      have := mixed_radix (s := q.stride) (x := x) (y := y) (a := q.a) (b := q.b)
        (by omega) (by omega) h1
      refine ⟨this.1, ?_⟩
      intro q' hq'
      rcases List.mem_cons.mp hq' with rfl | hq'
      · exact this.2
      · exact h2 q' hq'

theorem sumA_perm {Q Q' : List Quad} (h : Q.Perm Q') : sumA Q = sumA Q' :=
  (h.map _).sum_nat

theorem sumB_perm {Q Q' : List Quad} (h : Q.Perm Q') : sumB Q = sumB Q' :=
  (h.map _).sum_nat

/-- Build the quadruple list from two valid indices. -/
def mkQuads : List (Nat × Nat) → List Nat → List Nat → List Quad
  | (size, stride) :: ds, i :: is, j :: js => ⟨stride, size, i, j⟩ :: mkQuads ds is js
  | _, _, _ => []

theorem mkQuads_spec : ∀ (dims : List (Nat × Nat)) (i j : List Nat),
    ValidIdx dims i → ValidIdx dims j →
    (mkQuads dims i j).map (fun q => (q.size, q.stride)) = dims ∧
    sumA (mkQuads dims i j) = offset dims i ∧
    sumB (mkQuads dims i j) = offset dims j ∧
    (∀ q ∈ mkQuads dims i j, q.a < q.size ∧ q.b < q.size) ∧
    ((∀ q ∈ mkQuads dims i j, q.a = q.b) → i = j) := by
  intro dims
  induction dims with
  | nil =>
    intro i j hi hj
    cases hi; cases hj
    simp [mkQuads, sumA, sumB, offset]
  | cons d ds ih =>
    intro i j hi hj
    cases hi with
    | @cons size stride i0 _ is hlt hrest =>
      cases hj with
      | @cons _ _ j0 _ js hjlt hjrest =>
        obtain ⟨h1, h2, h3, h4, h5⟩ := ih is js hrest hjrest
        refine ⟨by simp [mkQuads, h1], ?_, ?_, ?_, ?_⟩
        · simp only [sumA] at h2; simp [mkQuads, sumA, offset, h2]
        · simp only [sumB] at h3; simp [mkQuads, sumB, offset, h3]
        · intro q hq
          simp only [mkQuads, List.mem_cons] at hq
          rcases hq with rfl | hq
          · exact ⟨hlt, hjlt⟩
          · exact h4 q hq
        · intro hall
          have h0 : i0 = j0 := hall ⟨stride, size, i0, j0⟩ (by simp [mkQuads])
          have := h5 (fun q hq => hall q (by simp [mkQuads, hq]))
          rw [h0, this]

theorem sum_filter_size (Q : List Quad) (hv : ∀ q ∈ Q, q.a < q.size ∧ q.b < q.size) :
    sumA (Q.filter (fun q => q.size != 1)) = sumA Q ∧
    sumB (Q.filter (fun q => q.size != 1)) = sumB Q := by
  induction Q with
  | nil => simp
  | cons q Q ih =>
    have hq := hv q List.mem_cons_self
    obtain ⟨ihA, ihB⟩ := ih (fun q' hq' => hv q' (List.mem_cons_of_mem _ hq'))
    simp only [sumA, sumB] at ihA ihB ⊢
    by_cases h1 : q.size = 1
    · have ha : q.a = 0 := by omega
      have hb : q.b = 0 := by omega
      have hf : (q.size != 1) = false := by simp [h1]
      simp [hf, ha, hb, ihA, ihB]
    · have hf : (q.size != 1) = true := by simp [h1]
      simp [hf, ihA, ihB]

end RtenVerif.Overlap
