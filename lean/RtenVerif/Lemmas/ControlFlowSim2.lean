import RtenVerif.Lemmas.ControlFlowSim1

/-!
# Simulation invariant for `runPlan = evalG` (C24.T1) and its preservation by one step
-/
namespace RtenVerif.ControlFlow

variable {P V : Type}

/-! ## static well-formedness -/

mutual
/-- Every name defined anywhere inside the graph (all nesting levels). -/
def Graph.allDefs : Graph P V → List Nat
  | .mk i c ops o => Graph.defs (.mk i c ops o) ++ allDefsOps ops
def allDefsOps : List (Op P V) → List Nat
  | [] => []
  | op :: rest => Op.allDefs op ++ allDefsOps rest
def Op.allDefs : Op P V → List Nat
  | .prim _ _ _ => []
  | .ifOp _ t e _ => Graph.allDefs t ++ Graph.allDefs e
  | .loop _ _ _ b _ => Graph.allDefs b
end

def disjointB (a b : List Nat) : Bool := a.all (fun x => !b.contains x)

/-- Well-formed programs of nesting depth `< fuel`: distinct local names, distinct outputs that the
graph defines, no name defined inside a subgraph is also defined by the enclosing graph
(ONNX: no shadowing). -/
def wfG : Nat → Graph P V → Bool
  | 0, _ => false
  | f + 1, g =>
    decide g.defs.Nodup && decide g.outputs.Nodup && g.outputs.all (fun n => g.defs.contains n) &&
    g.ops.all (fun op =>
      (match op with
       | .prim _ _ _ => true
       | .ifOp _ t e _ =>
         wfG f t && wfG f e && disjointB t.allDefs g.defs && disjointB e.allDefs g.defs
       | .loop _ _ _ b _ => wfG f b && disjointB b.allDefs g.defs))

/-- Names that the remaining steps (or the outputs) may still look up. -/
def Needed (g : Graph P V) (rest : List (Op P V)) (n : Nat) : Prop :=
  n ∈ rest.flatMap (fun op => op.directInputs ++ op.capNames) ∨ n ∈ g.outputs

theorem needed_tail (g : Graph P V) (op : Op P V) (rest : List (Op P V)) (n : Nat)
    (h : Needed g rest n) : Needed g (op :: rest) n := by
  rcases h with h | h
  · left; simp only [List.flatMap_cons, List.mem_append]; right; exact h
  · right; exact h

theorem needed_head (g : Graph P V) (op : Op P V) (rest : List (Op P V)) (n : Nat)
    (h : n ∈ op.directInputs ∨ n ∈ op.capNames) : Needed g (op :: rest) n := by
  left; simp only [List.flatMap_cons, List.mem_append]; left; exact h

/-- For a name the graph knows, "needed by `op`" and "dependency of `op`" coincide. -/
theorem mem_deps_of_needed (g : Graph P V) (op : Op P V) (n : Nat) (hn : n ∈ g.defs ∨ n ∈ g.caps)
    (h : n ∈ op.directInputs ∨ n ∈ op.capNames) : n ∈ deps g op := by
  unfold deps
  by_cases hi : n ∈ op.directInputs
  · exact List.mem_append_left _ hi
  · rcases h with h | h
    · exact absurd h hi
    · apply List.mem_append_right
      rw [List.mem_filter]
      refine ⟨h, ?_⟩
      rcases hn with hn | hn <;> simp [hn, hi]

theorem valueDefs_sub_defs (g : Graph P V) (n : Nat) (h : n ∈ g.valueDefs) : n ∈ g.defs := by
  simp only [Graph.valueDefs, Graph.defs, List.mem_append] at h ⊢
  rcases h with h | h
  · left; left; exact h
  · right; exact h

theorem isValueNode_of_valueDefs (g : Graph P V) (n : Nat) (h : n ∈ g.valueDefs) :
    isValueNode g n = true := by simp [isValueNode, h]

/-- A value node whose count dropped to zero is not needed any more. -/
theorem not_needed_of_rc_zero' (g : Graph P V) (rest : List (Op P V)) (st : St V)
    (hinv : RcInv g rest st) (n : Nat) (hval : isValueNode g n = true)
    (hres : n ∈ g.defs ∨ n ∈ g.caps) (hz : st.rc n = 0) :
    ¬ Needed g rest n := by
  have h := hinv n hval
  rw [hz] at h
  simp [remaining, hval] at h
  intro hn
  rcases hn with hn | hn
  · obtain ⟨op, hop, hmem⟩ := List.mem_flatMap.mp hn
    have : n ∈ rest.flatMap (deps g) :=
      List.mem_flatMap.mpr ⟨op, hop, mem_deps_of_needed g op n hres (List.mem_append.mp hmem)⟩
    have h1 : (rest.flatMap (deps g)).count n = 0 := by omega
    exact (List.count_eq_zero.mp h1) this
  · have h2 : g.outputs.count n = 0 := by omega
    exact (List.count_eq_zero.mp h2) hn

theorem not_needed_of_rc_zero (g : Graph P V) (rest : List (Op P V)) (st : St V)
    (hinv : RcInv g rest st) (n : Nat) (hv : n ∈ g.valueDefs) (hz : st.rc n = 0) :
    ¬ Needed g rest n :=
  not_needed_of_rc_zero' g rest st hinv n (isValueNode_of_valueDefs g n hv)
    (Or.inl (valueDefs_sub_defs g n hv)) hz

theorem rcInv_of_rc_eq (g : Graph P V) (op : Op P V) (rest : List (Op P V)) (st st' : St V)
    (hinv : RcInv g (op :: rest) st) (h : ∀ n, st'.rc n = st.rc n - (deps g op).count n) :
    RcInv g rest st' := by
  intro n hn
  rw [h n, hinv n hn]
  simp [remaining, hn, List.flatMap_cons, List.count_append]
  omega

/-! ## the invariant -/

/-- Facts that stay fixed during one `run_plan` invocation. -/
structure Ctx (g : Graph P V) (views : Env V) (σp : Env V) : Prop where
  nodup : g.defs.Nodup
  vkeys : ∀ n, look views n ≠ none → n ∈ g.inputs ++ g.consts.map (·.1)
  shadowσ : ∀ n, n ∈ g.allDefs → look σp n = none

/-- Every by-value capture of the innermost environment is stored under a node its graph defines
and is not also captured by reference (so `get_input` returns it). -/
def headOK : List (Frame V) → Prop
  | [] => True
  | f :: _ => ∀ n, look f.byVal n ≠ none → f.locals.contains n = true ∧ look f.tempRef n = none

/-- The by-value map of the innermost environment. -/
def headByVal : List (Frame V) → Env V
  | [] => []
  | f :: _ => f.byVal

structure Inv (g : Graph P V) (views : Env V) (σp : Env V)
    (rest : List (Op P V)) (st : St V) (b : Env V) : Prop where
  shadowE : ∀ n, n ∈ g.allDefs → getInput st.env n = none
  headok : headOK st.env
  /-- a value that was moved by value into this graph's environment is named at most once among
  the graph's (transitive) capture names -/
  byvalonce : ∀ n, look (headByVal st.env) n ≠ none → g.capNames.count n ≤ 1
  rc : RcInv g rest st
  keys : ∀ n, look st.temp n ≠ none → n ∈ g.valueDefs
  bkeys : ∀ n, look b n ≠ none → n ∈ g.defs
  disj : ∀ n, look views n ≠ none → look st.temp n = none
  agree : ∀ n, Needed g rest n → opLookup views st n = look (b ++ σp) n

theorem defs_sub_allDefs (g : Graph P V) (n : Nat) (h : n ∈ g.defs) : n ∈ g.allDefs := by
  cases g with
  | mk i c ops o => simp only [Graph.allDefs, List.mem_append]; left; exact h

theorem outs_valueDefs (g : Graph P V) (op : Op P V) (hop : op ∈ g.ops) (n : Nat)
    (h : n ∈ op.outs) : n ∈ g.valueDefs := by
  simp only [Graph.valueDefs, List.mem_append]
  right
  exact List.mem_flatMap.mpr ⟨op, hop, h⟩

theorem outs_not_views (g : Graph P V) (views : Env V) (σp : Env V)
    (ctx : Ctx g views σp) (op : Op P V) (hop : op ∈ g.ops) (n : Nat) (h : n ∈ op.outs) :
    look views n = none := by
  cases hv : look views n with
  | none => rfl
  | some v =>
    exfalso
    have h1 := ctx.vkeys n (by simp [hv])
    have h2 : n ∈ g.ops.flatMap Op.outs := List.mem_flatMap.mpr ⟨op, hop, h⟩
    have hnd := ctx.nodup
    unfold Graph.defs at hnd
    exact (List.nodup_append.mp hnd).2.2 n h1 n h2 rfl

/-- Common tail of every step: store the outputs, release what is no longer needed. `st1` is the
state after by-value extraction (or `st` itself). -/
theorem inv_finish (g : Graph P V) (views : Env V) (σp : Env V)
    (ctx : Ctx g views σp) (op : Op P V) (hop : op ∈ g.ops) (rest : List (Op P V))
    (st st1 : St V) (b : Env V) (r : List V)
    (inv : Inv g views σp (op :: rest) st b)
    (henv1 : ∀ m, getInput st1.env m = getInput st.env m ∨
      (st.rc m = 1 ∧ m ∈ deps g op ∧ isValueNode g m = true ∧ (m ∈ g.defs ∨ m ∈ g.caps)))
    (hsh1 : ∀ m, m ∈ g.allDefs → getInput st1.env m = none) (hhd1 : headOK st1.env)
    (hbo1 : ∀ n, look (headByVal st1.env) n ≠ none → g.capNames.count n ≤ 1)
    (hrc : st1.rc = st.rc)
    (heff : ∀ m, look st1.temp m = look st.temp m ∨
      (look st1.temp m = none ∧ st.rc m = 1 ∧ m ∈ deps g op)) :
    Inv g views σp rest
      (decDeps { st1 with temp := op.outs.zip r ++ st1.temp } (deps g op)) (op.outs.zip r ++ b) := by
  generalize hst' : decDeps { st1 with temp := op.outs.zip r ++ st1.temp } (deps g op) = st'
  have hrc' : ∀ n, st'.rc n = st.rc n - (deps g op).count n := by
    intro n; rw [← hst', decDeps_rc]; simp [hrc]
  have hrcinv : RcInv g rest st' := rcInv_of_rc_eq g op rest st st' inv.rc hrc'
  have henv' : st'.env = st1.env := by rw [← hst', decDeps_env]
  have heff' : ∀ m, look st'.temp m = look (op.outs.zip r ++ st1.temp) m ∨
      (look st'.temp m = none ∧ st'.rc m = 0) := by
    intro m
    have := decDeps_temp_effect (deps g op) { st1 with temp := op.outs.zip r ++ st1.temp } m
    rw [hst'] at this
    exact this
  -- the new `temp_values` on names that are still needed
  have hideal : ∀ n, look (op.outs.zip r ++ st.temp) n ≠ none → n ∈ g.valueDefs := by
    intro n hn
    rw [look_append] at hn
    cases hz : look (op.outs.zip r) n with
    | some v => exact outs_valueDefs g op hop n (look_zip_key op.outs r n (by simp [hz]))
    | none => rw [hz] at hn; exact inv.keys n hn
  have htemp : ∀ n, Needed g rest n → look st'.temp n = look (op.outs.zip r ++ st.temp) n := by
    intro n hn
    have hdead : ∀ (_ : look (op.outs.zip r ++ st.temp) n ≠ none), st'.rc n ≠ 0 := by
      intro hne hz
      exact not_needed_of_rc_zero g rest st' hrcinv n (hideal n hne) hz hn
    rcases heff' n with h | ⟨h1, h2⟩
    · rw [h, look_append, look_append]
      cases hz : look (op.outs.zip r) n with
      | some v => rfl
      | none =>
        simp only []
        rcases heff n with h' | ⟨h1', h2', h3'⟩
        · exact h'
        · cases hs : look st.temp n with
          | none => exact h1'
          | some v =>
            exfalso
            apply hdead (by rw [look_append, hz]; simp [hs])
            rw [hrc' n, h2']
            have : 0 < (deps g op).count n := List.count_pos_iff.mpr h3'
            omega
    · cases hs : look (op.outs.zip r ++ st.temp) n with
      | none => exact h1
      | some v => exact absurd h2 (hdead (by simp [hs]))
  refine ⟨by rw [henv']; exact hsh1, by rw [henv']; exact hhd1, by rw [henv']; exact hbo1,
    hrcinv, ?_, ?_, ?_, ?_⟩
  · intro n hn
    rcases heff' n with h | ⟨h1, _⟩
    · rw [h, look_append] at hn
      cases hz : look (op.outs.zip r) n with
      | some v => exact outs_valueDefs g op hop n (look_zip_key op.outs r n (by simp [hz]))
      | none =>
        rw [hz] at hn
        simp only [] at hn
        rcases heff n with h' | ⟨h1', _⟩
        · exact inv.keys n (by rw [← h']; exact hn)
        · exact absurd h1' hn
    · exact absurd h1 hn
  · intro n hn
    rw [look_append] at hn
    cases hz : look (op.outs.zip r) n with
    | some v =>
      exact valueDefs_sub_defs g n (outs_valueDefs g op hop n (look_zip_key op.outs r n (by simp [hz])))
    | none => rw [hz] at hn; exact inv.bkeys n hn
  · intro n hn
    rcases heff' n with h | ⟨h1, _⟩
    · rw [h, look_append]
      cases hz : look (op.outs.zip r) n with
      | some v =>
        exfalso
        have := outs_not_views g views σp ctx op hop n (look_zip_key op.outs r n (by simp [hz]))
        exact hn this
      | none =>
        simp only []
        rcases heff n with h' | ⟨h1', _⟩
        · rw [h']; exact inv.disj n hn
        · exact h1'
    · exact h1
  · intro n hn
    have ht := htemp n hn
    have hagree := inv.agree n (needed_tail g op rest n hn)
    have hge : getInput st'.env n = getInput st.env n := by
      rw [henv']
      rcases henv1 n with h | ⟨h1, h2, h3, h4⟩
      · exact h
      · exfalso
        refine not_needed_of_rc_zero' g rest st' hrcinv n h3 h4 ?_ hn
        rw [hrc' n, h1]
        have : 0 < (deps g op).count n := List.count_pos_iff.mpr h2
        omega
    unfold opLookup at hagree ⊢
    rw [ht, hge, List.append_assoc, look_append (op.outs.zip r) (b ++ σp)]
    rw [look_append (op.outs.zip r) st.temp]
    cases hz : look (op.outs.zip r) n with
    | some v =>
      have := outs_not_views g views σp ctx op hop n (look_zip_key op.outs r n (by simp [hz]))
      simp [this]
    | none =>
      simp only []
      exact hagree

end RtenVerif.ControlFlow
