import RtenVerif.Lemmas.OnnxRefReduce
import RtenVerif.Lemmas.OnnxRefSlice
import RtenVerif.Model.OnnxRefRun
/-! Pooling reference: AveragePool with a 1×…×1 kernel, stride 1 and no padding is the identity. -/
namespace RtenVerif.OnnxRef

theorem mapM_ok {α β : Type} (f : α → R β) (g : α → β) : ∀ (l : List α),
    (∀ a ∈ l, f a = .ok (g a)) → l.mapM f = .ok (l.map g)
  | [], _ => rfl
  | a :: l, h => by
    have h1 := h a (by simp)
    have h2 := mapM_ok f g l (fun b hb => h b (by simp [hb]))
    simp only [List.mapM_cons, h1, h2, List.map_cons]
    rfl

theorem poolAxis_one (d : Nat) (ceil : Bool) (hd : d ≥ 1) :
    poolAxis d 1 1 1 0 0 ceil "NOTSET" = .ok (d, 0, 0) := by
  unfold poolAxis
  have h1 : ("NOTSET" == "SAME_UPPER") = false := by decide
  have h2 : ("NOTSET" == "SAME_LOWER") = false := by decide
  have h3 : ("NOTSET" == "VALID") = false := by decide
  have h4 : ("NOTSET" == "NOTSET") = true := by decide
  have hlt : ¬ (d + 0 + 0 < 1) := by omega
  have hw : (d + 0 + 0 - 1 + 1 - 1) / 1 + 1 = d := by
    rw [Nat.div_one]; omega
  have hw2 : (d + 0 + 0 - 1) / 1 + 1 = d := by
    rw [Nat.div_one]; omega
  have hd0 : ¬ d = 0 := by omega
  have hd1 : d - 1 + 1 = d := by omega
  have hd2 : ¬ d ≤ d - 1 := by omega
  cases ceil <;>
    simp [guardR, h1, h2, h3, bind, Except.bind, pure, Except.pure, hd0, hd1, hd2]

theorem getN_drop (l : List Nat) (k a : Nat) : getN (l.drop k) a = getN l (k + a) := by
  simp [getN, List.getD_eq_getElem?_getD, List.getElem?_drop]

theorem getN_replicate (n v a : Nat) (h : a < n) : getN (List.replicate n v) a = v := by
  simp [getN, List.getD_eq_getElem?_getD, h]

/-- The single window of a 1×…×1 kernel at output position `idx` holds exactly `x[idx]`. -/
theorem poolWindow_one (x : Tensor) (n : Nat) (idx : List Nat) (hr : x.shape.length = n + 2)
    (hv : validIdx x.shape idx = true) :
    poolWindow x (idx.take 2) (idx.drop 2) (List.replicate n 1) (List.replicate n 1) (List.replicate n 1)
      ((List.range n).map (fun _ => 0)) ((List.range n).map (fun _ => 0)) = [(some (x.get idx), true)] := by
  obtain ⟨hil, hib⟩ := (validIdx_iff _ _).mp hv
  unfold poolWindow
  simp only [List.length_replicate, allIdx_ones, List.map_cons, List.map_nil]
  have hpos : (List.range n).map (fun a =>
      ((getN (idx.drop 2) a * getN (List.replicate n 1) a + getN (List.replicate n 0) a * getN (List.replicate n 1) a : Nat) : Int)
        - ((getN ((List.range n).map (fun _ => 0)) a : Nat) : Int))
      = (List.range n).map (fun a => (getN idx (2 + a) : Int)) := by
    apply List.map_congr_left
    intro a ha
    have ha' : a < n := List.mem_range.mp ha
    rw [getN_replicate _ _ _ ha', getN_replicate _ _ _ ha', getN_map_range _ _ _ ha', getN_drop]
    simp
  rw [hpos]
  have hin : ∀ a, a < n → getN idx (2 + a) < getN x.shape (2 + a) := fun a ha => hib _ (by omega)
  have hinside : (List.range n).all (fun a =>
      decide (0 ≤ getI ((List.range n).map (fun a => (getN idx (2 + a) : Int))) a) &&
      decide (getI ((List.range n).map (fun a => (getN idx (2 + a) : Int))) a < (getN (x.shape.drop 2) a : Int))) = true := by
    rw [List.all_eq_true]
    intro a ha
    have ha' : a < n := List.mem_range.mp ha
    rw [getI_map_range _ _ _ ha', getN_drop]
    have := hin a ha'
    simp; omega
  have hpad : (List.range n).all (fun a =>
      decide (getI ((List.range n).map (fun a => (getN idx (2 + a) : Int))) a <
        ((getN (x.shape.drop 2) a + getN ((List.range n).map (fun _ => 0)) a : Nat) : Int))) = true := by
    rw [List.all_eq_true]
    intro a ha
    have ha' : a < n := List.mem_range.mp ha
    rw [getI_map_range _ _ _ ha', getN_drop, getN_map_range _ _ _ ha']
    have := hin a ha'
    simp; omega
  simp only [hinside, hpad, if_true]
  congr 3
  rw [List.map_map]
  have : (List.range n).map (Int.toNat ∘ fun a => (getN idx (2 + a) : Int)) = idx.drop 2 := by
    apply list_ext_getN _ _ (by simp [hil, hr])
    intro a ha
    have ha' : a < n := by simpa using ha
    rw [getN_map_range _ _ _ ha', getN_drop]; simp
  rw [this, List.take_append_drop]

/-- AP1. AveragePool (and MaxPool-style geometry) with kernel 1, stride 1, dilation 1 and no padding is
the identity, for either rounding mode and either `count_include_pad`. -/
theorem avgPool_identity (x : Tensor) (n : Nat) (ceil cip : Bool) (hn : n ≥ 1)
    (hr : x.shape.length = n + 2) (hwf : x.data.length = prod x.shape)
    (hpos : ∀ a, a < n → getN (x.shape.drop 2) a ≥ 1) :
    pool "avg" x (List.replicate n 1) (List.replicate n 1) (List.replicate n 1) (List.replicate (2 * n) 0)
      ceil "NOTSET" cip 1 = .ok x := by
  unfold pool
  have hg1 : (x.rank == n + 2 && decide (n ≥ 1)) = true := by simp [Tensor.rank, hr, hn]
  have hgeo : (List.range n).mapM (fun a => poolAxis (getN (x.shape.drop 2) a) (getN (List.replicate n 1) a)
      (getN (List.replicate n 1) a) (getN (List.replicate n 1) a) (getN (List.replicate (2 * n) 0) a)
      (getN (List.replicate (2 * n) 0) (n + a)) ceil "NOTSET")
      = .ok ((List.range n).map (fun a => (getN (x.shape.drop 2) a, 0, 0))) := by
    apply mapM_ok
    intro a ha
    have ha' : a < n := List.mem_range.mp ha
    rw [getN_replicate _ _ _ ha', getN_replicate _ _ _ (by omega), getN_replicate _ _ _ (by omega)]
    exact poolAxis_one _ ceil (hpos a ha')
  have hsp : ((List.range n).map (fun a => (getN (x.shape.drop 2) a, 0, 0))).map (·.1) = x.shape.drop 2 := by
    rw [List.map_map]
    have : n = (x.shape.drop 2).length := by simp [hr]
    conv => lhs; rw [this]
    exact map_range_getN _
  have hpb : ((List.range n).map (fun a => (getN (x.shape.drop 2) a, 0, 0))).map (·.2.1)
      = (List.range n).map (fun _ => 0) := by rw [List.map_map]; rfl
  have hpe : ((List.range n).map (fun a => (getN (x.shape.drop 2) a, 0, 0))).map (·.2.2)
      = (List.range n).map (fun _ => 0) := by rw [List.map_map]; rfl
  simp only [List.length_replicate, hg1, guardR, if_true, beq_self_eq_true, Bool.and_self, bind, Except.bind,
    pure, Except.pure, hgeo, hsp, hpb, hpe, List.take_append_drop]
  have hcells : (allIdx x.shape).map (fun idx =>
      let win := poolWindow x (idx.take 2) (idx.drop 2) (List.replicate n 1) (List.replicate n 1)
        (List.replicate n 1) ((List.range n).map (fun _ => 0)) ((List.range n).map (fun _ => 0))
      let vals := win.filterMap (·.1)
      if ("avg" == "max") = true then maxL vals
      else
        let cnt : Int := if cip = true then ((win.filter (·.2)).length : Int) else (vals.length : Int)
        if (cip && win.any (fun p => !p.2)) = true then none
        else if (cnt == 0) = true then none
        else if ((sumI vals * 1) % cnt != 0) = true then none
        else some (sumI vals * 1 / cnt))
      = (allIdx x.shape).map (fun idx => some (x.get idx)) := by
    apply List.map_congr_left
    intro idx hm
    have hv := (mem_allIdx _ _).mp hm
    have havg : ("avg" == "max") = false := by decide
    simp only [poolWindow_one x n idx hr hv, havg]
    cases cip <;> simp [sumI]
  rw [hcells]
  have hany : ((allIdx x.shape).map (fun idx => some (x.get idx))).any Option.isNone = false := by
    simp
  simp only [hany, Bool.false_eq_true, if_false, List.map_map]
  congr 1
  have := build_get x hwf
  simp only [build] at this
  cases x with
  | mk s d =>
    simp only [Tensor.mk.injEq, true_and] at this ⊢
    first | exact this | exact ⟨trivial, this⟩ | simpa using this

/-- GP1. `Global{Max,Average}Pool` is the `{Max,Average}Pool` computation whose kernel is the whole spatial
extent of the input, with unit strides and dilations, no padding, floor rounding. -/
theorem globalPool_is_pool (mode : String) (a : Attrs) (x : Tensor) (h3 : x.rank ≥ 3) :
    globalPoolOp mode a [some x] =
      (pool mode x (x.shape.drop 2) (List.replicate (x.shape.drop 2).length 1)
        (List.replicate (x.shape.drop 2).length 1) (List.replicate (2 * (x.shape.drop 2).length) 0)
        false "NOTSET" false (a.int "scale" 1)).map (fun r => [r]) := by
  unfold globalPoolOp
  have hg : guardR (decide (x.rank ≥ 3)) = .ok () := by simp [guardR, h3]; rfl
  simp only [inp, List.getD_cons_zero, bind, Except.bind, hg, pure, Except.pure]
  cases pool mode x (x.shape.drop 2) (List.replicate (x.shape.drop 2).length 1)
        (List.replicate (x.shape.drop 2).length 1) (List.replicate (2 * (x.shape.drop 2).length) 0)
        false "NOTSET" false (a.int "scale" 1) <;> rfl

end RtenVerif.OnnxRef
