import RtenVerif.Lemmas.TensorBoundsViews
import RtenVerif.Lemmas.TensorBoundsMachine

/-! C06: `SliceRange::resolve` + the `step == 1` fast path of `slice_layout`. -/
namespace RtenVerif.TensorBounds
open RtenVerif.Overlap

/-- What `slice_layout` relies on: a picked position is in range, a resolved range has
`start ≤ end ≤ size`. -/
def RItemOk (size : Nat) : RItem → Prop
  | .pick p => p < size
  | .span s e => s ≤ e ∧ e ≤ size
  | .keep => True

inductive ItemsOk : List (Nat × Nat) → List RItem → Prop
  | nil (ds : List (Nat × Nat)) : ItemsOk ds []
  | cons {size stride : Nat} {ds : List (Nat × Nat)} {it : RItem} {its : List RItem} :
      RItemOk size it → ItemsOk ds its → ItemsOk ((size, stride) :: ds) (it :: its)

/-- The current `resolve` (with `end.max(start)`) only produces ranges with
`start ≤ end ≤ size`. -/
theorem resolve1_ok {start : Int} {stop : Option Int} {n s e : Nat}
    (h : resolve1 true start stop n = some (s, e)) : s ≤ e ∧ e ≤ n := by
  cases stop with
  | none =>
    simp only [resolve1] at h
    split at h
    · next hc =>
      injection h with h
      injection h with h1 h2
      subst h1 h2
      rw [if_pos True.intro]
      omega
    · cases h
  | some x =>
    simp only [resolve1] at h
    split at h
    · next hc =>
      injection h with h
      injection h with h1 h2
      subst h1 h2
      rw [if_pos True.intro]
      omega
    · cases h

theorem resolveItem_ok {size : Nat} {it : SItem} {r : RItem}
    (h : resolveItem true size it = some r) : RItemOk size r := by
  cases it with
  | index i =>
    by_cases hi : i ≥ 0
    · simp only [resolveItem, hi, if_true] at h
      split at h
      · cases h
      · next hc =>
        injection h with h
        subst h
        simp only [RItemOk]
        omega
    · simp only [resolveItem, hi, if_false] at h
      split at h
      · cases h
      · next hc =>
        injection h with h
        subst h
        simp only [RItemOk]
        omega
  | range start stop =>
    simp only [resolveItem] at h
    split at h
    · cases h
    · next s e hr =>
      cases h
      exact resolve1_ok hr

theorem resolveItems_ok : ∀ (dims : List (Nat × Nat)) (items : List SItem) (rs : List RItem),
    resolveItems true dims items = some rs → ItemsOk dims rs := by
  intro dims
  induction dims with
  | nil =>
    intro items rs h
    cases items with
    | nil => simp [resolveItems] at h; subst h; exact .nil _
    | cons it its => simp [resolveItems] at h
  | cons d ds ih =>
    obtain ⟨size, stride⟩ := d
    intro items rs h
    cases items with
    | nil => simp [resolveItems] at h; subst h; exact .nil _
    | cons it its =>
      simp only [resolveItems] at h
      split at h
      · next r rs' h1 h2 =>
        cases h
        exact .cons (resolveItem_ok h1) (ih its rs' h2)
      · cases h

/-- Where an index of the sliced view lives in the parent. -/
def embedIdx : List RItem → List Nat → List Nat
  | [], j => j
  | .pick p :: its, j => p :: embedIdx its j
  | .span s _ :: its, j0 :: js => (s + j0) :: embedIdx its js
  | .span _ _ :: _, [] => []
  | .keep :: its, j0 :: js => j0 :: embedIdx its js
  | .keep :: _, [] => []

theorem sliceLoopR_nil_items (ds : List (Nat × Nat)) : sliceLoopR ds [] = (0, ds) := by
  cases ds <;> rfl

/-- Every index of the sliced view is an index of the parent, `offset` elements further on. -/
theorem slice_embed : ∀ (dims : List (Nat × Nat)) (items : List RItem), ItemsOk dims items →
    ∀ j, ValidIdx (sliceLoopR dims items).2 j →
      ValidIdx dims (embedIdx items j) ∧
      offset dims (embedIdx items j) =
        (sliceLoopR dims items).1 + offset (sliceLoopR dims items).2 j := by
  intro dims items hok
  induction hok with
  | nil ds =>
    intro j hj
    rw [sliceLoopR_nil_items] at hj ⊢
    exact ⟨hj, (Nat.zero_add _).symm⟩
  | @cons size stride ds it its hit _ ih =>
    intro j hj
    cases it with
    | pick p =>
      simp only [sliceLoopR] at hj ⊢
      obtain ⟨v, o⟩ := ih j hj
      simp only [RItemOk] at hit
      refine ⟨.cons hit v, ?_⟩
      simp only [embedIdx, offset, o]
      rw [Nat.mul_comm stride p]
      omega
    | span s e =>
      simp only [sliceLoopR] at hj ⊢
      simp only [RItemOk] at hit
      cases hj with
      | @cons _ _ j0 _ js h1 h2 =>
        obtain ⟨v, o⟩ := ih js h2
        refine ⟨.cons (by omega) v, ?_⟩
        simp only [embedIdx, offset, o]
        rw [Nat.add_mul, Nat.mul_comm stride s]
        omega
    | keep =>
      simp only [sliceLoopR] at hj ⊢
      cases hj with
      | @cons _ _ j0 _ js h1 h2 =>
        obtain ⟨v, o⟩ := ih js h2
        refine ⟨.cons h1 v, ?_⟩
        simp only [embedIdx, offset, o]
        omega

theorem embedIdx_inj : ∀ (dims : List (Nat × Nat)) (items : List RItem), ItemsOk dims items →
    ∀ j j', ValidIdx (sliceLoopR dims items).2 j → ValidIdx (sliceLoopR dims items).2 j' →
      embedIdx items j = embedIdx items j' → j = j' := by
  intro dims items hok
  induction hok with
  | nil ds => intro j j' _ _ h; simpa [embedIdx] using h
  | @cons size stride ds it its hit _ ih =>
    intro j j' hj hj' h
    cases it with
    | pick p =>
      simp only [sliceLoopR] at hj hj'
      simp only [embedIdx, List.cons.injEq, true_and] at h
      exact ih j j' hj hj' h
    | span s e =>
      simp only [sliceLoopR] at hj hj'
      cases hj with
      | @cons _ _ j0 _ js h1 h2 =>
        cases hj' with
        | @cons _ _ j0' _ js' h1' h2' =>
          simp only [embedIdx, List.cons.injEq] at h
          have := ih js js' h2 h2' h.2
          rw [this]
          have : j0 = j0' := by omega
          rw [this]
    | keep =>
      simp only [sliceLoopR] at hj hj'
      cases hj with
      | @cons _ _ j0 _ js h1 h2 =>
        cases hj' with
        | @cons _ _ j0' _ js' h1' h2' =>
          simp only [embedIdx, List.cons.injEq] at h
          rw [h.1, ih js js' h2 h2' h.2]

/-- The last element of a non-empty slice is an element of the parent: the slice's offset
plus its largest offset does not exceed the parent's largest offset. -/
theorem slice_maxOffset_le : ∀ (dims : List (Nat × Nat)) (items : List RItem),
    ItemsOk dims items → hasZero (sliceLoopR dims items).2 = false →
    (sliceLoopR dims items).1 + maxOffset (sliceLoopR dims items).2 ≤ maxOffset dims := by
  intro dims items hok
  induction hok with
  | nil ds => intro _; rw [sliceLoopR_nil_items]; simp
  | @cons size stride ds it its hit _ ih =>
    intro hz
    cases it with
    | pick p =>
      simp only [sliceLoopR] at hz ⊢
      simp only [RItemOk] at hit
      have := ih hz
      have hp : stride * p ≤ (size - 1) * stride := by
        rw [Nat.mul_comm]; exact Nat.mul_le_mul_right _ (by omega)
      simp only [maxOffset]; omega
    | span s e =>
      simp only [sliceLoopR] at hz ⊢
      simp only [RItemOk] at hit
      simp only [hasZero, List.any_cons, Bool.or_eq_false_iff, beq_eq_false_iff_ne] at hz
      have := ih (by simpa [hasZero] using hz.2)
      have hp : stride * s + (e - s - 1) * stride ≤ (size - 1) * stride := by
        rw [Nat.mul_comm stride s, ← Nat.add_mul]
        exact Nat.mul_le_mul_right _ (by omega)
      simp only [maxOffset]; omega
    | keep =>
      simp only [sliceLoopR] at hz ⊢
      simp only [hasZero, List.any_cons, Bool.or_eq_false_iff, beq_eq_false_iff_ne] at hz
      have := ih (by simpa [hasZero] using hz.2)
      simp only [maxOffset]; omega

end RtenVerif.TensorBounds
