import RtenVerif.Lemmas.TensorBounds

/-! C06: embedding the index spaces of the two halves of `MutLayout::split` into the parent. -/
namespace RtenVerif.TensorBounds
open RtenVerif.Overlap

/-- Add `k` to component `axis` of an index vector. -/
def addAt : List Nat → Nat → Nat → List Nat
  | [], _, _ => []
  | i :: is, 0, k => (i + k) :: is
  | i :: is, a + 1, k => i :: addAt is a k

theorem embedL : ∀ (dims : List (Nat × Nat)) (axis mid : Nat) (i : List Nat),
    axis < dims.length → mid ≤ sizeAt dims axis → ValidIdx (setSize dims axis mid) i →
    ValidIdx dims i ∧ offset dims i = offset (setSize dims axis mid) i ∧ i.getD axis 0 < mid := by
  intro dims
  induction dims with
  | nil => intro axis mid i h; simp at h
  | cons d ds ih =>
    obtain ⟨size, stride⟩ := d
    intro axis mid i hlt hmid hv
    cases axis with
    | zero =>
      simp only [setSize] at hv
      simp only [sizeAt, List.getD_cons_zero] at hmid
      cases hv with
      | cons h1 h2 =>
        refine ⟨.cons (by omega) h2, ?_, ?_⟩
        · simp [offset, setSize]
        · simpa using h1
    | succ a =>
      simp only [setSize] at hv
      simp only [sizeAt, List.getD_cons_succ] at hmid
      simp only [List.length_cons, Nat.add_lt_add_iff_right] at hlt
      cases hv with
      | cons h1 h2 =>
        obtain ⟨v, o, g⟩ := ih a mid _ hlt hmid h2
        refine ⟨.cons h1 v, ?_, ?_⟩
        · simp only [offset, setSize, o]
        · simpa using g

theorem embedR : ∀ (dims : List (Nat × Nat)) (axis mid : Nat) (j : List Nat),
    axis < dims.length → mid ≤ sizeAt dims axis →
    ValidIdx (setSize dims axis (sizeAt dims axis - mid)) j →
    ValidIdx dims (addAt j axis mid) ∧
    offset dims (addAt j axis mid) =
      mid * strideAt dims axis + offset (setSize dims axis (sizeAt dims axis - mid)) j ∧
    mid ≤ (addAt j axis mid).getD axis 0 := by
  intro dims
  induction dims with
  | nil => intro axis mid j h; simp at h
  | cons d ds ih =>
    obtain ⟨size, stride⟩ := d
    intro axis mid j hlt hmid hv
    cases axis with
    | zero =>
      simp only [sizeAt, List.getD_cons_zero] at hmid hv
      simp only [setSize] at hv
      cases hv with
      | @cons _ _ j0 _ js h1 h2 =>
        refine ⟨.cons (by omega) h2, ?_, ?_⟩
        · simp only [addAt, offset, setSize, strideAt, sizeAt, List.getD_cons_zero, Nat.add_mul]
          omega
        · simp [addAt]
    | succ a =>
      simp only [sizeAt, List.getD_cons_succ] at hmid hv
      simp only [setSize] at hv
      simp only [List.length_cons, Nat.add_lt_add_iff_right] at hlt
      cases hv with
      | @cons _ _ j0 _ js h1 h2 =>
        obtain ⟨v, o, g⟩ := ih a mid _ hlt hmid h2
        refine ⟨.cons h1 v, ?_, ?_⟩
        · simp only [addAt, offset, setSize, strideAt, sizeAt, List.getD_cons_succ] at *
          rw [o]; omega
        · simpa [addAt] using g

theorem valid_len_pos {dims : List (Nat × Nat)} {idx : List Nat} (h : ValidIdx dims idx) :
    len dims ≠ 0 := by
  have hz := valid_hasZero h
  rw [hasZero_eq_anyZero] at hz
  unfold len
  rw [prod_of_noZero hz]
  have := prodNZ_pos (shapeOf dims)
  omega

end RtenVerif.TensorBounds
