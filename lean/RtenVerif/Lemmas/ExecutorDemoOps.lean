import RtenVerif.Lemmas.ExecutorRefine
/-!
# C02 — a value-dependent operator table satisfying `Contract`

`sumOps`: every operator returns one value, the sum of its present inputs, of the values its
subgraphs capture, and of its own node id (an `Add`-like commutative operator that *reads*
all of its operands).  `run_in_place` adds the taken values to the remaining inputs.  The
contract `run_in_place = run on the re-assembled list` holds for it because the taken
positions are distinct placeholders of the input list.
-/
namespace RtenVerif.Executor
open RtenVerif.Graph

/-- Sum of the present entries. -/
def sumO : List (Option Nat) → Nat
  | [] => 0
  | none :: xs => sumO xs
  | some a :: xs => a + sumO xs

/-- Sum of the taken values. -/
def sumT : List (Nat × Nat) → Nat
  | [] => 0
  | t :: ts => t.2 + sumT ts

/-- `Add`-like operators over `Nat`. -/
def sumOps (ip : Nat → List Nat) (sub : Nat → Bool := fun _ => false) : Ops Nat :=
  { len := fun v => v
    inPlaceIdx := ip
    isSubgraph := sub
    run := fun i ins cs => some [sumO ins + sumO cs + i]
    runInPlace := fun i taken ins => some [sumO ins + sumT taken + i] }

/-- Taken entries at positions `≥ pos`. -/
def takenFrom (taken : List (Nat × Nat)) (pos : Nat) : List (Nat × Nat) :=
  taken.filter (fun t => decide (pos ≤ t.1))

theorem sumT_takenFrom_split (taken : List (Nat × Nat)) (pos : Nat) :
    sumT (takenFrom taken pos) =
      sumT (taken.filter (fun t => decide (t.1 = pos))) + sumT (takenFrom taken (pos + 1)) := by
  induction taken with
  | nil => rfl
  | cons t ts ih =>
    unfold takenFrom at ih ⊢
    simp only [List.filter_cons, decide_eq_true_eq]
    by_cases h1 : pos ≤ t.1
    · by_cases h2 : t.1 = pos
      · have h3 : ¬ (pos + 1 ≤ t.1) := by omega
        rw [if_pos h1, if_pos h2, if_neg h3]
        simp only [sumT]; omega
      · have h3 : pos + 1 ≤ t.1 := by omega
        rw [if_pos h1, if_neg h2, if_pos h3]
        simp only [sumT]; omega
    · have h2 : ¬ t.1 = pos := by omega
      have h3 : ¬ (pos + 1 ≤ t.1) := by omega
      rw [if_neg h1, if_neg h2, if_neg h3]
      exact ih

theorem sumT_at_none (taken : List (Nat × Nat)) (pos : Nat) (h : ∀ v, (pos, v) ∉ taken) :
    sumT (taken.filter (fun t => decide (t.1 = pos))) = 0 := by
  induction taken with
  | nil => rfl
  | cons t ts ih =>
    simp only [List.filter_cons, decide_eq_true_eq]
    have hne : ¬ t.1 = pos := by
      intro he
      exact h t.2 (by rw [← he]; exact List.mem_cons_self)
    rw [if_neg hne]
    exact ih (fun v hv => h v (List.mem_cons_of_mem _ hv))

theorem sumT_at_one (taken : List (Nat × Nat)) (pos v : Nat) (hm : (pos, v) ∈ taken)
    (hnd : (taken.map (fun t => t.1)).Nodup) :
    sumT (taken.filter (fun t => decide (t.1 = pos))) = v := by
  induction taken with
  | nil => simp at hm
  | cons t ts ih =>
    simp only [List.map_cons, List.nodup_cons] at hnd
    simp only [List.filter_cons, decide_eq_true_eq]
    rcases List.mem_cons.mp hm with heq | hm'
    · subst heq
      simp only [if_true, sumT]
      have : sumT (ts.filter (fun t => decide (t.1 = pos))) = 0 := by
        apply sumT_at_none
        intro w hw
        exact hnd.1 (List.mem_map.mpr ⟨(pos, w), hw, rfl⟩)
      omega
    · have hne : ¬ t.1 = pos := by
        intro he
        exact hnd.1 (List.mem_map.mpr ⟨(pos, v), hm', he.symm⟩)
      rw [if_neg hne]
      exact ih hm' hnd.2

/-- Putting the taken values back adds exactly their sum. -/
theorem sumO_fill {taken : List (Nat × Nat)} {pos : Nat} {ins full : List (Option Nat)}
    (h : FillsFrom taken pos ins full) (hnd : (taken.map (fun t => t.1)).Nodup)
    (hr : ∀ t ∈ taken, pos ≤ t.1 → t.1 < pos + ins.length) :
    sumO full = sumO ins + sumT (takenFrom taken pos) := by
  induction h with
  | nil p0 =>
    have : takenFrom taken p0 = [] := by
      unfold takenFrom
      rw [List.filter_eq_nil_iff]
      intro t ht
      have := hr t ht
      simp only [List.length_nil, Nat.add_zero] at this
      simp only [decide_eq_true_eq]
      omega
    rw [this]; rfl
  | @keep p0 x xs ys hkeep _ ih =>
    have ih' := ih (by
      intro t ht hp
      have := hr t ht (by omega)
      simp only [List.length_cons] at this
      omega)
    rw [sumT_takenFrom_split, sumT_at_none taken p0 hkeep]
    cases x with
    | none => simp only [sumO]; omega
    | some a => simp only [sumO]; omega
  | @put p0 v xs ys hm _ ih =>
    have ih' := ih (by
      intro t ht hp
      have := hr t ht (by omega)
      simp only [List.length_cons] at this
      omega)
    rw [sumT_takenFrom_split, sumT_at_one taken p0 v hm hnd]
    simp only [sumO]; omega

theorem takenFrom_zero (taken : List (Nat × Nat)) : takenFrom taken 0 = taken := by
  unfold takenFrom
  rw [List.filter_eq_self]
  intro t _; simp

/-- **`sumOps` satisfies the contract** (for any graph), although every operator depends on the
value of each of its operands. -/
theorem sumOps_contract (ip : Nat → List Nat) (sub : Nat → Bool) (g : Graph)
    (hip : ∀ i, (ip i).Nodup) (hsub : ∀ i, ip i ≠ [] → sub i = false) :
    Contract (sumOps ip sub) g := by
  refine ⟨hip, hsub, ?_⟩
  intro i op _ taken ins full _ hnd hplace _ _ hfill
  simp only [sumOps]
  have := sumO_fill hfill hnd (by
    intro t ht _
    have := hplace t.1 t.2 ht
    have := (List.getElem?_eq_some_iff.mp this).1
    omega)
  rw [takenFrom_zero] at this
  rw [this]
  simp [sumO]

/-- The contract is not vacuous for `sumOps`: the result depends on the operand. -/
example : (sumOps (fun _ => [0])).run 7 [some 1] [] ≠ (sumOps (fun _ => [0])).run 7 [some 2] [] := by
  decide

end RtenVerif.Executor
