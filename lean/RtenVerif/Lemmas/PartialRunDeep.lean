import RtenVerif.Lemmas.PartialRunPrune
/-!
# The deep determinism flag: `DTree.deep` holds iff no operator at any nesting depth is flagged
non-deterministic
-/
namespace RtenVerif.PartialRun
open RtenVerif.Graph RtenVerif.Planner

mutual
theorem deep_iff : ∀ t : DTree, t.deep = true ↔ ∀ t' ∈ t.nodes, t'.own = true
  | .node own subs => by
    simp only [DTree.deep, DTree.nodes, Bool.and_eq_true, List.mem_cons, forall_eq_or_imp]
    rw [deepSubs_iff subs]
    rfl
theorem deepSubs_iff : ∀ subs : List (List DTree),
    deepSubs subs = true ↔ ∀ t' ∈ nodesSubs subs, t'.own = true
  | [] => by simp [deepSubs, nodesSubs]
  | ops :: rest => by
    simp only [deepSubs, nodesSubs, Bool.and_eq_true, List.mem_append]
    rw [deepOps_iff ops, deepSubs_iff rest]
    constructor
    · rintro ⟨h1, h2⟩ t' (h | h)
      · exact h1 t' h
      · exact h2 t' h
    · intro h
      exact ⟨fun t' ht => h t' (Or.inl ht), fun t' ht => h t' (Or.inr ht)⟩
theorem deepOps_iff : ∀ ops : List DTree,
    deepOps ops = true ↔ ∀ t' ∈ nodesOps ops, t'.own = true
  | [] => by simp [deepOps, nodesOps]
  | t :: ts => by
    simp only [deepOps, nodesOps, Bool.and_eq_true, List.mem_append]
    rw [deep_iff t, deepOps_iff ts]
    constructor
    · rintro ⟨h1, h2⟩ t' (h | h)
      · exact h1 t' h
      · exact h2 t' h
    · intro h
      exact ⟨fun t' ht => h t' (Or.inl ht), fun t' ht => h t' (Or.inr ht)⟩
end

/-- The IR's `deterministic` flag of every operator node is the deep flag of its tree. -/
def DeepFlags (g : Graph) (tree : Nat → DTree) : Prop :=
  ∀ p op, getOp g p = some op → op.deterministic = (tree p).deep

/-- Every operator `prune_plan` keeps is deep-deterministic: neither it nor any operator at any
nesting depth inside its subgraphs is flagged non-deterministic. -/
theorem kept_deep {g : Graph} {tree : Nat → DTree} (hf : DeepFlags g tree) (plan ins : List Nat) :
    ∀ k ∈ (pruneFold g plan ins).kept, ∀ t' ∈ (tree k).nodes, t'.own = true := by
  intro k hk
  obtain ⟨_, op, hop, hdet⟩ := kept_spec g plan ins k hk
  rw [hf k op hop] at hdet
  exact (deep_iff _).mp hdet

/-- Executable check of `DeepFlags`. -/
def deepFlagsB (g : Graph) (tree : Nat → DTree) : Bool :=
  (List.range g.nodes.length).all (fun p =>
    match getOp g p with
    | some op => op.deterministic == (tree p).deep
    | none => true)

theorem deepFlags_of_check {g : Graph} {tree : Nat → DTree} (h : deepFlagsB g tree = true) :
    DeepFlags g tree := by
  intro p op hop
  unfold deepFlagsB at h
  rw [List.all_eq_true] at h
  have := h p (List.mem_range.mpr (getOp_lt hop))
  simpa [hop] using this

/-- Non-vacuity: `If{then: [If{then:[RandomUniform], else:[Neg]}], else: [Identity]}` is not
deep-deterministic although its own flag and the flags at depth 1 are set. -/
example : (DTree.node true [[.node true [[.node false []], [.node true []]]], [.node true []]]).deep
    = false := by decide
example : (DTree.node true [[.node true [[.node true []], [.node true []]]], [.node true []]]).deep
    = true := by decide

end RtenVerif.PartialRun
