import RtenVerif.Lemmas.PartialRunFull
/-!
# `partial_run` succeeds whenever the single run with all inputs does
-/
namespace RtenVerif.PartialRun
open RtenVerif.Graph RtenVerif.Planner

section
variable {Ω V : Type}
variable {g : Graph} {sem : Sem Ω V} {ω : Ω} {cv : Nat → V} {S rest : List (Nat × V)}

/-! ## What is unresolved for `S` and produced by an operator is unresolved for `S ++ rest` -/

theorem rc_transfer (hs : Setup g S rest) {d : Nat} {x : Nat × OpNode}
    (hr : rContains g (S.map (fun p => p.1)) d = false) (hsrc : getSource g d = some x) :
    rContains g ((S ++ rest).map (fun p => p.1)) d = false := by
  simp only [rContains, Bool.or_eq_false_iff] at hr ⊢
  refine ⟨?_, hr.2⟩
  cases hc : ((S ++ rest).map (fun p => p.1)).contains d with
  | false => rfl
  | true =>
    exfalso
    have hm := List.contains_iff_mem.mp hc
    rw [List.map_append, List.mem_append] at hm
    rcases hm with hm | hm
    · have := List.contains_iff_mem.mpr hm
      rw [hr.1] at this; cases this
    · obtain ⟨w, hw⟩ := lookup_isSome_of_mem_keys hm
      rw [hs.restNoSource d w hw] at hsrc; cases hsrc

theorem needed_transfer (hs : Setup g S rest) {outs : List Nat} {p : Nat}
    (h : Needed g (S.map (fun p => p.1)) outs p) :
    Needed g ((S ++ rest).map (fun p => p.1)) outs p := by
  induction h with
  | root ho hr hsrc => exact .root ho (rc_transfer hs hr hsrc) hsrc
  | step _ hx hd hr hsrc ih => exact .step ih hx hd (rc_transfer hs hr hsrc) hsrc

theorem edge_transfer (hs : Setup g S rest) {x p : Nat}
    (h : Edge g (S.map (fun p => p.1)) x p) : Edge g ((S ++ rest).map (fun p => p.1)) x p := by
  obtain ⟨xop, d, pop, hx, hd, hr, hsrc⟩ := h
  exact ⟨xop, d, pop, hx, hd, rc_transfer hs hr hsrc, hsrc⟩

theorem star_transfer (hs : Setup g S rest) {p x : Nat}
    (h : Star (Edge g (S.map (fun p => p.1))) p x) :
    Star (Edge g ((S ++ rest).map (fun p => p.1))) p x := by
  induction h with
  | refl => exact .refl _
  | tail _ he ih => exact .tail ih (edge_transfer hs he)

/-- Planning for `partial_run` succeeds. -/
theorem partial_createPlan_ok (hs : Setup g S rest) {outs : List Nat}
    (hargsF : ArgsOK g ((S ++ rest).map (fun p => p.1)) outs)
    (hden : ∀ o ∈ outs, ∃ v, Den g sem ω cv (S ++ rest) o v) :
    ∃ plan, createPlan g (S.map (fun p => p.1)) outs partialOpts = .ok plan := by
  obtain ⟨h1, h2, h3, h4⟩ := hargsF
  rw [List.map_append] at h3 h4
  have hargsP : ArgsOK g (S.map (fun p => p.1)) outs :=
    ⟨h1, h2, (List.nodup_append.mp h3).1, fun i hi => h4 i (List.mem_append_left _ hi)⟩
  cases hc : createPlan g (S.map (fun p => p.1)) outs partialOpts with
  | ok plan => exact ⟨plan, rfl⟩
  | error e =>
    exfalso
    have hcause := c03_error_cause hargsP hc
    simp only [partialOpts, resolvedNew, Bool.false_eq_true, if_false, List.append_nil] at hcause
    cases hcause with
    | cycle hn he hst =>
      obtain ⟨f, hf⟩ := needed_opEval hden (needed_transfer hs hn)
      exact opEval_no_cycle (edge_transfer hs he) (star_transfer hs hst) f hf
    | missing h => cases h
    | noSource h => cases h

/-! ## The kept operators run to the end -/

/-- The operators `prune_plan` keeps among `l`, starting from state `st`. -/
def keptFrom (g : Graph) : PruneSt → List Nat → List Nat
  | _, [] => []
  | st, i :: l =>
    match getOp g i with
    | none => keptFrom g st l
    | some op =>
      if prunedAt g st.resolved op then keptFrom g (pruneStep g st i) l
      else i :: keptFrom g (pruneStep g st i) l

theorem kept_foldl_eq (g : Graph) : ∀ (l : List Nat) (st : PruneSt),
    (l.foldl (pruneStep g) st).kept = st.kept ++ keptFrom g st l
  | [], st => by simp [keptFrom]
  | i :: l, st => by
    simp only [List.foldl_cons, keptFrom]
    rw [kept_foldl_eq g l]
    rcases pruneStep_cases g st i with ⟨hn, h⟩ | ⟨op, hop, hp, h⟩ | ⟨op, hop, hp, h⟩
    · simp [hn, h]
    · simp only [hop, hp, if_true]
      rw [h]
    · simp only [hop, hp, Bool.false_eq_true, if_false]
      rw [h]
      simp

/-- Everything resolved is readable by the executor. -/
def ResolvedReadable (g : Graph) (cv : Nat → V) (S temps : List (Nat × V)) (r : List Nat) : Prop :=
  ∀ d, rContains g r d = true → Readable g cv S temps d

theorem kept_progress (hs : Setup g S rest) (hov : OutputsAreValues g)
    (hin : ∀ i ∈ S.map (fun p => p.1), isValueOrConstant g i = true) :
    ∀ (l : List Nat) (st : PruneSt) (temps : List (Nat × V)),
      (∀ i ∈ l, ∃ f, OpEval g sem ω cv (S ++ rest) f i) →
      TempsOK g sem ω cv S (S ++ rest) temps → ResolvedReadable g cv S temps st.resolved →
      ∃ temps', execPlan g sem ω cv (S.map (fun p => p.1)) S (keptFrom g st l) temps = .ok temps' ∧
        ResolvedReadable g cv S temps' (l.foldl (pruneStep g) st).resolved := by
  intro l
  induction l with
  | nil => intro st temps _ _ hr; exact ⟨temps, rfl, hr⟩
  | cons i l ih =>
    intro st temps hev ht hr
    have hev' : ∀ j ∈ l, ∃ f, OpEval g sem ω cv (S ++ rest) f j :=
      fun j hj => hev j (List.mem_cons_of_mem _ hj)
    simp only [List.foldl_cons, keptFrom]
    rcases pruneStep_cases g st i with ⟨hn, h⟩ | ⟨op, hop, hp, h⟩ | ⟨op, hop, hp, h⟩
    · simp only [hn, h]
      exact ih st temps hev' ht hr
    · simp only [hop, hp, if_true]
      refine ih _ temps hev' ht ?_
      rw [h]; exact hr
    · simp only [hop, hp, Bool.false_eq_true, if_false, execPlan]
      obtain ⟨_, hres, _⟩ := prunedAt_false hp
      rw [depsResolved_iff] at hres
      obtain ⟨args, hargs⟩ := gather_total (lk := lookupVal g cv S temps)
        (fun d hd => hr d (hres d hd))
      obtain ⟨f, op', args', outs', hop', hg', hsem', hlen'⟩ := hev i List.mem_cons_self
      rw [hop] at hop'
      injection hop' with hop'
      subst hop'
      have hview : ∀ id v, S.lookup id = some v → (S ++ rest).lookup id = some v := by
        intro id v h'; rw [lookup_append', h']
      have heq : args = args' :=
        gather_eq _ _ _ hargs hg' (fun d _ v v' h1 h2 =>
          (lookupVal_den hview ht h1).unique g sem ω cv _ ⟨f, h2⟩)
      subst heq
      have hstep : stepOp g sem ω cv (S.map (fun p => p.1)) S temps i =
          .ok ((zipOuts op.outputs outs').reverse.filter
            (fun p => !(S.map (fun p => p.1)).contains p.1) ++ temps) := by
        simp [stepOp, hop, hargs, hsem', hlen']
      have tie : Tie g sem ω ω S (S ++ rest) [i] :=
        ⟨hs.up, hview,
          fun q _ o ho hl => by rw [lookup_append', hl]; exact hs.rest_fresh ho,
          fun _ _ _ => rfl⟩
      have ht' := stepOp_sound tie List.mem_cons_self ht hstep
      simp only [hstep]
      refine ih _ _ hev' ht' ?_
      rw [h]
      intro d hd
      show Readable g cv S _ d
      by_cases hkey : d ∈ S.map (fun p => p.1)
      · exact readable_of_key hin hkey
      · by_cases hc : isConstant g d = true
        · exact readable_const hc
        · have hSl : S.lookup d = none := by
            cases hl : S.lookup d with
            | none => rfl
            | some x => exact absurd (key_of_lookup_some hl) hkey
          have hd' : rContains g st.resolved d = true ∨ d ∈ opOutputs op := by
            simp only [rContains, Bool.or_eq_true, List.contains_iff_mem, List.mem_append] at hd ⊢
            rcases hd with (h' | h') | h'
            · exact Or.inl (Or.inl h')
            · exact Or.inr h'
            · exact Or.inl (Or.inr h')
          rcases hd' with h' | hmem
          · obtain ⟨v, hv⟩ := hr d h'
            unfold Readable
            unfold lookupVal at hv ⊢
            cases hn : getNode g d with
            | none => simp [hn] at hv
            | some n =>
              cases n with
              | operator op => simp [hn] at hv
              | constant => exact ⟨cv d, rfl⟩
              | value =>
                simp only [hn, hSl] at hv ⊢
                rw [lookup_append']
                cases hz : ((zipOuts op.outputs outs').reverse.filter
                    (fun p => !(S.map (fun p => p.1)).contains p.1)).lookup d with
                | some x => exact ⟨x, rfl⟩
                | none => exact ⟨v, hv⟩
          · have hn : getNode g d = some .value := hov i op hop d hmem
            have hsome : some d ∈ op.outputs := by
              simp only [opOutputs, List.mem_filterMap] at hmem
              obtain ⟨x, hx, hxe⟩ := hmem
              cases x with
              | none => cases hxe
              | some y =>
                have : y = d := by simpa using hxe
                rw [this] at hx; exact hx
            have hk := zipOuts_key (vs := outs') hsome hlen'
            have hk' : d ∈ ((zipOuts op.outputs outs').reverse.filter
                (fun p => !(S.map (fun p => p.1)).contains p.1)).map (fun p => p.1) := by
              obtain ⟨pr, hpr, hpe⟩ := List.mem_map.mp hk
              refine List.mem_map.mpr ⟨pr, List.mem_filter.mpr ⟨List.mem_reverse.mpr hpr, ?_⟩, hpe⟩
              have : ¬ (S.map (fun p => p.1)).contains pr.1 = true := by
                rw [hpe]; intro hcon; exact hkey (List.contains_iff_mem.mp hcon)
              simpa using this
            obtain ⟨x, hx⟩ := lookup_some_of_key hk'
            unfold Readable lookupVal
            simp only [hn, hSl]
            rw [lookup_append', hx]
            exact ⟨x, rfl⟩

/-- **`partial_run` succeeds** whenever the single run with all inputs does. -/
theorem partialRun_total (hs : Setup g S rest) (hov : OutputsAreValues g) {outs : List Nat}
    {valsF : List V} (hfull : run g sem ω cv (S ++ rest) [] outs = .ok valsF) :
    ∃ leaves, partialRun g sem ω cv S [] outs = .ok leaves := by
  obtain ⟨planF, hcF⟩ := createPlan_of_run_ok hfull
  have hargsF := argsOK_of_createPlan_ok hcF
  obtain ⟨lF, dF⟩ := run_sound hs.up hfull
  have hden : ∀ o ∈ outs, ∃ v, Den g sem ω cv (S ++ rest) o v := by
    intro o ho
    obtain ⟨v, hv⟩ := mem_zip_of_mem lF ho
    exact ⟨v, dF _ hv⟩
  obtain ⟨plan, hc⟩ := partial_createPlan_ok hs hargsF hden
  have hargsP := argsOK_of_createPlan_ok hc
  have hok : PlanOK g true (S.map (fun p => p.1)) outs plan := by
    have := c03_plan_ok hargsP hc
    simpa [partialOpts, resolvedNew] using this
  have hev : ∀ i ∈ plan, ∃ f, OpEval g sem ω cv (S ++ rest) f i :=
    fun i hi => needed_opEval hden (needed_transfer hs (hok.minimal i hi))
  have ht0 : TempsOK g sem ω cv S (S ++ rest) [] := by intro id v h; simp at h
  have hr0 : ResolvedReadable g cv S [] (pruneInit (S.map (fun p => p.1))).resolved := by
    intro d hd
    simp only [pruneInit, rContains, Bool.or_eq_true, List.contains_iff_mem] at hd
    rcases hd with h | h
    · exact readable_of_key hargsP.2.2.2 h
    · exact readable_const h
  obtain ⟨temps, he, hr⟩ := kept_progress hs hov hargsP.2.2.2 plan _ [] hev ht0 hr0
  have hkept : (pruneFold g plan (S.map (fun p => p.1))).kept =
      keptFrom g (pruneInit (S.map (fun p => p.1))) plan := by
    unfold pruneFold
    rw [kept_foldl_eq]
    simp [pruneInit]
  have hrd : ∀ o ∈ newOutputs (pruneFold g plan (S.map (fun p => p.1))) outs,
      Readable g cv S temps o := by
    intro o ho
    have := (pruneFold_resolved_iff_cand g plan _ o).mpr (mem_newOutputs.mp ho).1
    exact hr o (rContains_of_mem this)
  have hnd : (newOutputs (pruneFold g plan (S.map (fun p => p.1))) outs).Nodup :=
    (pruneFold_cand_nodup g plan _ hargsP.2.2.1).sublist List.filter_sublist
  obtain ⟨vals, hv⟩ := collect_progress _ temps hnd hrd
  refine ⟨(newOutputs (pruneFold g plan (S.map (fun p => p.1))) outs).zip vals, ?_⟩
  unfold partialRun
  simp only [List.append_nil, partialPlan, hc, prunePlan, runPlan, List.filter_nil, hkept, he, hv]

/-- **C04 at full strength**: whenever `run` with all inputs succeeds, `partial_run` on any
subset `S` returns, and `run` on what it returned plus the remaining inputs yields the same
outputs. -/
theorem compose_total (hs : Setup g S rest) (hov : OutputsAreValues g) (hdet : DetSem g sem)
    {outs : List Nat} {valsF : List V}
    (hfull : run g sem ω cv (S ++ rest) [] outs = .ok valsF) :
    ∃ leaves, partialRun g sem ω cv S [] outs = .ok leaves ∧
      run g sem ω cv (leaves ++ rest) [] outs = .ok valsF := by
  obtain ⟨leaves, hp⟩ := partialRun_total hs hov hfull
  exact ⟨leaves, hp, compose_full hs hov hdet hp hfull⟩

end

end RtenVerif.PartialRun
