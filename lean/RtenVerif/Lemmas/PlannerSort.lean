import RtenVerif.Lemmas.PlannerDfs
/-!
# `sort_plan` (frontier re-ordering): permutation + validity + termination (C03.T4)

All statements are for `dedup = true`, i.e. the code with the `scheduled` set.
-/
namespace RtenVerif.Planner
open RtenVerif.Graph

/-- Ids of a list of plan entries. -/
def ids (l : List (Nat × OpNode)) : List Nat := l.map (fun e => e.1)

theorem mem_ids {l : List (Nat × OpNode)} {i : Nat} : i ∈ ids l ↔ ∃ e ∈ l, e.1 = i := by
  simp [ids]

theorem any_id_iff {fr : List (Nat × OpNode)} {i : Nat} :
    fr.any (fun e => e.1 == i) = true ↔ i ∈ ids fr := by
  simp [ids, List.any_eq_true]

/-! ## `Vec::remove` and the position choice -/

theorem removeAt_spec : ∀ (l : List (Nat × OpNode)) (n : Nat), n < l.length →
    ∃ e l', removeAt l n = some (e, l') ∧ l.Perm (e :: l') := by
  intro l
  induction l with
  | nil => intro n h; simp at h
  | cons a l ih =>
    intro n h
    cases n with
    | zero => exact ⟨a, l, rfl, List.Perm.refl _⟩
    | succ n =>
      obtain ⟨e, l', h1, h2⟩ := ih n (by simpa using h)
      refine ⟨e, a :: l', by simp [removeAt, h1], ?_⟩
      exact (List.Perm.cons a h2).trans (List.Perm.swap e a l')

theorem pickPos_lt {fr : List (Nat × OpNode)} (h : fr ≠ []) : pickPos fr < fr.length := by
  unfold pickPos
  cases hf : fr.findIdx? (fun e => !e.2.inPlace) with
  | none =>
    simp only [Option.getD_none]
    cases fr with
    | nil => exact absurd rfl h
    | cons _ _ => simp
  | some i =>
    simp only [Option.getD_some]
    obtain ⟨hlt, _⟩ := List.findIdx?_eq_some_iff_getElem.mp hf
    exact hlt

/-! ## The candidate loop -/

theorem pushCandidates_mono {g : Graph} {r em : List Nat} :
    ∀ (cs fr : List (Nat × OpNode)) (x : Nat × OpNode), x ∈ fr →
      x ∈ pushCandidates g true r em cs fr := by
  intro cs
  induction cs with
  | nil => intro fr x h; simpa [pushCandidates] using h
  | cons c cs ih =>
    intro fr x h
    simp only [pushCandidates]
    split
    · exact ih _ _ h
    · split
      · exact ih _ _ h
      · split
        · exact ih _ _ (List.mem_append_left _ h)
        · exact ih _ _ h

theorem pushCandidates_new {g : Graph} {r em : List Nat} :
    ∀ (cs fr : List (Nat × OpNode)) (x : Nat × OpNode), x ∈ pushCandidates g true r em cs fr →
      x ∈ fr ∨ (x ∈ cs ∧ depsResolved g r x.2 = true) := by
  intro cs
  induction cs with
  | nil => intro fr x h; left; simpa [pushCandidates] using h
  | cons c cs ih =>
    intro fr x h
    simp only [pushCandidates] at h
    have lift : (x ∈ fr ∨ (x ∈ cs ∧ depsResolved g r x.2 = true)) →
        x ∈ fr ∨ (x ∈ c :: cs ∧ depsResolved g r x.2 = true) := by
      rintro (h | ⟨h1, h2⟩)
      · exact Or.inl h
      · exact Or.inr ⟨List.mem_cons_of_mem _ h1, h2⟩
    split at h
    · exact lift (ih _ _ h)
    · split at h
      · exact lift (ih _ _ h)
      · split at h
        · rename_i hready
          rcases ih _ _ h with h' | h'
          · rcases List.mem_append.mp h' with h' | h'
            · exact Or.inl h'
            · simp only [List.mem_singleton] at h'
              subst h'
              exact Or.inr ⟨List.mem_cons_self .., hready⟩
          · exact lift (Or.inr h')
        · exact lift (ih _ _ h)

/-- Frontier ids stay duplicate-free and disjoint from the scheduled ids. -/
theorem pushCandidates_nodup {g : Graph} {r em : List Nat} :
    ∀ (cs fr : List (Nat × OpNode)), (ids fr).Nodup → (∀ a ∈ ids fr, a ∉ em) →
      (ids (pushCandidates g true r em cs fr)).Nodup ∧
        ∀ a ∈ ids (pushCandidates g true r em cs fr), a ∉ em := by
  intro cs
  induction cs with
  | nil => intro fr h1 h2; simpa [pushCandidates] using ⟨h1, h2⟩
  | cons c cs ih =>
    intro fr h1 h2
    simp only [pushCandidates]
    split
    · exact ih _ h1 h2
    · rename_i hany
      split
      · exact ih _ h1 h2
      · rename_i hem
        split
        · apply ih
          · have hc : c.1 ∉ ids fr := fun hm => hany (any_id_iff.mpr hm)
            simp only [ids, List.map_append, List.map_cons, List.map_nil]
            rw [List.nodup_append]
            refine ⟨h1, by simp, ?_⟩
            intro a ha b hb
            simp only [List.mem_singleton] at hb
            subst hb
            rintro rfl
            exact hc ha
          · intro a ha
            simp only [ids, List.map_append, List.map_cons, List.map_nil, List.mem_append,
              List.mem_singleton] at ha
            rcases ha with ha | rfl
            · exact h2 a ha
            · intro hm
              apply hem
              simp [List.contains_iff_mem, hm]
        · exact ih _ h1 h2

/-- Every ready candidate ends up in the frontier unless it is already scheduled. -/
theorem pushCandidates_complete {g : Graph} {r em : List Nat} :
    ∀ (cs fr : List (Nat × OpNode)) (c : Nat × OpNode), c ∈ cs → depsResolved g r c.2 = true →
      c.1 ∈ ids (pushCandidates g true r em cs fr) ∨ c.1 ∈ em := by
  intro cs
  induction cs with
  | nil => intro fr c h; cases h
  | cons c0 cs ih =>
    intro fr c hc hready
    simp only [pushCandidates]
    rcases List.mem_cons.mp hc with rfl | hc
    · split
      · rename_i hany
        left
        obtain ⟨e, he, hid⟩ := mem_ids.mp (any_id_iff.mp hany)
        exact mem_ids.mpr ⟨e, pushCandidates_mono _ _ _ he, hid⟩
      · split
        · rename_i hem
          right
          simpa [List.contains_iff_mem] using hem
        · left
          exact mem_ids.mpr ⟨c, pushCandidates_mono _ _ _ (by simp), rfl⟩
    · split
      · exact ih _ c hc hready
      · split
        · exact ih _ c hc hready
        · split
          · exact ih _ c hc hready
          · exact ih _ c hc hready

theorem mem_dependents {g : Graph} {P : List (Nat × OpNode)} {v : Nat} {x : Nat × OpNode} :
    x ∈ dependents g P v ↔ x ∈ P ∧ v ∈ opDeps g x.2 := by
  simp only [dependents, List.mem_flatMap, List.mem_map, List.mem_filter, beq_iff_eq]
  constructor
  · rintro ⟨e, he, d, ⟨hd, rfl⟩, rfl⟩
    exact ⟨he, hd⟩
  · rintro ⟨h1, h2⟩
    exact ⟨x, h1, v, ⟨h2, rfl⟩, rfl⟩

/-! ## Loop invariant -/

structure SInv (g : Graph) (r0 : List Nat) (P fr : List (Nat × OpNode)) (r em : List Nat) :
    Prop where
  frP : ∀ e ∈ fr, e ∈ P
  frReady : ∀ e ∈ fr, depsResolved g r e.2 = true
  frNodup : (ids fr).Nodup
  emNodup : em.Nodup
  disj : ∀ a ∈ ids fr, a ∉ em
  emP : ∀ i ∈ em, i ∈ ids P
  valid : ValidIds g false r0 em
  res : r = availAfter g r0 em
  complete : ∀ e ∈ P, depsResolved g r e.2 = true → e.1 ∈ ids fr ∨ e.1 ∈ em

theorem sortStep {g : Graph} {r0 : List Nat} {P fr fr' : List (Nat × OpNode)} {r em : List Nat}
    {e : Nat × OpNode} (hops : ∀ e ∈ P, getOp g e.1 = some e.2)
    (hinv : SInv g r0 P fr r em) (hperm : fr.Perm (e :: fr')) :
    SInv g r0 P
      (pushCandidates g true (r ++ opOutputs e.2) (em ++ [e.1])
        ((opOutputs e.2).flatMap (dependents g P)) fr')
      (r ++ opOutputs e.2) (em ++ [e.1]) := by
  have he_fr : e ∈ fr := hperm.symm.subset (List.mem_cons_self ..)
  have hsub' : ∀ x ∈ fr', x ∈ fr := fun x hx => hperm.symm.subset (List.mem_cons_of_mem _ hx)
  have hidperm : (ids fr).Perm (e.1 :: ids fr') := by
    simpa [ids] using hperm.map (fun e => e.1)
  have hnd' : (e.1 :: ids fr').Nodup := hidperm.nodup_iff.mp hinv.frNodup
  have he_not_fr' : e.1 ∉ ids fr' := (List.nodup_cons.mp hnd').1
  have he_not_em : e.1 ∉ em := hinv.disj _ (mem_ids.mpr ⟨e, he_fr, rfl⟩)
  have heP : e ∈ P := hinv.frP e he_fr
  have hop : getOp g e.1 = some e.2 := hops e heP
  have houts : outsOf g e.1 = opOutputs e.2 := by simp [outsOf, hop]
  have hmono : ∀ v, v ∈ r → v ∈ r ++ opOutputs e.2 := fun v hv => List.mem_append_left _ hv
  -- base facts for the candidate loop
  have hb1 : (ids fr').Nodup := (List.nodup_cons.mp hnd').2
  have hb2 : ∀ a ∈ ids fr', a ∉ em ++ [e.1] := by
    intro a ha hm
    rcases List.mem_append.mp hm with hm | hm
    · obtain ⟨x, hx, hid⟩ := mem_ids.mp ha
      exact hinv.disj a (mem_ids.mpr ⟨x, hsub' x hx, hid⟩) hm
    · simp only [List.mem_singleton] at hm
      subst hm
      exact he_not_fr' ha
  obtain ⟨hn1, hn2⟩ := pushCandidates_nodup (g := g) (r := r ++ opOutputs e.2)
    ((opOutputs e.2).flatMap (dependents g P)) fr' hb1 hb2
  refine ⟨?_, ?_, hn1, ?_, hn2, ?_, ?_, ?_, ?_⟩
  · intro x hx
    rcases pushCandidates_new _ _ _ hx with h | ⟨h, _⟩
    · exact hinv.frP x (hsub' x h)
    · obtain ⟨v, _, hv⟩ := List.mem_flatMap.mp h
      exact (mem_dependents.mp hv).1
  · intro x hx
    rcases pushCandidates_new _ _ _ hx with h | ⟨_, h⟩
    · exact depsResolved_mono hmono (hinv.frReady x (hsub' x h))
    · exact h
  · rw [List.nodup_append]
    refine ⟨hinv.emNodup, by simp, ?_⟩
    intro a ha b hb
    simp only [List.mem_singleton] at hb
    subst hb
    rintro rfl
    exact he_not_em ha
  · intro i hi
    rcases List.mem_append.mp hi with hi | hi
    · exact hinv.emP i hi
    · simp only [List.mem_singleton] at hi
      subst hi
      exact mem_ids.mpr ⟨e, heP, rfl⟩
  · rw [validIds_append]
    refine ⟨hinv.valid, ?_, trivial⟩
    refine ⟨e.2, hop, ?_⟩
    intro d hd
    left
    rw [← hinv.res]
    exact depsResolved_iff.mp (hinv.frReady e he_fr) d hd
  · rw [hinv.res]
    simp [availAfter, List.flatMap_append, houts, List.append_assoc]
  · intro x hxP hready
    by_cases hold : depsResolved g r x.2 = true
    · rcases hinv.complete x hxP hold with h | h
      · obtain ⟨y, hy, hid⟩ := mem_ids.mp h
        rcases List.mem_cons.mp (hperm.subset hy) with rfl | hy'
        · right; rw [← hid]; simp
        · left
          exact mem_ids.mpr ⟨y, pushCandidates_mono _ _ _ hy', hid⟩
      · right; exact List.mem_append_left _ h
    · -- some dependency became available only now: `x` is a dependent of an output of `e`
      have : ∃ d ∈ opDeps g x.2, rContains g r d = false := by
        apply Classical.byContradiction
        intro hcon
        apply hold
        rw [depsResolved_iff]
        intro d hd
        cases hc : rContains g r d with
        | true => rfl
        | false => exact absurd ⟨d, hd, hc⟩ hcon
      obtain ⟨d, hd, hdr⟩ := this
      have hd' := depsResolved_iff.mp hready d hd
      rcases rContains_append_cases hd' with h | h
      · rw [hdr] at h; cases h
      · have hx_c : x ∈ (opOutputs e.2).flatMap (dependents g P) :=
          List.mem_flatMap.mpr ⟨d, h, mem_dependents.mpr ⟨hxP, hd⟩⟩
        exact pushCandidates_complete _ fr' x hx_c hready

/-- Result of the frontier loop. -/
structure SortResult (g : Graph) (r0 : List Nat) (P : List (Nat × OpNode)) (out : List Nat) :
    Prop where
  nodup : out.Nodup
  sub : ∀ i ∈ out, i ∈ ids P
  valid : ValidIds g false r0 out
  complete : ∀ e ∈ P, depsResolved g (availAfter g r0 out) e.2 = true → e.1 ∈ out

theorem sortLoop_spec {g : Graph} {r0 : List Nat} {P : List (Nat × OpNode)}
    (hops : ∀ e ∈ P, getOp g e.1 = some e.2) :
    ∀ (fuel : Nat) (fr : List (Nat × OpNode)) (r em : List Nat), SInv g r0 P fr r em →
      P.length ≤ fuel + em.length →
      ∃ out, sortLoop g true P fuel fr r em = some out ∧ SortResult g r0 P out := by
  intro fuel
  induction fuel with
  | zero =>
    intro fr r em hinv hlen
    cases fr with
    | nil =>
      refine ⟨em, by simp [sortLoop], hinv.emNodup, hinv.emP, hinv.valid, ?_⟩
      intro e he hr
      rw [← hinv.res] at hr
      rcases hinv.complete e he hr with h | h
      · simp [ids] at h
      · exact h
    | cons a fr =>
      exfalso
      have hnd : (ids (a :: fr) ++ em).Nodup := by
        rw [List.nodup_append]
        exact ⟨hinv.frNodup, hinv.emNodup, fun x hx y hy hxy => hinv.disj x hx (hxy ▸ hy)⟩
      have hsub : ids (a :: fr) ++ em ⊆ ids P := by
        intro x hx
        rcases List.mem_append.mp hx with hx | hx
        · obtain ⟨y, hy, hid⟩ := mem_ids.mp hx
          exact mem_ids.mpr ⟨y, hinv.frP y hy, hid⟩
        · exact hinv.emP x hx
      have := List.Nodup.length_le_of_subset hnd hsub
      simp [ids] at this
      omega
  | succ fuel ih =>
    intro fr r em hinv hlen
    cases fr with
    | nil =>
      refine ⟨em, by simp [sortLoop], hinv.emNodup, hinv.emP, hinv.valid, ?_⟩
      intro e he hr
      rw [← hinv.res] at hr
      rcases hinv.complete e he hr with h | h
      · simp [ids] at h
      · exact h
    | cons a fr =>
      obtain ⟨e, fr', hrem, hperm⟩ := removeAt_spec (a :: fr) (pickPos (a :: fr))
        (pickPos_lt (by simp))
      simp only [sortLoop, hrem]
      apply ih
      · exact sortStep hops hinv hperm
      · simp only [List.length_append, List.length_cons, List.length_nil]
        omega

/-- If the plan `P` is valid in its own (depth-first) order, a frontier loop that has
stopped has scheduled every entry. -/
theorem all_emitted {g : Graph} {P : List (Nat × OpNode)} {r out : List Nat} :
    ∀ (r0 : List Nat), ValidFrom g false r0 P → (∀ v, v ∈ r0 → v ∈ r) →
      (∀ e ∈ P, depsResolved g r e.2 = true → e.1 ∈ out) →
      (∀ e ∈ P, e.1 ∈ out → ∀ v ∈ opOutputs e.2, v ∈ r) → ∀ e ∈ P, e.1 ∈ out := by
  induction P with
  | nil => intro _ _ _ _ _ e he; cases he
  | cons a P ih =>
    intro r0 hv hsub hc ho e he
    have ha : a.1 ∈ out := by
      apply hc a (List.mem_cons_self ..)
      rw [depsResolved_iff]
      intro d hd
      rcases hv.1 d hd with h | ⟨h, _⟩
      · exact rContains_mono hsub h
      · cases h
    rcases List.mem_cons.mp he with rfl | he
    · exact ha
    · apply ih (r0 ++ opOutputs a.2) hv.2 _ (fun e' he' => hc e' (List.mem_cons_of_mem _ he'))
        (fun e' he' => ho e' (List.mem_cons_of_mem _ he')) e he
      intro v hv'
      rcases List.mem_append.mp hv' with h | h
      · exact hsub v h
      · exact ho a (List.mem_cons_self ..) ha v h

/-- **`sort_plan`**: with budget `P.length` the loop finishes, and returns a permutation of
the depth-first plan in which every entry still runs after all of its dependencies. -/
theorem sortPlan_spec {g : Graph} {r0 outs : List Nat} {st : St}
    (hinv : Inv g false r0 outs st) :
    ∃ out, sortPlanFuel g true st.plan.length st.plan r0 = some out ∧
      out.Perm (ids st.plan) ∧ ValidIds g false r0 out := by
  have hinit : SInv g r0 st.plan (st.plan.filter (fun e => depsResolved g r0 e.2)) r0 [] := by
    refine ⟨?_, ?_, ?_, by simp, by simp, by simp, trivial, by simp [availAfter], ?_⟩
    · intro e he; exact (List.mem_filter.mp he).1
    · intro e he; exact (List.mem_filter.mp he).2
    · exact List.Nodup.sublist (List.Sublist.map _ List.filter_sublist) hinv.nodup
    · intro e he hr
      left
      exact mem_ids.mpr ⟨e, List.mem_filter.mpr ⟨he, hr⟩, rfl⟩
  obtain ⟨out, hout, hres⟩ := sortLoop_spec hinv.ops st.plan.length _ r0 [] hinit (by simp)
  refine ⟨out, hout, ?_, hres.valid⟩
  have hall : ∀ e ∈ st.plan, e.1 ∈ out := by
    apply all_emitted (r := availAfter g r0 out) r0 hinv.valid
    · intro v hv; exact List.mem_append_left _ hv
    · exact hres.complete
    · intro e he hin v hv
      refine List.mem_append_right _ (List.mem_flatMap.mpr ⟨e.1, hin, ?_⟩)
      simp [outsOf, hinv.ops e he, hv]
  have hnd : (ids st.plan).Nodup := hinv.nodup
  rw [List.perm_ext_iff_of_nodup hres.nodup hnd]
  intro a
  constructor
  · exact hres.sub a
  · intro ha
    obtain ⟨e, he, hid⟩ := mem_ids.mp ha
    exact hid ▸ hall e he

end RtenVerif.Planner
