import RtenVerif.Lemmas.SymSimp

/-!
Side conditions of `simplify` stated on the **original** expression (C11, audit follow-up):
`posDivisors` (every `DivCeil` divisor evaluates to a positive number) and `bcastDom` (every
`Broadcast` node has operands that are equal or one of them `1`).  Both are invariants
of `canonicalize` and of `simplify_canonical`, hence they imply the internal `Guards`.
-/
set_option linter.unusedSimpArgs false
namespace RtenVerif.Sym

/-- Every `DivCeil` divisor of `e` evaluates (ideally) to a positive number. -/
def posDivisors (σ : Env) : SymExpr → Prop
  | .bin o a b =>
    posDivisors σ a ∧ posDivisors σ b ∧ (o = .divCeil → ∀ y, ev σ b = .ok y → 0 < y)
  | .neg a => posDivisors σ a
  | _ => True

/-- Every `Broadcast` node of `e` has operands that are equal or one of them `1` (the
documented domain of the constructor; no sign condition is needed). -/
def bcastDom (σ : Env) : SymExpr → Prop
  | .bin o a b =>
    bcastDom σ a ∧ bcastDom σ b ∧
      (o = .broadcast → ∀ x y, ev σ a = .ok x → ev σ b = .ok y → (x = y ∨ x = 1 ∨ y = 1))
  | .neg a => bcastDom σ a
  | _ => True

/-- `posDivisors ∧ bcastDom` as one recursive predicate. -/
def WF (σ : Env) : SymExpr → Prop
  | .bin o a b =>
    WF σ a ∧ WF σ b ∧ (o = .divCeil → ∀ y, ev σ b = .ok y → 0 < y) ∧
      (o = .broadcast → ∀ x y, ev σ a = .ok x → ev σ b = .ok y → (x = y ∨ x = 1 ∨ y = 1))
  | .neg a => WF σ a
  | _ => True

theorem wf_iff (σ : Env) : ∀ e : SymExpr, WF σ e ↔ posDivisors σ e ∧ bcastDom σ e := by
  intro e
  induction e with
  | value x => simp [WF, posDivisors, bcastDom]
  | var n p => simp [WF, posDivisors, bcastDom]
  | neg a ih => simpa [WF, posDivisors, bcastDom] using ih
  | bin o a b iha ihb =>
    simp only [WF, posDivisors, bcastDom, iha, ihb]
    constructor
    · rintro ⟨⟨h1, h2⟩, ⟨h3, h4⟩, h5, h6⟩; exact ⟨⟨h1, h3, h5⟩, h2, h4, h6⟩
    · rintro ⟨⟨h1, h3, h5⟩, h2, h4, h6⟩; exact ⟨⟨h1, h2⟩, ⟨h3, h4⟩, h5, h6⟩

theorem wf_value (σ : Env) (x : Int) : WF σ (.value x) := by simp [WF]

theorem evL_mem {σ : Env} {s : SymExpr} :
    ∀ {ts : List SymExpr} {vs : List Int}, evL σ ts = some vs → s ∈ ts → ∃ w, ev σ s = .ok w := by
  intro ts
  induction ts with
  | nil => intro vs _ hs; cases hs
  | cons u us ih =>
    intro vs hvs hs
    rw [evL_cons] at hvs
    obtain ⟨w, ws, hw', hws, rfl⟩ := hvs
    rw [List.mem_cons] at hs
    rcases hs with hs | hs
    · subst hs; exact ⟨w, hw'⟩
    · exact ih hws hs

/-! ### list membership through the list passes -/

theorem flatten_wf {σ : Env} (o : Op) : ∀ e : SymExpr, WF σ e → ∀ t ∈ flatten o e, WF σ t := by
  intro e
  induction e with
  | value x => intro h t ht; simp [flatten] at ht; subst ht; exact h
  | var n p => intro h t ht; simp [flatten] at ht; subst ht; exact h
  | neg a _ => intro h t ht; simp [flatten] at ht; subst ht; exact h
  | bin o' a b iha ihb =>
    intro h t ht
    unfold flatten at ht
    split at ht
    · rw [List.mem_append] at ht
      rcases ht with ht | ht
      · exact iha h.1 t ht
      · exact ihb h.2.1 t ht
    · simp at ht; subst ht; exact h

theorem isort_mem {t : SymExpr} {l : List SymExpr} : t ∈ isort l ↔ t ∈ l :=
  (isort_perm l).mem_iff

theorem removeAdjEq_mem {t : SymExpr} : ∀ {ts : List SymExpr}, t ∈ removeAdjEq ts → t ∈ ts := by
  intro ts
  induction ts with
  | nil => intro h; simpa [removeAdjEq] using h
  | cons a u ih =>
    intro h
    cases u with
    | nil => simpa [removeAdjEq] using h
    | cons b rest =>
      simp only [removeAdjEq] at h
      split at h
      · exact List.mem_cons_of_mem _ (ih h)
      · rw [List.mem_cons] at h
        rcases h with h | h
        · subst h; exact List.mem_cons_self
        · exact List.mem_cons_of_mem _ (ih h)

theorem removeAdjOppF_mem {t : SymExpr} :
    ∀ (n : Nat) {ts : List SymExpr}, t ∈ removeAdjOppF n ts → t ∈ ts := by
  intro n
  induction n with
  | zero => intro ts h; simpa [removeAdjOppF] using h
  | succ n ih =>
    intro ts h
    match ts, h with
    | [], h => simpa [removeAdjOppF] using h
    | [a], h => simpa [removeAdjOppF] using h
    | a :: b :: rest, h =>
      simp only [removeAdjOppF] at h
      split at h
      · exact List.mem_cons_of_mem _ (List.mem_cons_of_mem _ (ih h))
      · rw [List.mem_cons] at h
        rcases h with h | h
        · subst h; exact List.mem_cons_self
        · exact List.mem_cons_of_mem _ (ih h)

theorem removeFirst_mem {x t : SymExpr} :
    ∀ {rt rt' : List SymExpr}, removeFirst x rt = some rt' → t ∈ rt' → t ∈ rt := by
  intro rt
  induction rt with
  | nil => intro rt' h; simp [removeFirst] at h
  | cons u us ih =>
    intro rt' h ht
    simp only [removeFirst] at h
    split at h
    · simp at h; subst h; exact List.mem_cons_of_mem _ ht
    · split at h
      · rename_i ts' hts'
        simp at h; subst h
        rw [List.mem_cons] at ht
        rcases ht with ht | ht
        · subst ht; exact List.mem_cons_self
        · exact List.mem_cons_of_mem _ (ih hts' ht)
      · simp at h

theorem cancel_mem {t : SymExpr} :
    ∀ (lt rt : List SymExpr),
      (t ∈ (cancel lt rt).1 → t ∈ lt) ∧ (t ∈ (cancel lt rt).2 → t ∈ rt) := by
  intro lt
  induction lt with
  | nil => intro rt; simp [cancel]
  | cons u us ih =>
    intro rt
    simp only [cancel]
    split
    · rename_i rt' hrt'
      obtain ⟨h1, h2⟩ := ih rt'
      exact ⟨fun h => List.mem_cons_of_mem _ (h1 h), fun h => removeFirst_mem hrt' (h2 h)⟩
    · obtain ⟨h1, h2⟩ := ih rt
      refine ⟨fun h => ?_, h2⟩
      rw [List.mem_cons] at h
      rcases h with h | h
      · subst h; exact List.mem_cons_self
      · exact List.mem_cons_of_mem _ (h1 h)

theorem setFirstVal_wf {σ : Env} (c : Int) :
    ∀ {ts : List SymExpr}, (∀ t ∈ ts, WF σ t) → ∀ t ∈ setFirstVal c ts, WF σ t := by
  intro ts
  induction ts with
  | nil => intro _ t ht; simp [setFirstVal] at ht
  | cons u us ih =>
    intro h t ht
    have hus : ∀ t ∈ us, WF σ t := fun t ht => h t (List.mem_cons_of_mem _ ht)
    cases u with
    | value x =>
      simp only [setFirstVal, List.mem_cons] at ht
      rcases ht with ht | ht
      · subst ht; trivial
      · exact hus t ht
    | var n p =>
      simp only [setFirstVal, List.mem_cons] at ht
      rcases ht with ht | ht
      · subst ht; trivial
      · exact ih hus t ht
    | neg a =>
      simp only [setFirstVal, List.mem_cons] at ht
      rcases ht with ht | ht
      · subst ht; exact h _ List.mem_cons_self
      · exact ih hus t ht
    | bin o a b =>
      simp only [setFirstVal, List.mem_cons] at ht
      rcases ht with ht | ht
      · subst ht; exact h _ List.mem_cons_self
      · exact ih hus t ht

theorem foldl_wf_plain {σ : Env} {o : Op} (h1 : o ≠ .divCeil) (h2 : o ≠ .broadcast) :
    ∀ (ts : List SymExpr) (acc : SymExpr), WF σ acc → (∀ t ∈ ts, WF σ t) →
      WF σ (ts.foldl (fun acc u => .bin o acc u) acc) := by
  intro ts
  induction ts with
  | nil => intro acc h _; simpa using h
  | cons u us ih =>
    intro acc hacc h
    simp only [List.foldl_cons]
    refine ih _ ⟨hacc, h u List.mem_cons_self, fun ho => absurd ho h1, fun ho => absurd ho h2⟩
      (fun t ht => h t (List.mem_cons_of_mem _ ht))

theorem reduce_wf_plain {σ : Env} {o : Op} (h1 : o ≠ .divCeil) (h2 : o ≠ .broadcast)
    {d : SymExpr} (hd : WF σ d) {ts : List SymExpr} (h : ∀ t ∈ ts, WF σ t) :
    WF σ (reduceOp o d ts) := by
  cases ts with
  | nil => simpa [reduceOp] using hd
  | cons t ts =>
    simp only [reduceOp]
    exact foldl_wf_plain h1 h2 ts t (h t List.mem_cons_self)
      (fun u hu => h u (List.mem_cons_of_mem _ hu))

theorem rcf_wf {σ : Env} {l r : SymExpr} (hl : WF σ l) (hr : WF σ r) :
    WF σ (rcf l r).1 ∧ WF σ (rcf l r).2 := by
  have hc1 : ∀ t ∈ (cancel (flatten .mul l) (flatten .mul r)).1, WF σ t :=
    fun t ht => flatten_wf .mul l hl t ((cancel_mem _ _).1 ht)
  have hc2 : ∀ t ∈ (cancel (flatten .mul l) (flatten .mul r)).2, WF σ t :=
    fun t ht => flatten_wf .mul r hr t ((cancel_mem _ _).2 ht)
  suffices hq : ∀ q : List SymExpr × List SymExpr, (∀ t ∈ q.1, WF σ t) → (∀ t ∈ q.2, WF σ t) →
      WF σ (reduceOp .mul (.value 1) q.1) ∧ WF σ (reduceOp .mul (.value 1) q.2) by
    unfold rcf
    simp only []
    apply hq
    all_goals (repeat' split) <;> first | exact hc1 | exact hc2 | exact setFirstVal_wf _ hc1 | exact setFirstVal_wf _ hc2
  intro q h1 h2
  exact ⟨reduce_wf_plain (by decide) (by decide) (wf_value σ _) h1,
    reduce_wf_plain (by decide) (by decide) (wf_value σ _) h2⟩

/-! ### Broadcast chains -/

/-- A well-formed operand whose value is `1` or `v`. -/
def BQ (σ : Env) (v : Int) (t : SymExpr) : Prop :=
  WF σ t ∧ ∃ w, ev σ t = .ok w ∧ (w = 1 ∨ w = v)

theorem flatten_bq {σ : Env} : ∀ (e : SymExpr) (v : Int), WF σ e → ev σ e = .ok v →
    ∀ t ∈ flatten .broadcast e, BQ σ v t := by
  intro e
  induction e with
  | value x => intro v h hv t ht; simp [flatten] at ht; subst ht; exact ⟨h, v, hv, .inr rfl⟩
  | var n p => intro v h hv t ht; simp [flatten] at ht; subst ht; exact ⟨h, v, hv, .inr rfl⟩
  | neg a _ => intro v h hv t ht; simp [flatten] at ht; subst ht; exact ⟨h, v, hv, .inr rfl⟩
  | bin o' a b iha ihb =>
    intro v h hv t ht
    unfold flatten at ht
    split at ht
    · rename_i ho; subst ho
      rw [ev_bin_ok'] at hv
      obtain ⟨x, y, hx, hy, -, rfl⟩ := hv
      have hc := h.2.2.2 rfl x y hx hy
      rw [List.mem_append] at ht
      simp only [opF, bcastI]
      rcases ht with ht | ht
      · obtain ⟨hw, w, hw1, hw2⟩ := iha x h.1 hx t ht
        refine ⟨hw, w, hw1, ?_⟩
        split <;> omega
      · obtain ⟨hw, w, hw1, hw2⟩ := ihb y h.2.1 hy t ht
        refine ⟨hw, w, hw1, ?_⟩
        split <;> omega
    · simp at ht; subst ht; exact ⟨h, v, hv, .inr rfl⟩

theorem foldl_wf_bcast {σ : Env} {v : Int} :
    ∀ (ts : List SymExpr) (acc : SymExpr), BQ σ v acc → (∀ t ∈ ts, BQ σ v t) →
      WF σ (ts.foldl (fun acc u => .bin .broadcast acc u) acc) := by
  intro ts
  induction ts with
  | nil => intro acc h _; simpa using h.1
  | cons u us ih =>
    intro acc hacc h
    simp only [List.foldl_cons]
    obtain ⟨hwa, x, hx, hxv⟩ := hacc
    obtain ⟨hwu, y, hy, hyv⟩ := h u List.mem_cons_self
    refine ih _ ⟨?_, opF .broadcast x y, ?_, ?_⟩
      (fun t ht => h t (List.mem_cons_of_mem _ ht))
    · refine ⟨hwa, hwu, ?_, ?_⟩
      · intro ho; cases ho
      · intro _ x' y' hx' hy'
        rw [hx] at hx'; rw [hy] at hy'
        simp at hx' hy'; subst hx' hy'
        omega
    · exact ev_bin_ok'.mpr ⟨x, y, hx, hy, by simp, rfl⟩
    · simp only [opF, bcastI]; split <;> omega

theorem reduce_wf_bcast {σ : Env} {v : Int} {d : SymExpr} (hd : WF σ d)
    {ts : List SymExpr} (h : ∀ t ∈ ts, BQ σ v t) : WF σ (reduceOp .broadcast d ts) := by
  cases ts with
  | nil => simpa [reduceOp] using hd
  | cons t ts =>
    simp only [reduceOp]
    exact foldl_wf_bcast ts t (h t List.mem_cons_self)
      (fun u hu => h u (List.mem_cons_of_mem _ hu))

/-! ### canonicalize keeps the side conditions -/

theorem canonF_wf (σ : Env) :
    ∀ (n : Nat) (e : SymExpr) (v : Int), WF σ e → ev σ e = .ok v → WF σ (canonF n e) := by
  intro n
  induction n with
  | zero => intro e v h _; simpa [canonF] using h
  | succ n ih =>
    intro e v hw hv
    -- the leaves of a flattened nest evaluate, so the induction hypothesis applies to them
    have leaves : ∀ (o : Op), o.ac = true → ∀ (a b : SymExpr), WF σ (.bin o a b) →
        ev σ (.bin o a b) = .ok v →
        ∀ t ∈ (flatten o (.bin o a b)).map (canonF n), WF σ t := by
      intro o ho a b hw hv t ht
      rw [List.mem_map] at ht
      obtain ⟨s, hs, rfl⟩ := ht
      obtain ⟨vs, hvs, -⟩ := flatten_ev (o := o) ho hv
      have hsw := flatten_wf o _ hw s hs
      have : ∃ w, ev σ s = .ok w := evL_mem hvs hs
      obtain ⟨w, hw'⟩ := this
      exact ih s w hsw hw'
    match e, hw, hv with
    | .value x, hw, hv => simpa [canonF] using hw
    | .var m p, hw, hv => simpa [canonF] using hw
    | .neg a, hw, hv =>
      rw [ev_neg_ok] at hv
      obtain ⟨x, hx, rfl⟩ := hv
      have := ih a x hw hx
      simp only [canonF]
      split
      · split <;> trivial
      · exact this
    | .bin .mul a b, hw, hv =>
      simp only [canonF]
      exact reduce_wf_plain (by decide) (by decide) (wf_value σ _)
        (fun t ht => leaves .mul rfl a b hw hv t (isort_mem.mp ht))
    | .bin .add a b, hw, hv =>
      simp only [canonF]
      exact reduce_wf_plain (by decide) (by decide) (wf_value σ _)
        (fun t ht => leaves .add rfl a b hw hv t (isort_mem.mp (removeAdjOppF_mem _ ht)))
    | .bin .max a b, hw, hv =>
      simp only [canonF]
      exact reduce_wf_plain (by decide) (by decide) (wf_value σ _)
        (fun t ht => leaves .max rfl a b hw hv t (isort_mem.mp (removeAdjEq_mem ht)))
    | .bin .min a b, hw, hv =>
      simp only [canonF]
      exact reduce_wf_plain (by decide) (by decide) (wf_value σ _)
        (fun t ht => leaves .min rfl a b hw hv t (isort_mem.mp (removeAdjEq_mem ht)))
    | .bin .broadcast a b, hw, hv =>
      simp only [canonF]
      refine reduce_wf_bcast (v := v) (wf_value σ _) ?_
      intro t ht
      have ht' := isort_mem.mp (removeAdjEq_mem ht)
      rw [List.mem_map] at ht'
      obtain ⟨s, hs, rfl⟩ := ht'
      obtain ⟨hsw, w, hw', hwv⟩ := flatten_bq _ v hw hv s hs
      exact ⟨ih s w hsw hw', w, canonF_sound σ n s w hw', hwv⟩
    | .bin .sub a b, hw, hv =>
      simp only [canonF]
      rw [ev_bin_ok'] at hv
      obtain ⟨x, y, hx, hy, -, rfl⟩ := hv
      refine ih _ (x + -y) ⟨ih a x hw.1 hx, ih b y hw.2.1 hy, by simp, by simp⟩ ?_
      rw [ev_bin_ok']
      refine ⟨x, -y, canonF_sound σ n a x hx, ?_, by simp, rfl⟩
      rw [ev_neg_ok]; exact ⟨y, canonF_sound σ n b y hy, rfl⟩
    | .bin .div a b, hw, hv =>
      simp only [canonF]
      rw [ev_bin_ok'] at hv
      obtain ⟨x, y, hx, hy, -, rfl⟩ := hv
      exact ⟨ih a x hw.1 hx, ih b y hw.2.1 hy, by simp, by simp⟩
    | .bin .divCeil a b, hw, hv =>
      simp only [canonF]
      rw [ev_bin_ok'] at hv
      obtain ⟨x, y, hx, hy, -, rfl⟩ := hv
      refine ⟨ih a x hw.1 hx, ih b y hw.2.1 hy, ?_, by simp⟩
      intro _ y' hy'
      rw [canonF_sound σ n b y hy] at hy'
      simp at hy'; subst hy'
      exact hw.2.2.1 rfl y hy

end RtenVerif.Sym
