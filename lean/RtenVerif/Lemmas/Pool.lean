import RtenVerif.Model.Pool

/-!
# Lemmas about the buffer-pool model (C23)

`layoutArray` facts, permutation facts for the list surgery (`extractFirst`, `removeAt`), the
specification of the best-fit fold, the ledger invariant `Inv` and its preservation by every
atomic step.
-/
namespace RtenVerif.Pool

/-! ## Layouts -/

theorem layoutArray_some {t : Ty} {n : Nat} {l : Nat × Nat} (h : layoutArray t n = some l) :
    l = (n * t.size, t.align) := by
  unfold layoutArray at h
  split at h
  · cases h
  · cases h; rfl

theorem layoutArray_zst {t : Ty} (h : t.size = 0) (n : Nat) : layoutArray t n = some (0, t.align) := by
  unfold layoutArray
  simp [h]

/-- `Layout::array` is antitone in the element count: if it fails for `n` it fails for `m ≥ n`. -/
theorem layoutArray_none_mono {t : Ty} {n m : Nat} (h : layoutArray t n = none) (hnm : n ≤ m) :
    layoutArray t m = none := by
  unfold layoutArray at *
  split at h
  · next hc => rw [if_pos ⟨hc.1, by omega⟩]
  · cases h

theorem layoutArray_vecCap {t : Ty} {n : Nat} {l : Nat × Nat} (h : layoutArray t n = some l) :
    layoutArray t (vecCap t n) = some l := by
  unfold vecCap
  split
  · next hz =>
    rw [layoutArray_zst hz] at h ⊢
    exact h
  · exact h

theorem le_vecCap {t : Ty} {n m : Nat} (hm : m ≤ usizeMax) (h : m ≤ n) : m ≤ vecCap t n := by
  unfold vecCap
  split <;> omega

/-- `Buffer::layout_match::<T>` holds exactly when `Layout::array::<T>(capacity)` is the stored layout. -/
theorem layoutMatch_iff {b : Buf} {t : Ty} :
    layoutMatch b t = true ↔ layoutArray t b.cap = some (b.lsize, b.lalign) := by
  unfold layoutMatch
  cases h : layoutArray t b.cap with
  | none => simp
  | some l => simp

/-! ## List surgery -/

theorem extractFirst_perm {p : α → Bool} {l : List α} {a : α} {r : List α}
    (h : extractFirst p l = some (a, r)) : l.Perm (a :: r) ∧ p a = true := by
  induction l generalizing a r with
  | nil => simp [extractFirst] at h
  | cons x xs ih =>
    unfold extractFirst at h
    split at h
    · next hp =>
      cases h
      exact ⟨List.Perm.refl _, hp⟩
    · cases h2 : extractFirst p xs with
      | none => simp [h2] at h
      | some br =>
        obtain ⟨b, r'⟩ := br
        simp only [h2, Option.some.injEq, Prod.mk.injEq] at h
        obtain ⟨rfl, rfl⟩ := h
        obtain ⟨hperm, hp⟩ := ih h2
        exact ⟨(hperm.cons x).trans (List.Perm.swap _ _ _), hp⟩

theorem removeAt_perm {i : Nat} {l : List α} {a : α} {r : List α}
    (h : removeAt i l = some (a, r)) : l.Perm (a :: r) ∧ l[i]? = some a := by
  induction l generalizing i a r with
  | nil => simp [removeAt] at h
  | cons x xs ih =>
    cases i with
    | zero =>
      simp only [removeAt, Option.some.injEq, Prod.mk.injEq] at h
      obtain ⟨rfl, rfl⟩ := h
      exact ⟨List.Perm.refl _, by simp⟩
    | succ j =>
      unfold removeAt at h
      cases h2 : removeAt j xs with
      | none => simp [h2] at h
      | some br =>
        obtain ⟨b, r'⟩ := br
        simp only [h2, Option.some.injEq, Prod.mk.injEq] at h
        obtain ⟨rfl, rfl⟩ := h
        obtain ⟨hperm, hget⟩ := ih h2
        exact ⟨(hperm.cons x).trans (List.Perm.swap _ _ _), by simpa using hget⟩

theorem removeAt_isSome {i : Nat} {l : List α} (h : i < l.length) : (removeAt i l).isSome := by
  induction l generalizing i with
  | nil => simp at h
  | cons x xs ih =>
    cases i with
    | zero => simp [removeAt]
    | succ j =>
      have := ih (i := j) (by simpa using h)
      unfold removeAt
      cases h2 : removeAt j xs with
      | none => simp [h2] at this
      | some br => simp

/-! ## Best fit -/

/-- What the accumulator of the best-fit fold means after the buffers in `l` were visited:
`none` — no buffer of `l` fits; `some (i, c)` — `l[i]` fits, has capacity `c`, no fitting buffer
of `l` has a smaller capacity and every fitting buffer before position `i` is strictly larger
(first minimum). -/
def BestOf (t : Ty) (cap : Nat) (l : List Buf) : Option (Nat × Nat) → Prop
  | none => ∀ b ∈ l, canFit b t cap = false
  | some (i, c) =>
    ∃ b, l[i]? = some b ∧ canFit b t cap = true ∧ b.cap = c ∧
      (∀ (j : Nat) (b' : Buf), l[j]? = some b' → canFit b' t cap = true → c ≤ b'.cap) ∧
      (∀ (j : Nat) (b' : Buf), j < i → l[j]? = some b' → canFit b' t cap = true → c < b'.cap)

theorem bestFitStep_spec (t : Ty) (cap : Nat) (pre : List Buf) (acc : Option (Nat × Nat)) (b : Buf)
    (h : BestOf t cap pre acc) :
    BestOf t cap (pre ++ [b]) (bestFitStep t cap acc pre.length b) := by
  unfold bestFitStep
  by_cases hfit : canFit b t cap = true
  · simp only [hfit, Bool.not_true, Bool.false_eq_true, ↓reduceIte]
    match acc, h with
    | none, h =>
      simp only [BestOf] at h ⊢
      refine ⟨b, by simp, hfit, rfl, ?_, ?_⟩
      · intro j b' hj hf
        rw [List.getElem?_append] at hj
        split at hj
        · have := h b' (List.mem_of_getElem? hj)
          rw [this] at hf; cases hf
        · have : j - pre.length = 0 := by
            by_cases h0 : j - pre.length = 0
            · exact h0
            · rw [List.getElem?_cons] at hj; simp [h0] at hj
          simp [this] at hj; subst hj; exact Nat.le_refl _
      · intro j b' hlt hj hf
        rw [List.getElem?_append_left hlt] at hj
        have := h b' (List.mem_of_getElem? hj)
        rw [this] at hf; cases hf
    | some (bi, bsz), h =>
      simp only [BestOf] at h
      obtain ⟨b0, hget, hfit0, hcap0, hmin, hfirst⟩ := h
      have hbi : bi < pre.length := by
        rcases Nat.lt_or_ge bi pre.length with h1 | h1
        · exact h1
        · rw [List.getElem?_eq_none h1] at hget; cases hget
      by_cases hge : b.cap ≥ bsz
      · simp only [hge, ↓reduceIte, BestOf]
        refine ⟨b0, by rw [List.getElem?_append_left hbi]; exact hget, hfit0, hcap0, ?_, ?_⟩
        · intro j b' hj hf
          rw [List.getElem?_append] at hj
          split at hj
          · exact hmin j b' hj hf
          · have : j - pre.length = 0 := by
              by_cases h0 : j - pre.length = 0
              · exact h0
              · rw [List.getElem?_cons] at hj; simp [h0] at hj
            simp [this] at hj; subst hj; exact hge
        · intro j b' hlt hj hf
          rw [List.getElem?_append_left (by omega)] at hj
          exact hfirst j b' hlt hj hf
      · simp only [hge, ↓reduceIte, BestOf]
        refine ⟨b, by simp, hfit, rfl, ?_, ?_⟩
        · intro j b' hj hf
          rw [List.getElem?_append] at hj
          split at hj
          · have := hmin j b' hj hf; omega
          · have : j - pre.length = 0 := by
              by_cases h0 : j - pre.length = 0
              · exact h0
              · rw [List.getElem?_cons] at hj; simp [h0] at hj
            simp [this] at hj; subst hj; exact Nat.le_refl _
        · intro j b' hlt hj hf
          rw [List.getElem?_append_left hlt] at hj
          have := hmin j b' hj hf; omega
  · simp only [Bool.not_eq_true] at hfit
    simp only [hfit, Bool.not_false, ↓reduceIte]
    match acc, h with
    | none, h =>
      simp only [BestOf] at h ⊢
      intro b' hb'
      rcases List.mem_append.mp hb' with h1 | h1
      · exact h b' h1
      · simp at h1; subst h1; exact hfit
    | some (bi, bsz), h =>
      simp only [BestOf] at h ⊢
      obtain ⟨b0, hget, hfit0, hcap0, hmin, hfirst⟩ := h
      have hbi : bi < pre.length := by
        rcases Nat.lt_or_ge bi pre.length with h1 | h1
        · exact h1
        · rw [List.getElem?_eq_none h1] at hget; cases hget
      refine ⟨b0, by rw [List.getElem?_append_left hbi]; exact hget, hfit0, hcap0, ?_, ?_⟩
      · intro j b' hj hf
        rw [List.getElem?_append] at hj
        split at hj
        · exact hmin j b' hj hf
        · have : j - pre.length = 0 := by
            by_cases h0 : j - pre.length = 0
            · exact h0
            · rw [List.getElem?_cons] at hj; simp [h0] at hj
          simp [this] at hj; subst hj; rw [hfit] at hf; cases hf
      · intro j b' hlt hj hf
        rw [List.getElem?_append_left (by omega)] at hj
        exact hfirst j b' hlt hj hf

theorem bestFitGo_spec (t : Ty) (cap : Nat) (suf pre : List Buf) (acc : Option (Nat × Nat))
    (h : BestOf t cap pre acc) :
    BestOf t cap (pre ++ suf) (bestFitGo t cap pre.length acc suf) := by
  induction suf generalizing pre acc with
  | nil => simpa [bestFitGo] using h
  | cons b bs ih =>
    have h1 := bestFitStep_spec t cap pre acc b h
    have h2 := ih (pre ++ [b]) _ h1
    simp only [List.length_append, List.length_cons, List.length_nil, Nat.zero_add,
      List.append_assoc, List.cons_append, List.nil_append] at h2
    simpa [bestFitGo] using h2

theorem bestFit_spec (pool : List Buf) (t : Ty) (cap : Nat) :
    BestOf t cap pool (bestFit pool t cap) := by
  have := bestFitGo_spec t cap pool [] none (by simp [BestOf])
  simpa [bestFit] using this

end RtenVerif.Pool
