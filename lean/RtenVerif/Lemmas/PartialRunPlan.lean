import RtenVerif.Lemmas.PartialRunPrune
import RtenVerif.Props.C03
/-!
# `partial_run`'s plan: what `create_plan` + `prune_plan` guarantee together
-/
namespace RtenVerif.PartialRun
open RtenVerif.Graph RtenVerif.Planner

/-- A request `create_plan` accepts is well-formed. -/
theorem argsOK_of_createPlan_ok {g : Graph} {ins outs plan : List Nat} {opts : PlanOptions}
    (h : createPlan g ins outs opts = .ok plan) : ArgsOK g ins outs := by
  obtain ⟨h1, h2, h3, h4⟩ := c03_argument_check g ins outs opts
  have a : outs.Nodup := by
    by_cases a : outs.Nodup
    · exact a
    · rw [h1 a] at h; cases h
  have b : ∀ o ∈ outs, isValueOrConstant g o = true := by
    by_cases b : ∀ o ∈ outs, isValueOrConstant g o = true
    · exact b
    · rw [h2 a b] at h; cases h
  have c : ins.Nodup := by
    by_cases c : ins.Nodup
    · exact c
    · rw [h3 a b c] at h; cases h
  have d : ∀ i ∈ ins, isValueOrConstant g i = true := by
    by_cases d : ∀ i ∈ ins, isValueOrConstant g i = true
    · exact d
    · rw [h4 a b c d] at h; cases h
  exact ⟨a, b, c, d⟩

/-- What `partialPlan` returns, unfolded. -/
theorem partialPlan_ok {g : Graph} {ins outs kept leaves : List Nat}
    (h : partialPlan g ins outs = .ok (kept, leaves)) :
    ∃ plan, createPlan g ins outs partialOpts = .ok plan ∧
      kept = (pruneFold g plan ins).kept ∧ leaves = newOutputs (pruneFold g plan ins) outs := by
  unfold partialPlan at h
  cases hc : createPlan g ins outs partialOpts with
  | error e => simp [hc] at h
  | ok plan =>
    simp only [hc, prunePlan] at h
    injection h with h
    injection h with h1 h2
    exact ⟨plan, rfl, h1.symm, h2.symm⟩

/-- The supplied ids are resolved (and candidates) from the start. -/
theorem ins_sub_resolved (g : Graph) (plan ins : List Nat) :
    (∀ v ∈ ins, v ∈ (pruneFold g plan ins).resolved) ∧ (∀ v ∈ ins, v ∈ (pruneFold g plan ins).cand) := by
  have := foldl_grows g plan (pruneInit ins)
  exact ⟨fun v hv => this.resolved v hv, fun v hv => this.cand v hv⟩

/-- An operator kept when the loop reaches it: its outputs are resolved from then on. -/
theorem kept_outputs_resolved {g : Graph} {pre mid ins : List Nat} {b : Nat} {op : OpNode}
    (hop : getOp g b = some op)
    (hp : prunedAt g (pruneFold g pre ins).resolved op = false) :
    ∀ v ∈ opOutputs op, v ∈ (pruneFold g (pre ++ b :: mid) ins).resolved := by
  rw [pruneFold_split]
  have hstep := pruneStep_kept (st := pruneFold g pre ins) hop hp
  have hgrow := foldl_grows g mid (pruneStep g (pruneFold g pre ins) b)
  intro v hv
  apply hgrow.resolved
  rw [hstep]
  exact List.mem_append_right _ hv

/-- With unique producers, the operator listing `v` as an output is its registered source. -/
theorem source_of_outsOf {g : Graph} (hu : UniqueProducer g) {q v : Nat} (h : v ∈ outsOf g q) :
    ∃ qop, getOp g q = some qop ∧ getSource g v = some (q, qop) := by
  unfold outsOf at h
  cases hq : getOp g q with
  | none => simp [hq] at h
  | some qop =>
    simp only [hq] at h
    have := hu q qop v hq h
    exact ⟨qop, rfl, by simp [getSource, this, hq]⟩

/-- A computable dependency of an operator of a valid plan is resolved when `prune_plan`
reaches that operator. -/
theorem computable_resolved_at {g : Graph} {plan ins outs : List Nat} (hu : UniqueProducer g)
    (hok : PlanOK g true ins outs plan) {pre post : List Nat} {b d : Nat} {op : OpNode}
    (hsplit : plan = pre ++ b :: post) (hop : getOp g b = some op) (hd : d ∈ opDeps g op)
    (hc : Computable g ins d) : rContains g (pruneFold g pre ins).resolved d = true := by
  induction hc generalizing pre post b op with
  | supplied h => exact rContains_of_mem ((ins_sub_resolved g pre ins).1 _ h)
  | const h => simp [rContains, h]
  | @op v p pop hpop hdet hcap _ hv ih =>
    obtain ⟨op', hop', hav⟩ := validIds_split hok.valid hsplit
    rw [hop] at hop'
    injection hop' with hop'
    subst hop'
    have hsrc : sourceOf g v = some p := hu p pop v hpop hv
    rcases hav v hd with hav | ⟨_, hav⟩
    · simp only [rContains, Bool.or_eq_true, List.contains_iff_mem, availAfter, List.mem_append,
        List.mem_flatMap] at hav
      rcases hav with (hav | ⟨q, hq, hvq⟩) | hav
      · exact rContains_of_mem ((ins_sub_resolved g pre ins).1 _ hav)
      · obtain ⟨qop, hqop, hs⟩ := source_of_outsOf hu hvq
        have hqp : q = p := by
          have := (getSource_spec hs).1
          rw [hsrc] at this
          injection this with this
          exact this.symm
        subst hqp
        obtain ⟨pre1, mid, hpre⟩ := List.append_of_mem hq
        have hsplit1 : plan = pre1 ++ q :: (mid ++ b :: post) := by rw [hsplit, hpre]; simp
        have hres : depsResolved g (pruneFold g pre1 ins).resolved pop = true := by
          rw [depsResolved_iff]
          intro d' hd'
          exact ih d' hd' hsplit1 hpop hd'
        have hpr : prunedAt g (pruneFold g pre1 ins).resolved pop = false := by
          simp [prunedAt, hdet, hres, hcap]
        rw [hpre]
        exact rContains_of_mem (kept_outputs_resolved hpop hpr v hv)
      · simp [rContains, hav]
    · rw [getSource_none_iff, hsrc] at hav; cases hav

/-- A value is *demanded* by the part of the plan that `prune_plan` cuts away: it is a requested
output, or a dependency of an operator that is pruned when the loop reaches it. -/
def Demanded (g : Graph) (plan ins outs : List Nat) (id : Nat) : Prop :=
  id ∈ outs ∨ ∃ pre b post op, plan = pre ++ b :: post ∧ getOp g b = some op ∧
    prunedAt g (pruneFold g pre ins).resolved op = true ∧ id ∈ opDeps g op

/-- A demanded value that is resolved from the start (supplied) is returned. -/
theorem demanded_supplied_returned {g : Graph} {plan ins outs : List Nat} {id : Nat}
    (hd : Demanded g plan ins outs id) (hin : id ∈ ins) (hc : isConstant g id = false) :
    id ∈ newOutputs (pruneFold g plan ins) outs := by
  rcases hd with ho | ⟨pre, b, post, op, rfl, hop, hp, hdep⟩
  · exact mem_newOutputs.mpr ⟨(ins_sub_resolved g plan ins).2 id hin, Or.inl ho⟩
  · exact pruned_input_returned hop hp hdep
      (rContains_of_mem ((ins_sub_resolved g pre ins).1 id hin)) hc

/-- **Separation step**: a demanded value that is neither supplied, nor a constant, nor returned,
is produced by an operator of the plan that is pruned when the loop reaches it — so that
operator's dependencies are demanded in turn. -/
theorem demanded_source_pruned {g : Graph} {plan ins outs : List Nat} {id p : Nat} {op : OpNode}
    (hu : UniqueProducer g) (hok : PlanOK g true ins outs plan)
    (hd : Demanded g plan ins outs id) (hin : id ∉ ins) (hc : isConstant g id = false)
    (hsrc : getSource g id = some (p, op))
    (hnot : id ∉ newOutputs (pruneFold g plan ins) outs) :
    ∃ pre post, plan = pre ++ p :: post ∧ getOp g p = some op ∧
      prunedAt g (pruneFold g pre ins).resolved op = true := by
  have hpop : getOp g p = some op := (getSource_spec hsrc).2.1
  -- where is `id` available from?
  have avail_cases : ∀ (pre : List Nat), Avail g true (availAfter g ins pre) id → p ∈ pre := by
    intro pre hav
    rcases hav with hav | ⟨_, hav⟩
    · simp only [rContains, Bool.or_eq_true, List.contains_iff_mem, hc, Bool.false_eq_true,
        or_false, availAfter, List.mem_append, List.mem_flatMap] at hav
      rcases hav with hav | ⟨q, hq, hv⟩
      · exact absurd hav hin
      · obtain ⟨qop, _, hs⟩ := source_of_outsOf hu hv
        rw [hsrc] at hs
        injection hs with hs
        injection hs with hs _
        rw [hs]; exact hq
    · rw [hsrc] at hav; cases hav
  rcases hd with ho | ⟨preb, b, postb, bop, hplan, hbop, hbp, hdep⟩
  · have hp : p ∈ plan := avail_cases plan (hok.outputs id ho)
    obtain ⟨pre, post, hsplit⟩ := List.append_of_mem hp
    refine ⟨pre, post, hsplit, hpop, ?_⟩
    cases hpr : prunedAt g (pruneFold g pre ins).resolved op with
    | true => rfl
    | false =>
      exfalso
      apply hnot
      rw [hsplit]
      exact mem_newOutputs.mpr ⟨(kept_at_step hpop hpr).2 id (getSource_spec hsrc).2.2, Or.inl ho⟩
  · obtain ⟨bop', hbop', hav⟩ := validIds_split hok.valid hplan
    rw [hbop] at hbop'
    injection hbop' with hbop'
    subst hbop'
    have hp : p ∈ preb := avail_cases preb (hav id hdep)
    obtain ⟨pre, mid, hsplit⟩ := List.append_of_mem hp
    refine ⟨pre, mid ++ b :: postb, by rw [hplan, hsplit]; simp, hpop, ?_⟩
    cases hpr : prunedAt g (pruneFold g pre ins).resolved op with
    | true => rfl
    | false =>
      exfalso
      apply hnot
      rw [hplan]
      have hres : id ∈ (pruneFold g preb ins).resolved := by
        rw [hsplit]
        exact kept_outputs_resolved hpop hpr id (getSource_spec hsrc).2.2
      exact pruned_input_returned hbop hbp hdep (rContains_of_mem hres) hc

end RtenVerif.PartialRun
