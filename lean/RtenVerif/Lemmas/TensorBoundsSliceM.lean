import RtenVerif.Lemmas.TensorBoundsSlice

/-! C06: the `slice_layout` fast path on wrap-around integers agrees with the ideal model for
resolved items with `start ≤ end ≤ size`. -/
namespace RtenVerif.TensorBounds
open RtenVerif.Overlap

namespace M

def viewToN (v : View) : TensorBounds.View := ⟨v.start.toNat, v.stop.toNat, toN v.dims⟩

theorem sliceLoopR_nil_items (ds : List (U × U)) : sliceLoopR ds [] = (0, ds) := by
  cases ds <;> rfl

theorem sliceLoopR_eq : ∀ (d : List (U × U)) (items : List RItem),
    ItemsOk (toN d) (items.map RItem.toN) →
    toN (sliceLoopR d items).2 = (TensorBounds.sliceLoopR (toN d) (items.map RItem.toN)).2 ∧
    (sliceLoopR d items).1.toNat =
      (TensorBounds.sliceLoopR (toN d) (items.map RItem.toN)).1 % wordSize := by
  intro d
  induction d with
  | nil => intro items _; cases items <;> exact ⟨rfl, rfl⟩
  | cons x xs ih =>
    obtain ⟨size, stride⟩ := x
    intro items hok
    cases items with
    | nil =>
      rw [sliceLoopR_nil_items]
      show toN ((size, stride) :: xs) = (TensorBounds.sliceLoopR (toN ((size, stride) :: xs)) []).2 ∧
        (0 : U).toNat = (TensorBounds.sliceLoopR (toN ((size, stride) :: xs)) []).1 % wordSize
      rw [TensorBounds.sliceLoopR_nil_items]
      exact ⟨rfl, rfl⟩
    | cons it its =>
      simp only [toN_cons, List.map_cons] at hok
      cases hok with
      | cons hit hrest =>
        obtain ⟨ih1, ih2⟩ := ih its hrest
        cases it with
        | pick p =>
          simp only [sliceLoopR, toN_cons, List.map_cons, RItem.toN, TensorBounds.sliceLoopR]
          refine ⟨ih1, ?_⟩
          rw [add_toNat, mul_toNat, ih2, Nat.mod_add_mod, Nat.add_mod_mod]
        | span s e =>
          simp only [RItem.toN, RItemOk] at hit
          simp only [sliceLoopR, toN_cons, List.map_cons, RItem.toN, TensorBounds.sliceLoopR]
          refine ⟨?_, ?_⟩
          · rw [ih1]
            have hse : s ≤ e := UInt64.le_iff_toNat_le.mpr hit.1
            rw [UInt64.toNat_sub_of_le _ _ hse, UInt64.mul_one]
          · rw [add_toNat, mul_toNat, ih2, Nat.mod_add_mod, Nat.add_mod_mod]
        | keep =>
          simp only [sliceLoopR, toN_cons, List.map_cons, RItem.toN, TensorBounds.sliceLoopR]
          exact ⟨by rw [ih1], ih2⟩

/-- **Machine slice = ideal slice** on a tensor whose largest offset fits `isize`, for resolved
items with `start ≤ end ≤ size` (what the current `resolve` produces): neither `end - start`,
nor the offset of a non-empty result, nor `offset + min_data_len` wraps. -/
theorem trySliceR_eq (d : List (U × U)) (n : U) (items : List RItem)
    (hfit : TensorBounds.maxOffset (toN d) < isizeMax)
    (hok : ItemsOk (toN d) (items.map RItem.toN)) :
    (trySliceR d n items).map viewToN =
      TensorBounds.trySliceR (toN d) n.toNat (items.map RItem.toN) := by
  obtain ⟨h1, h2⟩ := sliceLoopR_eq d items hok
  have hW := isizeMax_lt_W
  unfold trySliceR TensorBounds.trySliceR
  simp only []
  rw [← h1, ← hasZero_eq]
  cases hz : hasZero (sliceLoopR d items).2
  · -- non-empty result
    have hle := slice_maxOffset_le (toN d) (items.map RItem.toN) hok
      (by rw [← h1, ← hasZero_eq]; exact hz)
    rw [← h1] at hle
    have hoff : (sliceLoopR d items).1.toNat =
        (TensorBounds.sliceLoopR (toN d) (items.map RItem.toN)).1 := by
      rw [h2, Nat.mod_eq_of_lt]; omega
    rw [← hoff] at hle ⊢
    simp only [Bool.false_eq_true, if_false]
    have hm : (minDataLen (sliceLoopR d items).2).toNat =
        TensorBounds.minDataLen (toN (sliceLoopR d items).2) :=
      minDataLen_toNat _ (by omega)
    have hmv : TensorBounds.minDataLen (toN (sliceLoopR d items).2) =
        TensorBounds.maxOffset (toN (sliceLoopR d items).2) + 1 := by
      unfold TensorBounds.minDataLen; rw [← hasZero_eq, hz]; rfl
    have hsum : ((sliceLoopR d items).1 + minDataLen (sliceLoopR d items).2).toNat =
        (sliceLoopR d items).1.toNat + TensorBounds.minDataLen (toN (sliceLoopR d items).2) := by
      rw [add_toNat, hm, Nat.mod_eq_of_lt]; omega
    simp only [rangeValid, Bool.and_eq_true, decide_eq_true_eq, UInt64.le_iff_toNat_le, hsum]
    split
    · simp only [Option.map_some, viewToN, hsum]
    · rfl
  · -- empty result: offset reset to 0, nothing needed
    simp only [if_true]
    have hm0 : minDataLen (sliceLoopR d items).2 = 0 := by unfold minDataLen; rw [hz]; rfl
    have hm0' : TensorBounds.minDataLen (toN (sliceLoopR d items).2) = 0 := by
      unfold TensorBounds.minDataLen; rw [← hasZero_eq, hz]; rfl
    rw [hm0, hm0']
    have h00 : ((0 : U) + 0).toNat = 0 := rfl
    have h0 : (0 : U).toNat = 0 := rfl
    simp only [rangeValid, Bool.and_eq_true, decide_eq_true_eq, UInt64.le_iff_toNat_le, h00, h0,
      Nat.zero_le, and_self, if_true, Option.map_some, viewToN, Nat.add_zero]

end M
end RtenVerif.TensorBounds
