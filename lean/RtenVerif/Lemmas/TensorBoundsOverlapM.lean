import RtenVerif.Lemmas.TensorBoundsMachine

/-! C06/C08.T3: `may_have_internal_overlap` on wrap-around integers equals the ideal check
whenever the layout passed `checked_min_data_len`. -/
namespace RtenVerif.TensorBounds
open RtenVerif.Overlap

/-- `Σ (size-1)·stride` over `(stride, size)` pairs (the order used by the overlap check). -/
def sumSS : List (Nat × Nat) → Nat
  | [] => 0
  | (stride, size) :: rest => (size - 1) * stride + sumSS rest

theorem sumSS_perm {l l' : List (Nat × Nat)} (h : l.Perm l') : sumSS l = sumSS l' := by
  induction h with
  | nil => rfl
  | cons x _ ih => obtain ⟨a, b⟩ := x; simp only [sumSS, ih]
  | swap x y l => obtain ⟨a, b⟩ := x; obtain ⟨c, d⟩ := y; simp only [sumSS]; omega
  | trans _ _ ih1 ih2 => rw [ih1, ih2]

theorem sumSS_filter_le (dims : List (Nat × Nat)) :
    sumSS ((dims.filter (fun d => d.1 != 1)).map (fun d => (d.2, d.1))) ≤ maxOffset dims := by
  induction dims with
  | nil => simp [sumSS, maxOffset]
  | cons x xs ih =>
    obtain ⟨size, stride⟩ := x
    simp only [List.filter_cons, maxOffset]
    split
    · simp only [List.map_cons, sumSS]; omega
    · omega

theorem sumSS_sorted_le (dims : List (Nat × Nat)) :
    sumSS (Overlap.sortedStrideShape dims) ≤ maxOffset dims := by
  unfold Overlap.sortedStrideShape
  rw [sumSS_perm (isort_perm _ _)]
  exact sumSS_filter_le dims

theorem contigR_some_eq {dims : List (Nat × Nat)} {p : Nat} (h : contigR dims = some p) :
    p = prod (shapeOf dims) := by
  induction dims generalizing p with
  | nil => simp [contigR] at h; simp [shapeOf, prod, h]
  | cons d ds ih =>
    simp only [contigR] at h
    cases hc : contigR ds with
    | none => rw [hc] at h; simp [contigStep] at h
    | some q =>
      rw [hc] at h
      have hq := ih hc
      simp only [contigStep] at h
      simp only [shapeOf, List.map_cons, prod] at *
      split at h
      · next h1 => cases h; rw [h1, Nat.one_mul]; exact hq
      · split at h
        · cases h
        · cases h; rw [hq, Nat.mul_comm]

namespace M

def f (p : U × U) : Nat × Nat := (p.1.toNat, p.2.toNat)

theorem toN_eq_map (d : List (U × U)) : toN d = d.map f := rfl

theorem beq_eq (a b : U) : (a == b) = (a.toNat == b.toNat) := by
  by_cases h : a = b
  · subst h; simp
  · have h' : a.toNat ≠ b.toNat := fun h' => h (UInt64.toNat_inj.mp h')
    rw [beq_eq_false_iff_ne.mpr h, beq_eq_false_iff_ne.mpr h']

theorem bne_one_eq (a : U) : (a != 1) = (a.toNat != 1) := by
  simp only [bne, beq_eq]; rfl

theorem pairLe_eq : pairLe = fun a b => Overlap.pairLe (f a) (f b) := by
  funext a b
  simp only [pairLe, Overlap.pairLe, f, beq_eq]
  rfl

theorem filter_map_eq (d : List (U × U)) :
    ((d.filter (fun x => x.1 != 1)).map (fun x => (x.2, x.1))).map f =
      ((toN d).filter (fun x => x.1 != 1)).map (fun x => (x.2, x.1)) := by
  induction d with
  | nil => rfl
  | cons x xs ih =>
    cases hb : (x.1 != 1)
    · have hb' : (x.1.toNat != 1) = false := by rw [← bne_one_eq]; exact hb
      simp only [List.filter_cons, toN_cons, hb, hb', Bool.false_eq_true, if_false]
      exact ih
    · have hb' : (x.1.toNat != 1) = true := by rw [← bne_one_eq]; exact hb
      simp only [List.filter_cons, toN_cons, hb, hb', if_true, List.map_cons]
      rw [ih]; rfl

theorem sortedStrideShape_eq (d : List (U × U)) :
    (sortedStrideShape d).map f = Overlap.sortedStrideShape (toN d) := by
  unfold sortedStrideShape Overlap.sortedStrideShape
  rw [pairLe_eq, map_isort, filter_map_eq]

theorem contigR_eq (d : List (U × U)) (hz : hasZero d = false)
    (hp : TensorBounds.prod (TensorBounds.shapeOf (toN d)) < wordSize) :
    (contigR d).map UInt64.toNat = Overlap.contigR (toN d) := by
  induction d with
  | nil => rfl
  | cons x xs ih =>
    obtain ⟨size, stride⟩ := x
    simp only [hasZero, List.any_cons, Bool.or_eq_false_iff, beq_eq_false_iff_ne] at hz
    have hs : size.toNat ≠ 0 := fun h' => hz.1 ((eq_zero_iff _).mpr h')
    simp only [toN_cons, TensorBounds.shapeOf, List.map_cons, TensorBounds.prod] at hp
    have hp' : TensorBounds.prod (TensorBounds.shapeOf (toN xs)) < wordSize := by
      have : TensorBounds.prod (TensorBounds.shapeOf (toN xs)) ≤
          size.toNat * TensorBounds.prod (TensorBounds.shapeOf (toN xs)) :=
        Nat.le_mul_of_pos_left _ (by omega)
      exact Nat.lt_of_le_of_lt this hp
    have ih := ih (by simpa [hasZero] using hz.2) hp'
    simp only [contigR, toN_cons, Overlap.contigR]
    cases hc : contigR xs with
    | none => rw [hc] at ih; rw [← ih]; rfl
    | some p =>
      rw [hc] at ih
      simp only [Option.map_some] at ih
      rw [← ih]
      have hpe := contigR_some_eq ih.symm
      simp only [contigStep, Overlap.contigStep]
      by_cases h1 : size = 1
      · have : size.toNat = 1 := (eq_one_iff _).mp h1
        simp [h1]
      · have h1' : size.toNat ≠ 1 := fun h' => h1 ((eq_one_iff _).mpr h')
        simp only [h1, h1', if_false]
        by_cases h2 : stride = p
        · subst h2
          simp only [ne_eq, not_true_eq_false, if_false, Option.map_some]
          rw [mul_toNat, Nat.mod_eq_of_lt]
          rw [hpe, Nat.mul_comm]; exact hp
        · have h2' : stride.toNat ≠ p.toNat := fun h' => h2 (UInt64.toNat_inj.mp h')
          simp [h2, h2']

theorem stepsOver_eq (l : List (U × U)) (m : U) (hz : ∀ p ∈ l, p.2 ≠ 0)
    (hb : m.toNat + sumSS (l.map f) < wordSize) :
    (stepsOver m l).map UInt64.toNat = Overlap.stepsOver m.toNat (l.map f) := by
  induction l generalizing m with
  | nil => rfl
  | cons x xs ih =>
    obtain ⟨stride, size⟩ := x
    have hs : size ≠ 0 := hz (stride, size) (by simp)
    simp only [List.map_cons, f, sumSS] at hb
    simp only [stepsOver, List.map_cons, f, Overlap.stepsOver, UInt64.le_iff_toNat_le]
    by_cases hle : stride.toNat ≤ m.toNat
    · rw [if_pos hle, if_pos hle]; rfl
    · rw [if_neg hle, if_neg hle]
      have hterm : ((size - 1) * stride).toNat = (size.toNat - 1) * stride.toNat := by
        rw [mul_toNat, pred_toNat hs, Nat.mod_eq_of_lt (by omega)]
      have hm : (m + (size - 1) * stride).toNat = m.toNat + (size.toNat - 1) * stride.toNat := by
        rw [add_toNat, hterm, Nat.mod_eq_of_lt (by omega)]
      rw [ih _ (fun p hp => hz p (by simp [hp])) (by rw [hm]; omega), hm]

/-- **Machine overlap check = ideal overlap check** for layouts that pass
`checked_min_data_len`. -/
theorem mayOverlap_eq (d : List (U × U))
    (h1 : prodNZ (TensorBounds.shapeOf (toN d)) ≤ isizeMax)
    (h2 : TensorBounds.maxOffset (toN d) < isizeMax) :
    mayOverlap d = Overlap.mayOverlap (toN d) := by
  unfold mayOverlap Overlap.mayOverlap
  have hz : (d.any fun x => x.1 == 0) = ((toN d).any fun x => x.1 == 0) := hasZero_eq d
  rw [← hz]
  cases hzz : (d.any fun x => x.1 == 0)
  · simp only [Bool.false_eq_true, if_false]
    have hzn : anyZero (TensorBounds.shapeOf (toN d)) = false := by
      rw [← hasZero_eq_anyZero, ← hasZero_eq]; exact hzz
    have hp : TensorBounds.prod (TensorBounds.shapeOf (toN d)) < wordSize := by
      rw [prod_of_noZero hzn]
      have := isizeMax_lt_W; omega
    have hc : isContiguous d = Overlap.isContiguous (toN d) := by
      rw [isContiguous_eq]
      unfold isContiguous
      rw [← contigR_eq d hzz hp, Option.isSome_map]
    rw [hc]
    split
    · rfl
    · have hnz : ∀ p ∈ sortedStrideShape d, p.2 ≠ 0 := by
        intro p hp
        unfold sortedStrideShape at hp
        have hp := (isort_perm _ _).mem_iff.mp hp
        simp only [List.mem_map, List.mem_filter] at hp
        obtain ⟨x, ⟨hx, _⟩, rfl⟩ := hp
        intro h0
        have : (d.any fun x => x.1 == 0) = true := by
          rw [List.any_eq_true]
          exact ⟨x, hx, by simpa using h0⟩
        rw [hzz] at this; cases this
      have hb : (0 : U).toNat + sumSS ((sortedStrideShape d).map f) < wordSize := by
        rw [sortedStrideShape_eq]
        have := sumSS_sorted_le (toN d)
        have := isizeMax_lt_W
        have : (0 : U).toNat = 0 := rfl
        omega
      have := stepsOver_eq (sortedStrideShape d) 0 hnz hb
      rw [sortedStrideShape_eq] at this
      have h0 : (0 : U).toNat = 0 := rfl
      rw [h0] at this
      rw [← this]
      cases stepsOver 0 (sortedStrideShape d) <;> rfl
  · rfl

end M
end RtenVerif.TensorBounds
