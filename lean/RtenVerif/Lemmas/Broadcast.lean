import RtenVerif.Lemmas.Layout
import RtenVerif.Lemmas.Gather

/-! C09: `broadcast_strides` / `can_broadcast_to` refine NumPy's `broadcast_to`. -/
namespace RtenVerif.Layout
open RtenVerif.Arr RtenVerif.Overlap

theorem offset_zip_zero (tp ip : List Nat) :
    offset (List.zip tp (List.replicate tp.length 0)) ip = 0 := by
  induction tp generalizing ip with
  | nil => cases ip <;> simp [offset]
  | cons a as ih =>
    cases ip with
    | nil => simp [offset, List.replicate_succ]
    | cons i is => simp [offset, List.replicate_succ, ih is]

/-- The aligned (non-padding) part of a broadcast. -/
theorem bc_core (d : Dims) (tr ir : List Nat) (hlen : tr.length = d.length)
    (hcb : (List.zip (sizes d) tr).all (fun (a, b) => a == b || a == 1) = true)
    (hv : validIdx tr ir = true) :
    validIdx (sizes d) (List.zipWith (fun n i => if n == 1 then 0 else i) (sizes d) ir) = true ∧
    offset (List.zip tr (List.zipWith
      (fun (p : Nat × Nat) t => if p.1 == 1 && decide (t > 1) then 0 else p.2) d tr)) ir =
      offset d (List.zipWith (fun n i => if n == 1 then 0 else i) (sizes d) ir) := by
  induction d generalizing tr ir with
  | nil =>
    cases tr with
    | nil => cases ir <;> simp_all [validIdx, sizes, offset]
    | cons a as => simp at hlen
  | cons p ds ih =>
    obtain ⟨n, st⟩ := p
    cases tr with
    | nil => simp at hlen
    | cons tt ts =>
      cases ir with
      | nil => simp [validIdx] at hv
      | cons i is =>
        simp only [validIdx, Bool.and_eq_true, decide_eq_true_eq] at hv
        simp only [sizes, List.map_cons, List.zip_cons_cons, List.all_cons, Bool.and_eq_true,
          Bool.or_eq_true, beq_iff_eq] at hcb
        have hlen' : ts.length = ds.length := by simpa using hlen
        obtain ⟨h1, h2⟩ := ih ts is hlen' (by simpa [sizes] using hcb.2) hv.2
        simp only [sizes] at h1 h2
        have hnt : n = 1 ∨ n = tt := by
          rcases hcb.1 with h | h
          · exact Or.inr h
          · exact Or.inl h
        refine ⟨?_, ?_⟩
        · simp only [sizes, List.map_cons, List.zipWith_cons_cons, validIdx, h1, Bool.and_true,
            decide_eq_true_eq]
          by_cases hn : n = 1
          · subst hn; simp
          · have : (n == 1) = false := by simp [hn]
            rw [this]
            simp only [Bool.false_eq_true, if_false]
            omega
        · simp only [List.zipWith_cons_cons, List.zip_cons_cons, offset, sizes, List.map_cons]
          rw [h2]
          congr 1
          by_cases hn : n = 1
          · subst hn
            by_cases ht : tt > 1
            · simp [ht]
            · have : i = 0 := by omega
              simp [this]
          · have : (n == 1) = false := by simp [hn]
            rw [this]
            simp

/-! ### storage needed by a broadcast view -/

theorem bc_sum (d : Dims) (tr : List Nat) (hlen : tr.length = d.length)
    (hcb : (List.zip (sizes d) tr).all (fun (a, b) => a == b || a == 1) = true) :
    ((List.zip tr (List.zipWith
      (fun (p : Nat × Nat) t => if p.1 == 1 && decide (t > 1) then 0 else p.2) d tr)).map
        (fun p => (p.1 - 1) * p.2)).sum = (d.map (fun p => (p.1 - 1) * p.2)).sum ∧
    (numel tr ≠ 0 → numelD d ≠ 0) := by
  induction d generalizing tr with
  | nil =>
    cases tr with
    | nil => simp [numelD, sizes, numel]
    | cons a as => simp at hlen
  | cons p ds ih =>
    obtain ⟨n, st⟩ := p
    cases tr with
    | nil => simp at hlen
    | cons tt ts =>
      simp only [sizes, List.map_cons, List.zip_cons_cons, List.all_cons, Bool.and_eq_true,
        Bool.or_eq_true, beq_iff_eq] at hcb
      have hlen' : ts.length = ds.length := by simpa using hlen
      obtain ⟨h1, h2⟩ := ih ts hlen' (by simpa [sizes] using hcb.2)
      refine ⟨?_, ?_⟩
      · simp only [List.zipWith_cons_cons, List.zip_cons_cons, List.map_cons, List.sum_cons, h1]
        congr 1
        by_cases hn : n = 1
        · subst hn
          by_cases ht : tt > 1
          · simp [ht]
          · have : tt - 1 = 0 := by omega
            simp [this]
        · have hnt : n = tt := by
            rcases hcb.1 with h | h
            · exact h
            · exact absurd h hn
          have : (n == 1) = false := by simp [hn]
          rw [this, hnt]
          simp
      · intro hne
        simp only [numel, List.foldr_cons] at hne
        have htt : tt ≠ 0 := fun h => hne (by simp [h])
        have hts : numel ts ≠ 0 := fun h => hne (by simp only [numel] at h; simp [h])
        rw [numelD_cons]
        refine Nat.mul_ne_zero ?_ (h2 hts)
        rcases hcb.1 with h | h <;> omega

theorem sum_zip_zero (tp : List Nat) :
    ((List.zip tp (List.replicate tp.length 0)).map (fun p => (p.1 - 1) * p.2)).sum = 0 := by
  induction tp with
  | nil => rfl
  | cons a as ih => simp [List.replicate_succ, ih]

theorem numel_append (a b : List Nat) : numel (a ++ b) = numel a * numel b := by
  induction a with
  | nil => simp [numel]
  | cons x xs ih =>
    simp only [numel, List.cons_append, List.foldr_cons] at ih ⊢
    rw [ih, Nat.mul_assoc]

end RtenVerif.Layout
