import RtenVerif.Lemmas.ExecutorInv
import RtenVerif.Lemmas.ExecutorSim
/-!
# C02 — bookkeeping invariants that hold with any capture environment

Runs of subgraph bodies (`If` branches, `Loop` bodies) execute `run_plan` with a capture
environment: values of the enclosing scope, some of them passed by value (takeable).  The
refinement theorem T3 is stated for runs without captures; the lemmas here establish the
counter invariant (T1), "removed only when dead" (T2) and the kind of what `temp_values` holds
(T4) for **every** capture environment.
-/
namespace RtenVerif.Executor
open RtenVerif.Graph

/-- Relation between the state before and after a take phase on one map entry: unchanged, or
removed while its counter was 1 and `x` is one of the ids in `ids`. -/
def Rem {β : Type} (rc : Nat → Nat) (ids : List Nat) (before after : Option β) (x : Nat) : Prop :=
  after = before ∨ (after = none ∧ rc x = 1 ∧ x ∈ ids)

theorem Rem.mono {β : Type} {rc : Nat → Nat} {ids ids' : List Nat} {b a : Option β} {x : Nat}
    (h : Rem rc ids b a x) (hs : ∀ y ∈ ids, y ∈ ids') : Rem rc ids' b a x := by
  rcases h with h | ⟨h1, h2, h3⟩
  · exact Or.inl h
  · exact Or.inr ⟨h1, h2, hs x h3⟩

theorem Rem.trans {β : Type} {rc : Nat → Nat} {ids : List Nat} {a b c : Option β} {x : Nat}
    (h1 : Rem rc ids a b x) (h2 : Rem rc ids b c x) : Rem rc ids a c x := by
  rcases h2 with h2 | h2
  · rw [h2]; exact h1
  · exact Or.inr h2

theorem takeValue_gen {V : Type} (r : Run V) (st : St V) (id : Nat) :
    (takeValue r st id).1.rc = st.rc ∧
      (∀ x, Rem st.rc [id] (st.temps x) ((takeValue r st id).1.temps x) x) ∧
      (∀ x, Rem st.rc [id] (st.caps x) ((takeValue r st id).1.caps x) x) := by
  unfold takeValue
  split
  · rename_i hrc
    split
    · refine ⟨rfl, ?_, fun x => Or.inl rfl⟩
      intro x
      simp only [upd_apply]
      by_cases hx : x = id
      · subst hx; right; simp [hrc]
      · left; simp [hx]
    · split
      · split
        · refine ⟨rfl, fun x => Or.inl rfl, ?_⟩
          intro x
          simp only [upd_apply]
          by_cases hx : x = id
          · subst hx; right; simp [hrc]
          · left; simp [hx]
        · exact ⟨rfl, fun x => Or.inl rfl, fun x => Or.inl rfl⟩
      · exact ⟨rfl, fun x => Or.inl rfl, fun x => Or.inl rfl⟩
  · exact ⟨rfl, fun x => Or.inl rfl, fun x => Or.inl rfl⟩

theorem takeAll_gen {V : Type} (r : Run V) :
    ∀ (cs : List (Nat × Nat)) (st st' : St V) (tk : List (Nat × V)),
      takeAll r st cs = some (st', tk) →
      st'.rc = st.rc ∧
        (∀ x, Rem st.rc (cs.map (fun c => c.2)) (st.temps x) (st'.temps x) x) ∧
        (∀ x, Rem st.rc (cs.map (fun c => c.2)) (st.caps x) (st'.caps x) x) := by
  intro cs
  induction cs with
  | nil =>
    intro st st' tk h
    simp only [takeAll, Option.some.injEq, Prod.mk.injEq] at h
    obtain ⟨rfl, _⟩ := h
    exact ⟨rfl, fun x => Or.inl rfl, fun x => Or.inl rfl⟩
  | cons c cs ih =>
    intro st st' tk h
    obtain ⟨pos, id⟩ := c
    simp only [takeAll] at h
    obtain ⟨g1, g2, g3⟩ := takeValue_gen r st id
    cases htv : takeValue r st id with
    | mk st1 ov =>
      rw [htv] at h g1 g2 g3
      cases ov with
      | none => simp at h
      | some v =>
        simp only at h g1 g2 g3
        cases hta : takeAll r st1 cs with
        | none => simp [hta] at h
        | some p =>
          obtain ⟨st2, tk2⟩ := p
          simp only [hta, Option.some.injEq, Prod.mk.injEq] at h
          obtain ⟨rfl, _⟩ := h
          obtain ⟨i1, i2, i3⟩ := ih st1 st2 tk2 hta
          rw [g1] at i2 i3
          refine ⟨by rw [i1, g1], ?_, ?_⟩
          · intro x
            exact ((g2 x).mono (by simp)).trans ((i2 x).mono (by
              intro y hy; simp only [List.map_cons, List.mem_cons]; exact Or.inr hy))
          · intro x
            exact ((g3 x).mono (by simp)).trans ((i3 x).mono (by
              intro y hy; simp only [List.map_cons, List.mem_cons]; exact Or.inr hy))

theorem takeByValue_gen {V : Type} (r : Run V) :
    ∀ (ds : List Nat) (st : St V),
      (takeByValue r st ds).1.rc = st.rc ∧
        (∀ x, Rem st.rc ds (st.temps x) ((takeByValue r st ds).1.temps x) x) ∧
        (∀ x, Rem st.rc ds (st.caps x) ((takeByValue r st ds).1.caps x) x) := by
  intro ds
  induction ds with
  | nil => intro st; exact ⟨rfl, fun x => Or.inl rfl, fun x => Or.inl rfl⟩
  | cons d ds ih =>
    intro st
    obtain ⟨g1, g2, g3⟩ := takeValue_gen r st d
    simp only [takeByValue]
    cases htv : takeValue r st d with
    | mk st1 ov =>
      rw [htv] at g1 g2 g3
      simp only at g1 g2 g3
      obtain ⟨i1, i2, i3⟩ := ih st1
      rw [g1] at i2 i3
      have key : (takeByValue r st1 ds).1.rc = st.rc ∧
          (∀ x, Rem st.rc (d :: ds) (st.temps x) ((takeByValue r st1 ds).1.temps x) x) ∧
          (∀ x, Rem st.rc (d :: ds) (st.caps x) ((takeByValue r st1 ds).1.caps x) x) := by
        refine ⟨by rw [i1, g1], ?_, ?_⟩
        · intro x
          exact ((g2 x).mono (by simp)).trans ((i2 x).mono (by
            intro y hy; exact List.mem_cons_of_mem _ hy))
        · intro x
          exact ((g3 x).mono (by simp)).trans ((i3 x).mono (by
            intro y hy; exact List.mem_cons_of_mem _ hy))
      cases ov with
      | none => exact key
      | some v => exact key

/-- The take phase of a completed step, for any capture environment: entries of
`temp_values` and of the capture environment are untouched, or removed while their counter
was 1 and they are a dependency of the operator. -/
theorem take_phase_gen {V : Type} {ops : Ops V} {r : Run V} {st st' : St V} {i : Nat} {tr : StepTrace}
    (P : StepParts ops r st st' i tr) :
    P.st2.rc = st.rc ∧
      (∀ x, Rem st.rc (opDeps r.g P.op) (st.temps x) (P.st2.temps x) x) ∧
      (∀ x, Rem st.rc (opDeps r.g P.op) (st.caps x) (P.st2.caps x) x) := by
  have htake := P.htake
  have hbv := P.hbyval
  have h1 : P.st1.rc = st.rc ∧
      (∀ x, Rem st.rc (opDeps r.g P.op) (st.temps x) (P.st1.temps x) x) ∧
      (∀ x, Rem st.rc (opDeps r.g P.op) (st.caps x) (P.st1.caps x) x) := by
    by_cases hcond : (!(candidates ops i P.op st.temps).isEmpty &&
        (candidates ops i P.op st.temps).all (fun c => canTake r st c.2) && !r.neverInPlace) = true
    · rw [if_pos hcond] at htake
      obtain ⟨a, b, c⟩ := takeAll_gen r _ _ _ _ htake
      have hsub : ∀ y ∈ (candidates ops i P.op st.temps).map (fun c => c.2), y ∈ opDeps r.g P.op := by
        intro y hy
        rw [List.mem_map] at hy
        obtain ⟨c, hc, rfl⟩ := hy
        rw [opDeps_eq]
        exact List.mem_append_left _ (mem_opInputs (candidates_spec hc).1)
      exact ⟨a, fun x => (b x).mono hsub, fun x => (c x).mono hsub⟩
    · rw [if_neg hcond] at htake
      simp only [Option.some.injEq, Prod.mk.injEq] at htake
      rw [← htake.1]
      exact ⟨rfl, fun x => Or.inl rfl, fun x => Or.inl rfl⟩
  obtain ⟨a1, b1, c1⟩ := h1
  by_cases hsub : ops.isSubgraph i = true
  · rw [if_pos hsub] at hbv
    obtain ⟨a, b, c⟩ := takeByValue_gen r (capDeps r.g P.op) P.st1
    rw [hbv] at a b c
    simp only at a b c
    rw [a1] at b c
    have hs : ∀ y ∈ capDeps r.g P.op, y ∈ opDeps r.g P.op := by
      intro y hy; rw [opDeps_eq]; exact List.mem_append_right _ hy
    exact ⟨by rw [a, a1], fun x => (b1 x).trans ((b x).mono hs), fun x => (c1 x).trans ((c x).mono hs)⟩
  · rw [if_neg hsub] at hbv
    simp only [Prod.mk.injEq] at hbv
    rw [← hbv.1]
    exact ⟨a1, b1, c1⟩

/-- **T2 with captures (step form).** Whatever a completed step removes from `temp_values`
or takes out of the capture environment has no use left — in the rest of the plan or among
the requested outputs. -/
theorem step_removes_only_dead {V : Type} {ops : Ops V} {r : Run V} {st st' : St V} {i : Nat}
    {tr : StepTrace} {total : Nat → Nat} {rest outs : List Nat} (hf : r.fixed = true)
    (h : step ops r st i = .ok (st', tr)) (hb : RcBounded st.rc)
    (hinv : RcInv r.g total (i :: rest) outs st.rc) (x : Nat) (hx : isValue r.g x = true)
    (hrem : (st.temps x ≠ none ∧ st'.temps x = none) ∨ (st.caps x ≠ none ∧ st'.caps x = none)) :
    uses r.g rest outs x = 0 := by
  obtain ⟨P⟩ := step_parts h
  obtain ⟨hrc2, ht, hc⟩ := take_phase_gen P
  have hrc' := RcInv.step h hb hinv
  have hb2 : RcBounded P.st2.rc := by rw [hrc2]; exact hb
  have hst' : (releaseLoop r { P.st2 with temps := P.temps3 } (opDeps r.g P.op)).1 = st' := by
    rw [P.hrel]
  -- a removal during the take phase means the counter was 1 and `x` is a dependency
  have dead_of_take : st.rc x = 1 → x ∈ opDeps r.g P.op → uses r.g rest outs x = 0 := by
    intro h1 hmem
    obtain ⟨e, _⟩ := hinv x hx
    rw [h1, uses_cons P.hop rest outs x hx] at e
    have := List.count_pos_iff.mpr hmem
    split at e <;> omega
  rcases hrem with ⟨hne, hnone⟩ | ⟨hne, hnone⟩
  · have hrl := releaseLoop_temps r { P.st2 with temps := P.temps3 } (opDeps r.g P.op) x hb2
    rw [hst'] at hrl
    rcases hrl with hrl | ⟨_, h0, _⟩
    · -- not released: gone already after the store, hence after the take phase
      have hrl' : st'.temps x = P.temps3 x := hrl
      have h3 : P.temps3 x = none := by rw [← hrl']; exact hnone
      have hs := storeOutputs_apply r hf P.st2.temps P.op.outputs P.outs x
      rw [P.hstore] at hs
      simp only at hs
      rw [h3] at hs
      have h2 : P.st2.temps x = none := by
        by_cases hin : r.isInput x = true
        · rw [if_pos hin] at hs; exact hs.symm
        · rw [if_neg hin, naiveStore_apply] at hs
          cases hw : naiveStore (fun _ => none) P.op.outputs P.outs x with
          | some w => rw [hw] at hs; simp at hs
          | none => rw [hw] at hs; exact hs.symm
      rcases ht x with e | ⟨_, e1, e2⟩
      · rw [h2] at e; exact absurd e.symm hne
      · exact dead_of_take e1 e2
    · obtain ⟨e, _⟩ := hrc' x hx
      rw [h0] at e
      split at e <;> omega
  · have hcaps : st'.caps = P.st2.caps := by
      have := releaseLoop_caps r { P.st2 with temps := P.temps3 } (opDeps r.g P.op)
      rw [hst'] at this; exact this
    rw [hcaps] at hnone
    rcases hc x with e | ⟨_, e1, e2⟩
    · rw [hnone] at e; exact absurd e.symm hne
    · exact dead_of_take e1 e2

/-- What `temp_values` may hold: value nodes that were not supplied as views. -/
def TempsKind {V : Type} (r : Run V) (st : St V) : Prop :=
  ∀ x, st.temps x ≠ none → isValue r.g x = true ∧ isConstant r.g x = false ∧ r.borrowed x = none

theorem TempsKind.step {V : Type} {ops : Ops V} {r : Run V} {st st' : St V} {i : Nat}
    {tr : StepTrace} (hwf : WF r) (h : step ops r st i = .ok (st', tr)) (hb : RcBounded st.rc)
    (hk : TempsKind r st) : TempsKind r st' := by
  obtain ⟨P⟩ := step_parts h
  obtain ⟨hrc2, ht, _⟩ := take_phase_gen P
  have hb2 : RcBounded P.st2.rc := by rw [hrc2]; exact hb
  have hst' : (releaseLoop r { P.st2 with temps := P.temps3 } (opDeps r.g P.op)).1 = st' := by
    rw [P.hrel]
  intro x hx
  have h3 : P.temps3 x ≠ none := by
    have hrl := releaseLoop_temps r { P.st2 with temps := P.temps3 } (opDeps r.g P.op) x hb2
    rw [hst'] at hrl
    rcases hrl with hrl | ⟨hn, _⟩
    · have hrl' : st'.temps x = P.temps3 x := hrl
      rw [← hrl']; exact hx
    · exact absurd hn hx
  have hs := storeOutputs_apply r hwf.fixed P.st2.temps P.op.outputs P.outs x
  rw [P.hstore] at hs
  simp only at hs
  have from2 : P.st2.temps x ≠ none → isValue r.g x = true ∧ isConstant r.g x = false ∧
      r.borrowed x = none := by
    intro h2
    apply hk x
    rcases ht x with e | ⟨e, _⟩
    · rw [← e]; exact h2
    · exact absurd e h2
  by_cases hin : r.isInput x = true
  · rw [if_pos hin] at hs
    exact from2 (by rw [← hs]; exact h3)
  · rw [if_neg hin, naiveStore_apply] at hs
    cases hw : naiveStore (fun _ => none) P.op.outputs P.outs x with
    | some w =>
      have hv := hwf.outsValue i P.op P.hop x (naiveStore_none_mem _ _ _ _ hw)
      have hin' : r.isInput x = false := by simpa using hin
      exact ⟨hv, isValue_not_const hv, (isInput_false hin').1⟩
    | none =>
      rw [hw] at hs
      simp only at hs
      exact from2 (by rw [← hs]; exact h3)

/-- The invariants along the plan loop, for any capture environment. -/
theorem runSteps_caps_inv {V : Type} {ops : Ops V} {r : Run V} {total : Nat → Nat}
    {outs : List Nat} (hwf : WF r) (rest : List Nat) :
    ∀ (pre : List Nat) (st st' : St V), RcBounded st.rc →
      RcInv r.g total (pre ++ rest) outs st.rc → TempsKind r st →
      (runSteps ops r st pre).1 = .ok st' →
      RcBounded st'.rc ∧ RcInv r.g total rest outs st'.rc ∧ TempsKind r st' := by
  intro pre
  induction pre with
  | nil =>
    intro st st' hb hi hk h
    simp only [runSteps, Except.ok.injEq] at h
    subst h; exact ⟨hb, hi, hk⟩
  | cons i is ih =>
    intro st st' hb hi hk h
    simp only [runSteps] at h
    cases hs : step ops r st i with
    | error e => simp [hs] at h
    | ok p =>
      obtain ⟨st1, tr⟩ := p
      simp only [hs] at h
      exact ih st1 st' (step_rcBounded ops r st st1 i tr hs hb) (RcInv.step hs hb hi)
        (TempsKind.step hwf hs hb hk) h

end RtenVerif.Executor
