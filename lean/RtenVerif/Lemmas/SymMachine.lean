import RtenVerif.Lemmas.SymRange

/-! Relations between the ideal, overflow-checked and wrapping evaluators (C11). -/
set_option linter.unusedSimpArgs false
namespace RtenVerif.Sym

theorem wrap32_id {x : Int} (h1 : I32MIN ≤ x) (h2 : x ≤ I32MAX) : wrap32 x = x := by
  unfold wrap32 I32MIN I32MAX at *; omega

/-- If every result arithmetic `A` delivers is also delivered by `B`, a successful
`A`-evaluation is a successful `B`-evaluation with the same value. -/
theorem eval_mono {A B : Arith} (hn : ∀ x y, A.norm x = some y → B.norm x = some y)
    (hd : ∀ x y, A.normDiv x = some y → B.normDiv x = some y) (σ : Env) :
    ∀ (e : SymExpr) (v : Int), eval A σ e = .ok v → eval B σ e = .ok v := by
  have hl : ∀ (f g : Int → Option Int), (∀ x y, f x = some y → g x = some y) →
      ∀ z v, lift (f z) = .ok v → lift (g z) = .ok v := by
    intro f g hfg z v h
    cases hf : f z with
    | none => simp [hf, lift] at h
    | some w => simp [hf, lift] at h; subst h; simp [hfg z w hf, lift]
  intro e
  induction e with
  | value x => intro v h; simpa [eval] using h
  | var n p => intro v h; simpa [eval] using h
  | neg a ih =>
    intro v h
    rw [eval] at h ⊢
    cases h1 : eval A σ a with
    | error er => simp [h1] at h
    | ok x =>
      simp only [h1] at h
      simp only [ih x h1]
      exact hl _ _ hn _ _ h
  | bin o a b iha ihb =>
    intro v h
    rw [eval] at h ⊢
    cases h1 : eval A σ a with
    | error er => simp [h1] at h
    | ok x =>
      cases h2 : eval A σ b with
      | error er => simp [h1, h2] at h
      | ok y =>
        simp only [h1, h2] at h
        simp only [iha x h1, ihb y h2]
        cases o <;> simp only [evalOp] at h ⊢
        · exact hl _ _ hn _ _ h
        · exact hl _ _ hn _ _ h
        · exact hl _ _ hn _ _ h
        · split at h
          · simp at h
          · rename_i hy; simp only [hy, if_false]; exact hl _ _ hd _ _ h
        · split at h
          · simp at h
          · rename_i hy; simp only [hy, if_false]; exact hl _ _ hd _ _ h
        · exact h
        · exact h
        · exact h

/-- A successful overflow-checked evaluation is the ideal evaluation (no domain needed). -/
theorem evc_ev (σ : Env) (e : SymExpr) (v : Int) (h : evc σ e = .ok v) : ev σ e = .ok v := by
  refine eval_mono (A := Arith.checked) (B := Arith.ideal) ?_ ?_ σ e v h <;>
    intro x y hxy <;> simp only [Arith.checked, Arith.ideal] at hxy ⊢ <;>
    rw [(chk_some hxy).1]

/-- When no intermediate result leaves `i32`, the wrapping (release) evaluator returns the
same value as the overflow-checked (debug) one. -/
theorem evw_of_evc (σ : Env) (e : SymExpr) (v : Int) (h : evc σ e = .ok v) :
    eval Arith.wrap σ e = .ok v := by
  refine eval_mono (A := Arith.checked) (B := Arith.wrap) ?_ ?_ σ e v h <;>
    intro x y hxy <;> simp only [Arith.checked, Arith.wrap] at hxy ⊢
  · obtain ⟨rfl, h1, h2⟩ := chk_some hxy
    rw [wrap32_id h1 h2]
  · exact hxy

theorem lift_chk_cases (z : Int) :
    lift (chk z) = .ok z ∨ lift (chk z) = .error .panic := by
  unfold chk; split <;> simp [lift]

/-- If the ideal value is `v`, the overflow-checked evaluator returns `v` or panics on an
overflow — it never returns another value, `DivisionByZero` or `MissingSymbol`. -/
theorem evc_of_ev (σ : Env) :
    ∀ (e : SymExpr) (v : Int), ev σ e = .ok v → evc σ e = .ok v ∨ evc σ e = .error .panic := by
  intro e
  induction e with
  | value x => intro v h; left; simpa [evc, ev, eval] using h
  | var n p => intro v h; left; simpa [evc, ev, eval] using h
  | neg a ih =>
    intro v h
    rw [ev_neg_ok] at h
    obtain ⟨x, hx, rfl⟩ := h
    rw [evc, eval]
    rcases ih x hx with h1 | h1
    · rw [evc] at h1; simp only [h1]; exact lift_chk_cases _
    · rw [evc] at h1; simp only [h1]; right; trivial
  | bin o a b iha ihb =>
    intro v h
    rw [ev_bin_ok'] at h
    obtain ⟨x, y, hx, hy, h0, rfl⟩ := h
    rw [evc, eval]
    rcases iha x hx with h1 | h1
    · rw [evc] at h1; simp only [h1]
      rcases ihb y hy with h2 | h2
      · rw [evc] at h2; simp only [h2]
        cases o <;> simp only [evalOp, opF, Arith.checked]
        · exact lift_chk_cases _
        · exact lift_chk_cases _
        · exact lift_chk_cases _
        · have := h0 (.inl rfl); simp only [this, if_false]; exact lift_chk_cases _
        · have := h0 (.inr rfl); simp only [this, if_false]; exact lift_chk_cases _
        · left; trivial
        · left; trivial
        · left; trivial
      · rw [evc] at h2; simp only [h2]; right; trivial
    · rw [evc] at h1; simp only [h1]; right; trivial

end RtenVerif.Sym
