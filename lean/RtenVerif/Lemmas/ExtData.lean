import RtenVerif.Model.ExtData

/-! Helper lemmas for C21 (path components, push, loader range checks). Core Lean only. -/
namespace RtenVerif.ExtData

instance instDecEqExcept {ε α : Type} [DecidableEq ε] [DecidableEq α] : DecidableEq (Except ε α)
  | .ok a, .ok b =>
    if h : a = b then isTrue (by rw [h]) else isFalse (by intro h'; injection h' with h'; exact h h')
  | .error a, .error b =>
    if h : a = b then isTrue (by rw [h]) else isFalse (by intro h'; injection h' with h'; exact h h')
  | .ok _, .error _ => isFalse (by intro h; cases h)
  | .error _, .ok _ => isFalse (by intro h; cases h)

/-! ### splitSlash / body -/

theorem splitSlash_ne_nil (s : List Nat) : splitSlash s ≠ [] := by
  cases s with
  | nil => simp [splitSlash]
  | cons c cs =>
    unfold splitSlash
    split
    · simp
    · split <;> simp

/-- No segment contains a separator. -/
theorem splitSlash_no_slash (s : List Nat) : ∀ seg ∈ splitSlash s, 47 ∉ seg := by
  induction s with
  | nil => intro seg h; simp [splitSlash] at h; simp [h]
  | cons c cs ih =>
    intro seg h
    unfold splitSlash at h
    split at h
    · rcases List.mem_cons.mp h with h | h
      · simp [h]
      · exact ih seg h
    · rename_i hc
      split at h
      · simp at h; subst h
        intro hm; simp at hm; exact hc hm.symm
      · rename_i hd tl heq
        rcases List.mem_cons.mp h with h | h
        · subst h
          intro hm
          rcases List.mem_cons.mp hm with hm | hm
          · exact hc hm.symm
          · exact ih hd (by rw [heq]; simp) hm
        · exact ih seg (by rw [heq]; simp [h])

theorem splitSlash_append_slash (a b : List Nat) :
    splitSlash (a ++ 47 :: b) = splitSlash a ++ splitSlash b := by
  induction a with
  | nil => simp [splitSlash]
  | cons c cs ih =>
    simp only [List.cons_append, splitSlash, ih]
    by_cases hc : c = 47
    · simp [hc]
    · simp only [hc, if_false]
      cases h : splitSlash cs with
      | nil => exact absurd h (splitSlash_ne_nil cs)
      | cons hd tl => simp

/-- The first segment of a path: either the whole path, or the part before the first `/`. -/
theorem splitSlash_head (p : List Nat) :
    ∃ seg, 47 ∉ seg ∧ ((p = seg ∧ splitSlash p = [seg]) ∨
      ∃ p', p = seg ++ 47 :: p' ∧ splitSlash p = seg :: splitSlash p') := by
  induction p with
  | nil => exact ⟨[], by simp, Or.inl ⟨rfl, by simp [splitSlash]⟩⟩
  | cons c cs ih =>
    by_cases hc : c = 47
    · subst hc
      exact ⟨[], by simp, Or.inr ⟨cs, by simp, by simp [splitSlash]⟩⟩
    · obtain ⟨seg, hs, h⟩ := ih
      refine ⟨c :: seg, ?_, ?_⟩
      · intro hm
        rcases List.mem_cons.mp hm with hm | hm
        · exact hc hm.symm
        · exact hs hm
      · rcases h with ⟨h1, h2⟩ | ⟨p', h1, h2⟩
        · left
          refine ⟨by rw [h1], ?_⟩
          simp only [splitSlash, hc, if_false, h2]
        · right
          refine ⟨p', by rw [h1]; simp, ?_⟩
          simp only [splitSlash, hc, if_false, h2]

theorem splitSlash_no47 (s : List Nat) (h : 47 ∉ s) : splitSlash s = [s] := by
  induction s with
  | nil => simp [splitSlash]
  | cons c cs ih =>
    have hc : c ≠ 47 := by intro e; apply h; simp [e]
    have hcs : 47 ∉ cs := by intro e; apply h; simp [e]
    simp [splitSlash, hc, ih hcs]

theorem body_nil : body [] = [] := by
  simp [body, splitSlash, classify]

theorem body_append_slash (a b : List Nat) : body (a ++ 47 :: b) = body a ++ body b := by
  simp [body, splitSlash_append_slash, List.filterMap_append]

theorem body_slash_cons (b : List Nat) : body (47 :: b) = body b := by
  have := body_append_slash [] b
  simpa [body_nil] using this

theorem body_append_single_slash (a : List Nat) : body (a ++ [47]) = body a := by
  have := body_append_slash a []
  simpa [body_nil] using this

/-- Every `Normal` component produced by `body` is a non-empty segment without `/`
that is neither `.` nor `..`. -/
theorem body_normal_props {s n : List Nat} (h : Comp.normal n ∈ body s) :
    n ≠ [] ∧ n ≠ [46] ∧ n ≠ [46, 46] ∧ 47 ∉ n := by
  unfold body at h
  rcases List.mem_filterMap.mp h with ⟨seg, hseg, hc⟩
  unfold classify at hc
  split at hc
  · cases hc
  · split at hc
    · cases hc
    · split at hc
      · cases hc
      · rename_i h1 h2 h3
        injection hc with hc
        injection hc with hc
        subst hc
        exact ⟨h1, h2, h3, splitSlash_no_slash s seg hseg⟩

/-- `body` never yields `RootDir` or `CurDir`. -/
theorem body_no_root_cur (s : List Nat) : Comp.root ∉ body s ∧ Comp.cur ∉ body s := by
  constructor <;>
  · intro h
    unfold body at h
    rcases List.mem_filterMap.mp h with ⟨seg, _, hc⟩
    unfold classify at hc
    repeat (first | (split at hc) | cases hc)

/-! ### components under concatenation -/

theorem components_append_slash (a b : List Nat) :
    components (a ++ 47 :: b) = components (a ++ [47]) ++ body b := by
  cases a with
  | nil => simp [components, body_nil]
  | cons c a' =>
    simp only [List.cons_append, components]
    by_cases hc : c = 47
    · simp [hc, body_append_slash, body_nil]
    · simp only [hc, if_false]
      by_cases hd : c = 46
      · simp only [hd, if_true]
        cases a' with
        | nil => simp [body_nil]
        | cons d a'' =>
          simp only [List.cons_append]
          by_cases h47 : d = 47
          · simp [h47, body_append_slash, body_nil]
          · simp only [h47, if_false]
            have := body_append_slash (46 :: d :: a'') b
            have h2 := body_append_single_slash (46 :: d :: a'')
            simp only [List.cons_append] at this h2
            rw [this, h2]
      · simp only [hd, if_false]
        have := body_append_slash (c :: a') b
        have h2 := body_append_single_slash (c :: a')
        simp only [List.cons_append] at this h2
        rw [this, h2]

theorem components_append_single_slash (a : List Nat) (ha : a ≠ []) :
    components (a ++ [47]) = components a := by
  cases a with
  | nil => exact absurd rfl ha
  | cons c a' =>
    simp only [List.cons_append, components]
    by_cases hc : c = 47
    · simp [hc, body_append_single_slash]
    · simp only [hc, if_false]
      by_cases hd : c = 46
      · simp only [hd, if_true]
        cases a' with
        | nil => simp [body_nil]
        | cons d a'' =>
          simp only [List.cons_append]
          by_cases h47 : d = 47
          · simp [h47, body_append_single_slash]
          · simp only [h47, if_false]
            have h2 := body_append_single_slash (46 :: d :: a'')
            simp only [List.cons_append] at h2
            rw [h2]
      · simp only [hd, if_false]
        have h2 := body_append_single_slash (c :: a')
        simp only [List.cons_append] at h2
        rw [h2]

/-- If the first component of a path is `Normal`, the path is neither rooted nor
`.`-led, so its components are exactly `body`. -/
theorem components_eq_body_of_head_normal {p : List Nat} {n : List Nat} {rest : List Comp}
    (h : components p = Comp.normal n :: rest) : components p = body p ∧ p.head? ≠ some 47 := by
  cases p with
  | nil => simp [components] at h
  | cons c p' =>
    simp only [components] at h ⊢
    by_cases hc : c = 47
    · simp [hc] at h
    · simp only [hc, if_false] at h ⊢
      refine ⟨?_, by simp; exact hc⟩
      by_cases hd : c = 46
      · simp only [hd, if_true] at h ⊢
        cases p' with
        | nil => simp at h
        | cons d p'' =>
          by_cases h47 : d = 47
          · simp [h47] at h
          · simp [h47]
      · simp [hd]

/-- `PathBuf::push` of a relative path onto a non-empty buffer appends the body components. -/
theorem components_push_rel (d p : List Nat) (hd : d ≠ []) (hp : p.head? ≠ some 47) :
    components (push d p) = components d ++ body p := by
  unfold push
  simp only [hp, if_false]
  by_cases hl : d.getLast? = some 47
  · simp only [hl, ne_eq, not_true_eq_false, and_false, if_false]
    -- d = d' ++ [47]
    obtain ⟨d', rfl⟩ : ∃ d', d = d' ++ [47] := by
      rcases List.getLast?_eq_some_iff.mp hl with ⟨ys, h⟩
      exact ⟨ys, h⟩
    rw [List.append_assoc]
    simp only [List.singleton_append]
    exact components_append_slash d' p
  · have : d ≠ [] ∧ d.getLast? ≠ some 47 := ⟨hd, hl⟩
    simp only [this, ne_eq, not_false_eq_true, and_self, if_true]
    rw [components_append_slash, components_append_single_slash d hd]

theorem push_abs (d p : List Nat) (hp : p.head? = some 47) : push d p = p := by
  simp [push, hp]

theorem push_nil (p : List Nat) : push [] p = p := by
  unfold push
  split <;> simp

/-! ### lexical resolution -/

theorem lexResolve_append_normal (cs : List Comp) (n : List Nat) :
    lexResolve (cs ++ [Comp.normal n]) = lexResolve cs ++ [Comp.normal n] := by
  simp [lexResolve, List.foldl_append, resStep]

theorem startsWith_iff (e pre : List Nat) : startsWith e pre = true ↔ ∃ s, e = pre ++ s := by
  induction pre generalizing e with
  | nil => simp [startsWith]
  | cons p ps ih =>
    cases e with
    | nil => simp [startsWith]
    | cons x xs =>
      simp only [startsWith, Bool.and_eq_true, beq_iff_eq, ih, List.cons_append, List.cons.injEq]
      constructor
      · rintro ⟨rfl, s, rfl⟩; exact ⟨s, rfl, rfl⟩
      · rintro ⟨s, rfl, rfl⟩; exact ⟨rfl, s, rfl⟩

/-! ### ranges -/

theorem satAdd_le (a b : Nat) : satAdd a b ≤ U64_MAX := by
  unfold satAdd; split <;> omega

theorem satAdd_eq_of_lt {a b : Nat} (h : satAdd a b < U64_MAX) : satAdd a b = a + b := by
  by_cases hh : a + b > U64_MAX
  · simp [satAdd, hh] at h
  · simp [satAdd, hh]

/-! ### the chunked read loop -/

theorem readFill_length (file : List Nat) (pos k : Nat) :
    (readFill file pos k).length = min k (file.length - pos) := by
  simp [readFill]

theorem take_add_drop (l : List Nat) (pos a b : Nat) :
    (l.drop pos).take a ++ ((l.drop (pos + a)).take b) = (l.drop pos).take (a + b) := by
  rw [List.take_add, ← List.drop_drop]

/-- Loop invariant of `readLoop`: with enough fuel the loop appends exactly
`take remaining (drop pos file)` to the buffer. -/
theorem readLoop_spec (C : Nat) (hC : 0 < C) (file : List Nat) :
    ∀ (fuel pos remaining : Nat) (buf : List Nat), remaining / C < fuel →
      readLoop C file fuel pos remaining buf = buf ++ (file.drop pos).take remaining := by
  intro fuel
  induction fuel with
  | zero => intro pos remaining buf h; exact absurd h (Nat.not_lt_zero _)
  | succ fuel ih =>
    intro pos remaining buf hf
    unfold readLoop
    simp only
    have hlen := readFill_length file pos (min remaining C)
    by_cases hstop : (readFill file pos (min remaining C)).length < C ∨
        remaining - (readFill file pos (min remaining C)).length = 0
    · simp only [hstop, if_true]
      congr 1
      -- the chunk already equals take remaining (drop pos file)
      unfold readFill
      unfold readFill at hstop hlen
      rcases hstop with h | h
      · -- short chunk: either remaining < C (chunk = all requested) or EOF
        by_cases hr : remaining ≤ C
        · rw [Nat.min_eq_left hr]
        · have hr' : C ≤ remaining := by omega
          rw [Nat.min_eq_right hr'] at h hlen ⊢
          have hav : file.length - pos < C := by
            rw [hlen] at h; omega
          have : (file.drop pos).length ≤ C := by simp; omega
          rw [List.take_of_length_le this, List.take_of_length_le (by omega)]
      · by_cases hr : remaining ≤ C
        · rw [Nat.min_eq_left hr]
        · have hr' : C ≤ remaining := by omega
          rw [Nat.min_eq_right hr'] at h hlen
          rw [hlen] at h
          omega
    · simp only [hstop, if_false]
      have hns : ¬ (readFill file pos (min remaining C)).length < C := fun h => hstop (Or.inl h)
      have hnz : remaining - (readFill file pos (min remaining C)).length ≠ 0 :=
        fun h => hstop (Or.inr h)
      have hchunk : (readFill file pos (min remaining C)).length = C := by
        rw [hlen] at hns ⊢; omega
      have hrC : C < remaining := by rw [hchunk] at hnz; omega
      rw [ih]
      · rw [List.append_assoc]
        congr 1
        rw [hchunk]
        unfold readFill
        rw [Nat.min_eq_right (by omega)]
        have := take_add_drop file pos C (remaining - C)
        rw [this]
        congr 1
        omega
      · rw [hchunk]
        have h1 : (remaining - C) / C + 1 = remaining / C := by
          have : remaining = (remaining - C) + C := by omega
          rw [this, Nat.add_div_right _ hC]
          simp
        omega

theorem osRead_bounds (avail want hint : Nat) :
    osRead avail want hint ≤ min want avail ∧ (0 < min want avail → 0 < osRead avail want hint) := by
  unfold osRead
  split
  · omega
  · omega

end RtenVerif.ExtData
