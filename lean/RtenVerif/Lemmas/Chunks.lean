import RtenVerif.Model.Chunks

/-! Lemmas about `chunkRanges` for C29 (core Lean only). -/
namespace RtenVerif.Chunks

/-- Shape of the result when the precondition holds. -/
theorem chunkRanges_eq {n size overlap : Nat} (h : overlap < size) :
    chunkRanges n size overlap =
      some ((List.range (fullCount n size (size - overlap))).map (fun i => (i * (size - overlap), size))
        ++ (if 0 < remSize n size (size - overlap) then
              [(n - remSize n size (size - overlap), remSize n size (size - overlap))] else [])) := by
  simp [chunkRanges, h]

theorem chunkRanges_none {n size overlap : Nat} (h : size ≤ overlap) :
    chunkRanges n size overlap = none := by
  simp [chunkRanges, Nat.not_lt.mpr h]

/-- Arithmetic facts about the last full window `k` and the remainder. -/
theorem decomp {n size stride : Nat} (hs : 0 < stride) (hn : size ≤ n) :
    stride * ((n - size) / stride) + (n - size) % stride = n - size ∧
    (n - size) % stride < stride :=
  ⟨Nat.div_add_mod _ _, Nat.mod_lt _ hs⟩

theorem full_mem_bound {n size stride i : Nat} (hs : 0 < stride)
    (hi : i < fullCount n size stride) : size ≤ n ∧ i * stride + size ≤ n := by
  unfold fullCount at hi
  by_cases hlt : n < size
  · simp [hlt] at hi
  · simp only [hlt, if_false] at hi
    have hn : size ≤ n := Nat.le_of_not_lt hlt
    have hle : i ≤ (n - size) / stride := by omega
    have h1 : i * stride ≤ (n - size) / stride * stride := Nat.mul_le_mul_right _ hle
    have h2 : (n - size) / stride * stride ≤ n - size := Nat.div_mul_le_self _ _
    omega

theorem remSize_le {n size stride : Nat} (hs : 0 < stride) (hss : stride ≤ size) :
    remSize n size stride ≤ n ∧ remSize n size stride ≤ size := by
  unfold remSize
  by_cases hlt : n < size
  · simp only [hlt, if_true]; omega
  · simp only [hlt, if_false]
    have := Nat.mod_lt (n - size) hs
    have := Nat.mod_le (n - size) stride
    omega

/-- When there is at least one full window, the remainder starts exactly where the last full
window ends. -/
theorem rem_start {n size stride : Nat} (hs : 0 < stride) (hn : size ≤ n) :
    n - remSize n size stride = ((n - size) / stride) * stride + size := by
  unfold remSize
  have hlt : ¬ n < size := Nat.not_lt.mpr hn
  simp only [hlt, if_false]
  obtain ⟨h1, h2⟩ := decomp (n := n) (size := size) hs hn
  have : stride * ((n - size) / stride) = (n - size) / stride * stride := Nat.mul_comm _ _
  omega

theorem mem_ranges {n size overlap : Nat} (h : overlap < size) {rs : List (Nat × Nat)}
    (hrs : chunkRanges n size overlap = some rs) {r : Nat × Nat} (hr : r ∈ rs) :
    (∃ i, i < fullCount n size (size - overlap) ∧ r = (i * (size - overlap), size)) ∨
    (0 < remSize n size (size - overlap) ∧
      r = (n - remSize n size (size - overlap), remSize n size (size - overlap))) := by
  rw [chunkRanges_eq h, Option.some.injEq] at hrs
  subst hrs
  simp only [List.mem_append, List.mem_map, List.mem_range] at hr
  rcases hr with ⟨i, hi, rfl⟩ | hr
  · exact Or.inl ⟨i, hi, rfl⟩
  · right
    by_cases hp : 0 < remSize n size (size - overlap)
    · simp only [hp, if_true, List.mem_singleton] at hr
      exact ⟨hp, hr⟩
    · simp [hp] at hr

/-- Every window is a non-empty slice of at most `size` elements inside `0..n`. -/
theorem ranges_bounds {n size overlap : Nat} (h : overlap < size) {rs : List (Nat × Nat)}
    (hrs : chunkRanges n size overlap = some rs) {r : Nat × Nat} (hr : r ∈ rs) :
    0 < r.2 ∧ r.2 ≤ size ∧ r.1 + r.2 ≤ n := by
  have hs : 0 < size - overlap := by omega
  rcases mem_ranges h hrs hr with ⟨i, hi, rfl⟩ | ⟨hp, rfl⟩
  · have := full_mem_bound hs hi
    simp only; omega
  · have := remSize_le (n := n) hs (Nat.sub_le size overlap)
    simp only; omega

/-- The windows cover every position. -/
theorem ranges_cover {n size overlap : Nat} (h : overlap < size) {rs : List (Nat × Nat)}
    (hrs : chunkRanges n size overlap = some rs) {p : Nat} (hp : p < n) :
    ∃ r ∈ rs, r.1 ≤ p ∧ p < r.1 + r.2 := by
  have hs : 0 < size - overlap := by omega
  rw [chunkRanges_eq h, Option.some.injEq] at hrs
  subst hrs
  generalize hst : size - overlap = stride at *
  have hss : stride ≤ size := by omega
  by_cases hlt : n < size
  · -- a single short window
    refine ⟨(n - remSize n size stride, remSize n size stride), ?_, ?_⟩
    · have : remSize n size stride = n := by simp [remSize, hlt]
      simp only [List.mem_append]; right
      rw [this]; simp; omega
    · have : remSize n size stride = n := by simp [remSize, hlt]
      rw [this]; simp only; omega
  · have hn : size ≤ n := Nat.le_of_not_lt hlt
    obtain ⟨h1, h2⟩ := decomp (n := n) (size := size) hs hn
    have hfc : fullCount n size stride = (n - size) / stride + 1 := by simp [fullCount, hlt]
    have hrem : remSize n size stride = (n - size) % stride := by simp [remSize, hlt]
    generalize hk : (n - size) / stride = k at *
    generalize hrm : (n - size) % stride = rem at *
    by_cases hin : p < stride * k + size
    · -- inside a full window
      have hq := Nat.div_add_mod p stride
      have hq2 := Nat.mod_lt p hs
      by_cases hle : p / stride ≤ k
      · refine ⟨(p / stride * stride, size), ?_, ?_⟩
        · simp only [List.mem_append, List.mem_map, List.mem_range]
          left; exact ⟨p / stride, by omega, rfl⟩
        · have : p / stride * stride = stride * (p / stride) := Nat.mul_comm _ _
          simp only; omega
      · refine ⟨(k * stride, size), ?_, ?_⟩
        · simp only [List.mem_append, List.mem_map, List.mem_range]
          left; exact ⟨k, by omega, rfl⟩
        · have hkq : k + 1 ≤ p / stride := by omega
          have := Nat.mul_le_mul_left stride hkq
          have : k * stride = stride * k := Nat.mul_comm _ _
          have : stride * (k + 1) = stride * k + stride := Nat.mul_succ _ _
          simp only; omega
    · -- inside the remainder
      have hpos : 0 < rem := by omega
      refine ⟨(n - rem, rem), ?_, ?_⟩
      · simp only [List.mem_append]; right
        rw [hrem]; simp [hpos]
      · simp only; omega

/-- The `i`-th yielded window, for `i` below the number of full windows. -/
theorem ranges_full_get {n size overlap : Nat} (h : overlap < size) {rs : List (Nat × Nat)}
    (hrs : chunkRanges n size overlap = some rs) {i : Nat}
    (hi : i < fullCount n size (size - overlap)) :
    rs[i]? = some (i * (size - overlap), size) := by
  rw [chunkRanges_eq h, Option.some.injEq] at hrs
  subst hrs
  rw [List.getElem?_append_left (by simpa using hi)]
  simp [hi]

theorem ranges_length {n size overlap : Nat} (h : overlap < size) {rs : List (Nat × Nat)}
    (hrs : chunkRanges n size overlap = some rs) :
    rs.length = fullCount n size (size - overlap) +
      (if 0 < remSize n size (size - overlap) then 1 else 0) := by
  rw [chunkRanges_eq h, Option.some.injEq] at hrs
  subst hrs
  by_cases hp : 0 < remSize n size (size - overlap) <;> simp [hp]

/-- The window after the last full one (if any) is the remainder. -/
theorem ranges_rem_get {n size overlap : Nat} (h : overlap < size) {rs : List (Nat × Nat)}
    (hrs : chunkRanges n size overlap = some rs)
    (hp : 0 < remSize n size (size - overlap)) :
    rs[fullCount n size (size - overlap)]? =
      some (n - remSize n size (size - overlap), remSize n size (size - overlap)) := by
  rw [chunkRanges_eq h, Option.some.injEq] at hrs
  subst hrs
  rw [List.getElem?_append_right (by simp)]
  simp [hp]

end RtenVerif.Chunks
