import RtenVerif.Lemmas.OnnxRefSlice
/-! Trilu: the upper triangle from diagonal `k` and the lower triangle up to diagonal `k-1` partition
every matrix of the batch. -/
namespace RtenVerif.OnnxRef

theorem bdim_self (d : Nat) : bdim d d = some d := by simp [bdim]

theorem bshapeRev_self : ∀ l : List Nat, bshapeRev l l = some l
  | [] => rfl
  | d :: ds => by simp [bshapeRev, bdim_self, bshapeRev_self ds]

theorem bshape_self (s : List Nat) : bshape s s = some s := by
  simp [bshape, bshapeRev_self]

/-- TR1. `Trilu(x, k, upper=1) + Trilu(x, k-1, upper=0) = x`: every element belongs to exactly one of the
two triangles (diagonal offset `j - i ≥ k` resp. `j - i ≤ k-1`). -/
theorem trilu_partition (x : Tensor) (k : Int) (hwf : x.data.length = prod x.shape) (hr : x.rank ≥ 2) :
    (trilu x k true).bind (fun u => (trilu x (k - 1) false).bind (fun l => binop (· + ·) u l)) = .ok x := by
  unfold trilu
  have hg : guardR (decide (x.rank ≥ 2)) = .ok () := by simp [guardR, hr]; rfl
  simp only [hg, bind, Except.bind, pure, Except.pure]
  unfold binop bshapeR
  have hs : ∀ f, (build x.shape f).shape = x.shape := fun _ => rfl
  simp only [hs, bshape_self, bind, Except.bind, pure, Except.pure]
  congr 1
  apply Eq.trans (build_congr x.shape _ x.get _) (build_get x hwf)
  intro idx hv
  rw [bidx_self _ _ hv, get_build _ _ _ hv, get_build _ _ _ hv]
  simp only [if_true, Bool.false_eq_true, if_false]
  by_cases h : (getN idx (x.rank - 1) : Int) ≥ (getN idx (x.rank - 2) : Int) + k
  · have h2 : ¬ ((getN idx (x.rank - 1) : Int) ≤ (getN idx (x.rank - 2) : Int) + (k - 1)) := by omega
    simp [h, h2]
  · have h2 : (getN idx (x.rank - 1) : Int) ≤ (getN idx (x.rank - 2) : Int) + (k - 1) := by omega
    simp [h, h2]

end RtenVerif.OnnxRef
