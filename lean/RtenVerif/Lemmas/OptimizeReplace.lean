import RtenVerif.Lemmas.OptimizeRewrite

/-!
# C01 — M3: soundness of `replace_value` rewrites (`Fusion::Identity`, `Fusion::Constant`)

`G = pre ++ L :: post`, `L` produces the single value `b`; the rewrite removes `L` and substitutes `a`
for `b` in the *inputs* of all later operators (`substIns`; captures are by name and are not
rewritten) and in the graph outputs (`substOuts`). If, whenever `L` succeeds, its result is the value
of `a` (semantic hypothesis: `x+0 = x`, a Cast to the own type, the folded constant …) and no later
operator captures `b` (the captured-by-subgraph guard with `preserved = []`), every value that was
defined before is defined to the same value afterwards — a *refinement*: a failing operator may
start to succeed ("optimization may turn a failing run into a successful one").
-/
namespace RtenVerif.Optimize

variable {K V : Type} (sem : Sem K V)

theorem WF_append_disjoint {a b : List (Op K)} (h : WF (a ++ b)) : ∀ i ∈ outsAll a, i ∉ outsAll b := by
  induction a with
  | nil => intro i hi; simp [outsAll] at hi
  | cons o os ih =>
    intro i hi hb
    rw [List.cons_append] at h
    obtain ⟨_, h2, h3⟩ := h
    simp only [outsAll, List.mem_append] at hi
    rcases hi with hi | hi
    · exact h2 i hi (by rw [outsAll_append]; exact List.mem_append.mpr (Or.inr hb))
    · exact ih h3 i hi hb

theorem readAll_append (E : Env V) (xs ys : List Id) :
    readAll E (xs ++ ys) = (readAll E xs).bind fun a => (readAll E ys).map fun b => a ++ b := by
  induction xs with
  | nil => cases h : readAll E ys <;> simp [readAll, h]
  | cons x xs ih =>
    simp only [List.cons_append, readAll, ih]
    cases E x <;> cases readAll E xs <;> cases readAll E ys <;> simp

/-- `E2` refines `E1` with `a` standing for `b`. -/
def Refines (b a : Id) (E1 E2 : Env V) : Prop :=
  (∀ i v, i ≠ b → E1 i = some v → E2 i = some v) ∧ (∀ v, E1 b = some v → E2 a = some v)

theorem readAll_refines_subst (b a : Id) (E1 E2 : Env V) (hr : Refines b a E1 E2) :
    ∀ (is : List Id) (vs : List V), readAll E1 is = some vs →
      readAll E2 (is.map fun i => if i = b then a else i) = some vs := by
  intro is
  induction is with
  | nil => intro vs h; simpa [readAll] using h
  | cons i is ih =>
    intro vs h
    simp only [readAll] at h
    cases hi : E1 i with
    | none => simp [hi] at h
    | some v =>
      cases hrest : readAll E1 is with
      | none => simp [hi, hrest] at h
      | some rest =>
        simp only [hi, hrest] at h
        have hv : E2 (if i = b then a else i) = some v := by
          by_cases hib : i = b
          · simp only [hib, if_true]; exact hr.2 v (hib ▸ hi)
          · simp only [hib, if_false]; exact hr.1 i v hib hi
        simp only [List.map, readAll, hv, ih rest hrest]
        exact h

theorem readAll_refines (b a : Id) (E1 E2 : Env V) (hr : Refines b a E1 E2) :
    ∀ (is : List Id) (vs : List V), b ∉ is → readAll E1 is = some vs → readAll E2 is = some vs := by
  intro is
  induction is with
  | nil => intro vs _ h; simpa [readAll] using h
  | cons i is ih =>
    intro vs hb h
    have hib : i ≠ b := fun e => hb (by simp [e])
    have hbs : b ∉ is := fun e => hb (by simp [e])
    simp only [readAll] at h
    cases hi : E1 i with
    | none => simp [hi] at h
    | some v =>
      cases hrest : readAll E1 is with
      | none => simp [hi, hrest] at h
      | some rest =>
        simp only [hi, hrest] at h
        simp only [readAll, hr.1 i v hib hi, ih rest hbs hrest]
        exact h

/-- If `o` succeeds in `E1`, the rewritten operator succeeds in `E2` with the same result. -/
theorem result_refines (b a : Id) (E1 E2 : Env V) (hr : Refines b a E1 E2) (o : Op K) (hcap : b ∉ o.caps)
    (rs : List V) (h : result sem E1 o = some rs) : result sem E2 (substIns b a o) = some rs := by
  unfold result at h ⊢
  cases hread : readAll E1 o.reads with
  | none => simp [hread] at h
  | some vs =>
    simp only [hread] at h
    have hread2 : readAll E2 (substIns b a o).reads = some vs := by
      simp only [Op.reads, substIns]
      simp only [Op.reads] at hread
      rw [readAll_append] at hread ⊢
      cases h1 : readAll E1 o.ins with
      | none => simp [h1] at hread
      | some v1 =>
        cases h2 : readAll E1 o.caps with
        | none => simp [h1, h2] at hread
        | some v2 =>
          simp only [h1, h2, Option.bind_some, Option.map_some] at hread
          simp only [readAll_refines_subst b a E1 E2 hr o.ins v1 h1, readAll_refines b a E1 E2 hr o.caps v2 hcap h2,
            Option.bind_some, Option.map_some]
          exact hread
    simp only [hread2]
    exact h

theorem bind_refines (b a : Id) (E1 E2 : Env V) (hr : Refines b a E1 E2) (outs : List Id) (rs : List V)
    (hb : b ∉ outs) (ha : a ∉ outs) : Refines b a (bind E1 outs rs) (bind E2 outs rs) := by
  constructor
  · intro i v hib h
    by_cases hio : i ∈ outs
    · -- both sides take the bound value, or fall through identically
      have : ∀ (outs : List Id) (rs : List V), bind E1 outs rs i = some v → i ∈ outs →
          (∀ w, E1 i = some w → E2 i = some w) → bind E2 outs rs i = some v := by
        intro outs
        induction outs with
        | nil => intro rs _ hm; simp at hm
        | cons o os ih =>
          intro rs hh hm hfall
          cases rs with
          | nil => simp only [bind] at hh ⊢; exact hfall v hh
          | cons r rs =>
            simp only [bind] at hh ⊢
            by_cases hio' : i = o
            · simpa [hio'] using hh
            · simp only [hio', if_false] at hh ⊢
              by_cases him : i ∈ os
              · exact ih rs hh him hfall
              · rw [bind_off E1 os rs i him] at hh; rw [bind_off E2 os rs i him]; exact hfall v hh
      exact this outs rs h hio (fun w hw => hr.1 i w hib hw)
    · rw [bind_off E1 outs rs i hio] at h; rw [bind_off E2 outs rs i hio]; exact hr.1 i v hib h
  · intro v h
    rw [bind_off E1 outs rs b hb] at h; rw [bind_off E2 outs rs a ha]; exact hr.2 v h

/-- One step: refinement is preserved when `o` runs on the left and its rewritten form on the right. -/
theorem step_refines (b a : Id) (E1 E2 : Env V) (hr : Refines b a E1 E2) (o : Op K) (hcap : b ∉ o.caps)
    (hb : b ∉ o.outs) (ha : a ∉ o.outs) (hfresh : ∀ i ∈ o.outs, E1 i = none) :
    Refines b a (step sem E1 o) (step sem E2 (substIns b a o)) := by
  unfold step
  cases h1 : result sem E1 o with
  | some rs =>
    rw [result_refines sem b a E1 E2 hr o hcap rs h1]
    exact bind_refines b a E1 E2 hr o.outs rs hb ha
  | none =>
    -- the left operator fails: its outputs stay undefined on the left, anything is fine on the right
    cases h2 : result sem E2 (substIns b a o) with
    | none => exact hr
    | some rs =>
      have houts : (substIns b a o).outs = o.outs := rfl
      constructor
      · intro i v hib h
        have h' : E1 i = some v := h
        by_cases hio : i ∈ o.outs
        · rw [hfresh i hio] at h'; cases h'
        · show bind E2 (substIns b a o).outs rs i = some v
          rw [houts, bind_off E2 o.outs rs i hio]; exact hr.1 i v hib h'
      · intro v h
        have h' : E1 b = some v := h
        show bind E2 (substIns b a o).outs rs a = some v
        rw [houts, bind_off E2 o.outs rs a ha]; exact hr.2 v h'

theorem run_refines (b a : Id) : ∀ (post : List (Op K)) (E1 E2 : Env V), Refines b a E1 E2 →
    WF post → (∀ o ∈ post, b ∉ o.caps) → b ∉ outsAll post → a ∉ outsAll post →
    (∀ i ∈ outsAll post, E1 i = none) →
    Refines b a (run sem post E1) (run sem (post.map (substIns b a)) E2) := by
  intro post
  induction post with
  | nil => intro E1 E2 hr _ _ _ _ _; exact hr
  | cons o os ih =>
    intro E1 E2 hr hwf hcap hb ha hfresh
    obtain ⟨_, hw2, hw3⟩ := hwf
    simp only [List.map, run]
    apply ih
    · exact step_refines sem b a E1 E2 hr o (hcap o (by simp)) (fun h => hb (by simp [outsAll, h]))
        (fun h => ha (by simp [outsAll, h])) (fun i hi => hfresh i (by simp [outsAll, hi]))
    · exact hw3
    · intro o' ho'; exact hcap o' (by simp [ho'])
    · exact fun h => hb (by simp [outsAll, h])
    · exact fun h => ha (by simp [outsAll, h])
    · intro i hi
      have hio : i ∉ o.outs := fun h => hw2 i h hi
      rw [step_off sem E1 o i hio]; exact hfresh i (by simp [outsAll, hi])

/-- **`replace_sound`** (`Fusion::Identity` / `Fusion::Constant` through `replace_value`). -/
theorem replace_sound (pre post : List (Op K)) (L : Op K) (b a : Id) (env : Env V)
    (hwf : WF (pre ++ L :: post))
    (hfresh : ∀ i ∈ outsAll (pre ++ L :: post), env i = none)
    (hL : L.outs = [b])
    (ha : a ∉ outsAll (L :: post))
    (hcap : ∀ o ∈ post, b ∉ o.caps)
    (hsem : ∀ E : Env V, (∀ i, i ∉ outsAll (pre ++ L :: post) → E i = env i) → E b = none →
        ∀ v, step sem E L b = some v → E a = some v) :
    ∀ i v, run sem (pre ++ L :: post) env i = some v →
      run sem (pre ++ post.map (substIns b a)) env (if i = b then a else i) = some v := by
  intro i v h
  rw [run_append] at h ⊢
  simp only [run] at h
  have hwfLpost : WF (L :: post) := WF_append_right hwf
  have hb_post : b ∉ outsAll post := fun hh => hwfLpost.2.1 b (by simp [hL]) hh
  have ha_post : a ∉ outsAll post := fun hh => ha (by simp [outsAll, hh])
  have haL : a ∉ L.outs := fun hh => ha (by simp [outsAll, hh])
  let E := run sem pre env
  have hEenv : ∀ k, k ∉ outsAll (pre ++ L :: post) → E k = env k := by
    intro k hk
    exact run_off sem pre env k (fun hh => hk (by rw [outsAll_append]; exact List.mem_append.mpr (Or.inl hh)))
  have hr0 : Refines b a (step sem E L) E := by
    constructor
    · intro k w hkb hk
      have : k ∉ L.outs := by simp [hL, hkb]
      rw [step_off sem E L k this] at hk; exact hk
    · intro w hw
      have hbpre : b ∉ outsAll pre := fun hh =>
        WF_append_disjoint hwf b hh (by simp [outsAll, hL])
      have hEb : E b = none := by
        show run sem pre env b = none
        rw [run_off sem pre env b hbpre]
        exact hfresh b (by rw [outsAll_append]; simp [outsAll, hL])
      exact hsem E hEenv hEb w hw
  have hfreshPost : ∀ k ∈ outsAll post, step sem E L k = none := by
    intro k hk
    have hkL : k ∉ L.outs := fun hh => hwfLpost.2.1 k hh hk
    have hkpre : k ∉ outsAll pre := fun hh =>
      WF_append_disjoint hwf k hh (by simp [outsAll, hk])
    rw [step_off sem E L k hkL]
    show run sem pre env k = none
    rw [run_off sem pre env k hkpre]
    exact hfresh k (by rw [outsAll_append]; simp [outsAll, hk])
  have hr := run_refines sem b a post (step sem E L) E hr0 hwfLpost.2.2 hcap hb_post ha_post hfreshPost
  by_cases hib : i = b
  · simp only [hib, if_true]; exact hr.2 v (hib ▸ h)
  · simp only [hib, if_false]; exact hr.1 i v hib h

end RtenVerif.Optimize
