import RtenVerif.Lemmas.Iter

/-!
C07 lemmas, part 2: `OffsetsBase::fold` visits exactly the remaining offsets, in order.
-/
namespace RtenVerif.Iter
open OffsetsBase

/-- Offset inside one outer block as a function of the position `v` in the block. -/
def blockOff (oo st0 st1 sz1 v : Nat) : Nat := oo + (v / sz1) * st0 + (v % sz1) * st1

theorem foldRow_spec (base st1 : Nat) : ∀ (c i1 len : Nat), 1 ≤ len →
    foldRow base st1 c i1 len =
      ((List.range' i1 (min c len)).map (fun i => base + i * st1), len - min c len)
  | 0, i1, len, _ => by simp [foldRow]
  | c + 1, i1, len, hl => by
    unfold foldRow
    by_cases h1 : len - 1 = 0
    · have : len = 1 := by omega
      subst this
      have : min (c + 1) 1 = 1 := by omega
      simp [this]
    · have ih := foldRow_spec base st1 c (i1 + 1) (len - 1) (by omega)
      have hm : min (c + 1) len = min c (len - 1) + 1 := by omega
      simp only [h1, if_false, ih, hm, List.range'_succ, List.map_cons, Prod.mk.injEq, true_and]
      omega

theorem blockOff_row {oo st0 st1 sz1 i0 i : Nat} (hi : i < sz1) :
    blockOff oo st0 st1 sz1 (i + sz1 * i0) = oo + i0 * st0 + i * st1 := by
  have hp : 0 < sz1 := by omega
  unfold blockOff
  rw [Nat.add_mul_div_left _ _ hp, Nat.div_eq_of_lt hi, Nat.add_mul_mod_self_left,
    Nat.mod_eq_of_lt hi, Nat.zero_add]

theorem map_range'_shift {β : Type} (f : Nat → β) (a b n : Nat) :
    (List.range' (a + b) n).map f = (List.range' a n).map (fun i => f (i + b)) := by
  rw [Nat.add_comm a b, ← List.map_add_range' a n 1, List.map_map]
  apply List.map_congr_left
  intro x _
  simp [Nat.add_comm]

theorem foldBlock_spec (oo st0 st1 sz1 : Nat) : ∀ (c i0 idx1 len : Nat), 1 ≤ len → idx1 < sz1 →
    foldBlock oo st0 st1 sz1 c i0 idx1 len =
      ((List.range' (idx1 + sz1 * i0) (min (sz1 * c - idx1) len)).map (blockOff oo st0 st1 sz1),
        len - min (sz1 * c - idx1) len)
  | 0, i0, idx1, len, _, _ => by simp [foldBlock]
  | c + 1, i0, idx1, len, hl, hi => by
    unfold foldBlock
    rw [foldRow_spec _ _ _ _ _ hl]
    have hmul : sz1 * (c + 1) = sz1 * c + sz1 := Nat.mul_succ _ _
    simp only
    by_cases h0 : len ≤ sz1 - idx1
    · have hm1 : min (sz1 - idx1) len = len := by omega
      have hm2 : min (sz1 * (c + 1) - idx1) len = len := by rw [hmul]; omega
      rw [hm1, hm2, Nat.sub_self]
      simp only [if_true]
      refine Prod.mk.injEq .. |>.mpr ⟨?_, rfl⟩
      rw [map_range'_shift _ idx1 (sz1 * i0)]
      apply List.map_congr_left
      intro i hi'
      rw [List.mem_range'_1] at hi'
      rw [blockOff_row (by omega)]
    · have hm1 : min (sz1 - idx1) len = sz1 - idx1 := by omega
      have ih := foldBlock_spec oo st0 st1 sz1 c (i0 + 1) 0 (len - (sz1 - idx1)) (by omega) (by omega)
      rw [hm1, if_neg (by omega), ih]
      have hm2 : min (sz1 * (c + 1) - idx1) len = (sz1 - idx1) + min (sz1 * c - 0) (len - (sz1 - idx1)) := by
        rw [hmul]; omega
      refine Prod.mk.injEq .. |>.mpr ⟨?_, by omega⟩
      rw [hm2, ← List.range'_append, List.map_append]
      congr 1
      · rw [map_range'_shift _ idx1 (sz1 * i0)]
        apply List.map_congr_left
        intro i hi'
        rw [List.mem_range'_1] at hi'
        rw [blockOff_row (by omega)]
      · have : 0 + sz1 * (i0 + 1) = idx1 + sz1 * i0 + 1 * (sz1 - idx1) := by
          rw [Nat.mul_succ]; omega
        rw [this]

theorem offR_block {st0 st1 sz0 sz1 v : Nat} {outer : List IterPos}
    (hw : ∀ p ∈ outer, WF p) (h1 : 0 < sz1) (hv : v < sz1 * sz0) :
    offR ((sz1, st1) :: (sz0, st0) :: dimsR outer) (v + sz1 * (sz0 * enc outer)) =
      blockOff (sumOff outer) st0 st1 sz1 v := by
  have h0 : 0 < sz0 := by
    rcases Nat.eq_zero_or_pos sz0 with h | h
    · subst h; simp at hv
    · exact h
  have hd : v / sz1 < sz0 := (Nat.div_lt_iff_lt_mul h1).mpr (by rw [Nat.mul_comm]; exact hv)
  simp only [offR, blockOff]
  rw [Nat.add_mul_mod_self_left, Nat.add_mul_div_left _ _ h1, Nat.add_mul_mod_self_left,
    Nat.add_mul_div_left _ _ h0, Nat.mod_eq_of_lt hd, Nat.div_eq_of_lt hd, Nat.zero_add,
    offR_enc outer hw]
  omega

theorem stepOuterLoop_adv : ∀ ps : List IterPos, (∀ p ∈ ps, WF p) →
    ((stepOuterLoop ps).2 = true ↔ enc ps + 1 < tot ps)
  | [], _ => by simp [stepOuterLoop, enc, tot]
  | p :: ps, h => by
    have hp := h p (List.mem_cons_self ..)
    have ih := stepOuterLoop_adv ps (fun q hq => h q (List.mem_cons_of_mem _ hq))
    have hi := index_lt p
    have he := enc_lt ps
    simp only [stepOuterLoop, enc, tot]
    rw [step_eq hp]
    by_cases hlt : p.index + 1 < p.size
    · simp only [hlt, if_true, true_iff]
      have h3 : p.size * (enc ps + 1) ≤ p.size * tot ps := Nat.mul_le_mul_left _ he
      rw [Nat.mul_add, Nat.mul_one] at h3
      omega
    · have heq : p.index + 1 = p.size := by omega
      simp only [hlt, if_false, Bool.false_eq_true]
      rw [ih]
      have h4 : p.index + p.size * enc ps + 1 = p.size * (enc ps + 1) := by
        rw [Nat.mul_add, Nat.mul_one]; omega
      rw [h4, Nat.mul_lt_mul_left (size_pos p)]

theorem foldOuter_spec (st0 st1 sz0 sz1 : Nat) (h1 : 0 < sz1) (h0 : 0 < sz0) :
    ∀ (fuel : Nat) (outer : List IterPos) (idx0 idx1 len : Nat),
      (∀ p ∈ outer, WF p) → idx0 < sz0 → idx1 < sz1 → 1 ≤ len → len ≤ fuel →
      idx1 + sz1 * idx0 + sz1 * (sz0 * enc outer) + len ≤ sz1 * (sz0 * tot outer) →
      foldOuter st0 st1 sz0 sz1 fuel outer idx0 idx1 len =
        (List.range' (idx1 + sz1 * idx0 + sz1 * (sz0 * enc outer)) len).map
          (offR ((sz1, st1) :: (sz0, st0) :: dimsR outer))
  | 0, _, _, _, len, _, _, _, hl, hf, _ => by omega
  | fuel + 1, outer, idx0, idx1, len, hw, hi0, hi1, hl, hf, hb => by
    unfold foldOuter
    rw [foldBlock_spec _ _ _ _ _ _ _ _ hl hi1]
    -- `R`: elements left in the current outer block
    have hR : sz1 * (sz0 - idx0) = sz1 * sz0 - sz1 * idx0 := Nat.mul_sub _ _ _
    have hle : sz1 * (idx0 + 1) ≤ sz1 * sz0 := Nat.mul_le_mul_left _ hi0
    rw [Nat.mul_succ] at hle
    -- pointwise agreement inside the block
    have hpt : ∀ n, idx1 + sz1 * idx0 + n ≤ sz1 * sz0 →
        (List.range' (idx1 + sz1 * idx0) n).map (blockOff (sumOff outer) st0 st1 sz1) =
        (List.range' (idx1 + sz1 * idx0 + sz1 * (sz0 * enc outer)) n).map
          (offR ((sz1, st1) :: (sz0, st0) :: dimsR outer)) := by
      intro n hn
      rw [map_range'_shift _ (idx1 + sz1 * idx0) (sz1 * (sz0 * enc outer))]
      apply List.map_congr_left
      intro v hv
      rw [List.mem_range'_1] at hv
      rw [offR_block hw h1 (by omega)]
    simp only
    rw [hR]
    by_cases hz : len ≤ sz1 * sz0 - sz1 * idx0 - idx1
    · have hm : min (sz1 * sz0 - sz1 * idx0 - idx1) len = len := by omega
      rw [hm, Nat.sub_self]
      simp only [if_true]
      exact hpt len (by omega)
    · have hm : min (sz1 * sz0 - sz1 * idx0 - idx1) len = sz1 * sz0 - sz1 * idx0 - idx1 := by
        omega
      rw [hm, if_neg (by omega)]
      -- the outer position must advance
      have hblk : idx1 + sz1 * idx0 + (sz1 * sz0 - sz1 * idx0 - idx1) = sz1 * sz0 := by omega
      have hlt : len > sz1 * sz0 - sz1 * idx0 - idx1 := by omega
      have hRpos : 1 ≤ sz1 * sz0 - sz1 * idx0 - idx1 := by omega
      have hmul : sz1 * (sz0 * (enc outer + 1)) = sz1 * (sz0 * enc outer) + sz1 * sz0 := by
        rw [Nat.mul_add, Nat.mul_one, Nat.mul_add]
      have hadv : enc outer + 1 < tot outer := by
        have : sz1 * (sz0 * (enc outer + 1)) < sz1 * (sz0 * tot outer) := by rw [hmul]; omega
        exact (Nat.mul_lt_mul_left h0).mp ((Nat.mul_lt_mul_left h1).mp this)
      have hflag := (stepOuterLoop_adv outer hw).mpr hadv
      have hnew := stepOuterLoop_eq outer hw
      cases hso : stepOuterLoop outer with
      | mk outer' adv =>
        rw [hso] at hflag hnew
        simp only at hflag hnew
        subst hflag
        subst hnew
        simp only [if_true]
        obtain ⟨henc, _, hdims, _⟩ := addPos_spec outer 1
        rw [Nat.mod_eq_of_lt hadv] at henc
        have hw' := addPos_wf outer 1 hw
        have htot : tot (addPos outer 1) = tot outer := by
          have e1 : ∀ ps qs : List IterPos, dimsR ps = dimsR qs → tot ps = tot qs := by
            intro ps
            induction ps with
            | nil => intro qs h; cases qs with
              | nil => rfl
              | cons _ _ => simp [dimsR] at h
            | cons p ps ih => intro qs h; cases qs with
              | nil => simp [dimsR] at h
              | cons q qs =>
                simp only [dimsR, List.map_cons, List.cons.injEq, Prod.mk.injEq] at h
                simp only [tot]
                rw [h.1.1, ih qs h.2]
          exact e1 _ _ hdims
        have ih := foldOuter_spec st0 st1 sz0 sz1 h1 h0 fuel (addPos outer 1) 0 0
          (len - (sz1 * sz0 - sz1 * idx0 - idx1)) hw' h0 h1 (by omega) (by omega)
          (by rw [henc, htot, hmul]; omega)
        rw [ih, hdims, henc, hpt _ (by omega)]
        have hsplit : len = (sz1 * sz0 - sz1 * idx0 - idx1) + (len - (sz1 * sz0 - sz1 * idx0 - idx1)) := by
          omega
        conv => rhs; rw [hsplit, ← List.range'_append, List.map_append]
        congr 2
        have hst : 0 + sz1 * 0 + sz1 * (sz0 * (enc outer + 1)) =
            idx1 + sz1 * idx0 + sz1 * (sz0 * enc outer) + 1 * (sz1 * sz0 - sz1 * idx0 - idx1) := by
          rw [hmul]; omega
        rw [hst]

theorem fold_spec {s : OffsetsBase} (hs : Inv s) : s.fold = absB s := by
  by_cases hl : s.len = 0
  · simp [OffsetsBase.fold, absB, hl]
  · have hfo : s.fold = foldOuter s.inner0.stride s.inner1.stride s.inner0.size s.inner1.size
        (s.len + 1) s.outerRev s.inner0.index s.inner1.index s.len := by
      simp only [OffsetsBase.fold, hl, if_false, foldOuter, hs.outer]
    have wo : ∀ p ∈ s.outerRev, WF p := fun p hp => hs.wf p (by simp [allPos, hp])
    have hb := hs.bound hl
    simp only [allPos, enc, tot] at hb
    rw [hfo, foldOuter_spec _ _ _ _ (size_pos _) (size_pos _) _ _ _ _ _ wo (index_lt _) (index_lt _)
      (by omega) (by omega) (by rw [Nat.mul_add] at hb; omega)]
    simp only [absB, allPos, enc, dimsR, List.map_cons, Nat.mul_add]
    congr 2
    omega

end RtenVerif.Iter
