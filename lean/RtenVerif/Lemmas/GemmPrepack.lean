import RtenVerif.Lemmas.GemmPack

/-! C16: the prepacked block lookup `PackedMatrixBase::block`. Core Lean only. -/
namespace RtenVerif.Gemm

theorem nextMultipleOf_eq {x t : Nat} (ht : 0 < t) : nextMultipleOf x t = divCeil x t * t := by
  unfold nextMultipleOf divCeil
  have h1 := Nat.div_add_mod' x t
  have h2 := Nat.mod_lt x ht
  by_cases h : x % t = 0
  · simp only [h, if_true]
    have : ¬ (0 > 0) := by omega
    simp only [Nat.lt_irrefl, if_false]
    omega
  · have hp : x % t > 0 := by omega
    simp only [h, if_false, hp, if_true, Nat.add_mul, Nat.one_mul]
    omega

/-- Indexing into a `flatMap` whose pieces *before* position `i` all have length `L`. -/
theorem getElem?_flatMap_prefix {ι β : Type} (f : ι → List β) (L : Nat) :
    ∀ (l : List ι) (i : Nat) (a : ι), l[i]? = some a →
      (∀ i' b, i' < i → l[i']? = some b → (f b).length = L) →
      ∀ j, j < (f a).length → (l.flatMap f)[i * L + j]? = (f a)[j]? := by
  intro l
  induction l with
  | nil => intro i a h; simp at h
  | cons b t ih =>
    intro i a hia hpre j hj
    rw [List.flatMap_cons]
    cases i with
    | zero =>
      rw [List.getElem?_cons_zero] at hia
      cases hia
      rw [Nat.zero_mul, Nat.zero_add, List.getElem?_append_left hj]
    | succ i =>
      rw [List.getElem?_cons_succ] at hia
      have hb : (f b).length = L := hpre 0 b (by omega) (by simp)
      have hidx : (i + 1) * L + j - (f b).length = i * L + j := by
        rw [hb, Nat.succ_mul]; omega
      rw [List.getElem?_append_right (by rw [hb, Nat.succ_mul]; omega), hidx]
      exact ih i a hia (fun i' c hi' hc => hpre (i' + 1) c (by omega) (by simpa using hc)) j hj

/-- Chunk `p` of `range_chunks`. -/
theorem rangeChunks_get (c : Nat) (hc : 0 < c) :
    ∀ (fuel s e : Nat), e - s ≤ fuel → ∀ p, s + p * c < e →
      (rangeChunks fuel s e c)[p]? = some (s + p * c, min (s + p * c + c) e) := by
  intro fuel
  induction fuel with
  | zero => intro s e h p hp; omega
  | succ f ih =>
    intro s e h p hp
    have hse : s < e := by omega
    unfold rangeChunks
    simp only [hse, if_true]
    have hs' : s + (min (s + c) e - s) = min (s + c) e := by omega
    rw [hs']
    cases p with
    | zero => simp
    | succ p =>
      have hsm : s + c < e := by rw [Nat.succ_mul] at hp; omega
      have hmin : min (s + c) e = s + c := by omega
      rw [List.getElem?_cons_succ, hmin, ih (s + c) e (by omega) p (by rw [Nat.succ_mul] at hp; omega)]
      have : s + (p + 1) * c = s + c + p * c := by rw [Nat.succ_mul]; omega
      rw [this]

theorem packAVals_length {α : Type} [Add α] [Mul α] [Zero α] (A : Nat → Nat → α)
    (mr rs re ds de : Nat) (hmr : 0 < mr) :
    (packAVals A mr rs re ds de).length = divCeil (re - rs) mr * (mr * (de - ds)) := by
  unfold packAVals
  rw [List.length_map, packASlots_length _ _ _ hmr]

theorem packBVals_length {α : Type} [Add α] [Mul α] [Zero α] (B : Nat → Nat → α)
    (nr ds de cs ce : Nat) :
    (packBVals B nr ds de cs ce).length = divCeil (ce - cs) nr * ((de - ds) * nr) := by
  unfold packBVals
  rw [List.length_map, packBSlots_length]

/-- Depth of depth block `idx`. -/
def blockDepth (K kc idx : Nat) : Nat := min (idx * kc + kc) K - idx * kc

/-- `block` in closed form: the panel stride it picks is `t · depth(idx)` (the tail stride exactly
for the short last block). -/
theorem prepack_block_eq {t nm K kc idx : Nat} (hkc : 0 < kc) (hidx : idx * kc < K) (s e : Nat) :
    (prepackBase t nm K kc).block s e idx =
      (idx * (nextMultipleOf nm t * kc) + (s / t) * (t * blockDepth K kc idx),
       idx * (nextMultipleOf nm t * kc) + divCeil e t * (t * blockDepth K kc idx),
       t * blockDepth K kc idx) := by
  have hlt : ¬ divCeil K kc ≤ idx := by rw [divCeil_le_iff hkc]; omega
  have hlast : divCeil K kc ≤ idx + 1 ↔ K ≤ (idx + 1) * kc := divCeil_le_iff hkc
  have hps : (if idx = divCeil K kc - 1 then (if K % kc = 0 then t * kc else t * (K % kc))
      else t * kc) = t * blockDepth K kc idx := by
    unfold blockDepth
    have hdm := Nat.div_add_mod' K kc
    have hml := Nat.mod_lt K hkc
    rw [Nat.succ_mul] at hlast
    by_cases hl : idx = divCeil K kc - 1
    · have hK : K ≤ idx * kc + kc := hlast.mp (by omega)
      rw [if_pos hl, Nat.min_eq_right hK]
      by_cases hm : K % kc = 0
      · rw [if_pos hm]
        have h1 : idx < K / kc := by
          apply Nat.lt_of_mul_lt_mul_right (a := kc); omega
        have h2 : K / kc ≤ idx + 1 := by
          apply Nat.le_of_mul_le_mul_right (c := kc) _ hkc
          rw [Nat.succ_mul]; omega
        have h3 : K / kc = idx + 1 := by omega
        rw [h3, Nat.succ_mul] at hdm
        congr 1; omega
      · rw [if_neg hm]
        have h1 : idx ≤ K / kc := (Nat.le_div_iff_mul_le hkc).mpr (by omega)
        have h2 : K / kc < idx + 1 := by
          apply (Nat.div_lt_iff_lt_mul hkc).mpr
          rw [Nat.succ_mul]
          rcases Nat.lt_or_eq_of_le hK with h | h
          · exact h
          · exfalso; apply hm; rw [h, ← Nat.succ_mul, Nat.mul_mod_left]
        have h3 : K / kc = idx := by omega
        rw [h3] at hdm
        congr 1; omega
    · have hK : ¬ K ≤ idx * kc + kc := fun h => hl (by have := hlast.mpr h; omega)
      rw [if_neg hl, Nat.min_eq_left (by omega)]
      congr 1; omega
  have hps' : (prepackBase t nm K kc).panelStrideAt idx = t * blockDepth K kc idx := by
    show (if idx = divCeil K kc - 1 then (if K % kc = 0 then t * kc else t * (K % kc))
      else t * kc) = _
    exact hps
  simp only [PackedBase.block, hps']
  rfl

theorem blockDepth_cases {K kc idx : Nat} (hkc : 0 < kc) (hidx : idx * kc < K) :
    (blockDepth K kc idx = kc ∧ idx + 1 ≤ K / kc) ∨
    (blockDepth K kc idx = K % kc ∧ idx = K / kc ∧ K % kc ≠ 0) := by
  unfold blockDepth
  have hdm := Nat.div_add_mod' K kc
  have hml := Nat.mod_lt K hkc
  by_cases h : idx * kc + kc ≤ K
  · left
    rw [Nat.min_eq_left h]
    refine ⟨by omega, (Nat.le_div_iff_mul_le hkc).mpr (by rw [Nat.succ_mul]; exact h)⟩
  · right
    rw [Nat.min_eq_right (by omega)]
    have h1 : idx ≤ K / kc := (Nat.le_div_iff_mul_le hkc).mpr (by omega)
    have h2 : K / kc < idx + 1 := (Nat.div_lt_iff_lt_mul hkc).mpr (by rw [Nat.succ_mul]; omega)
    have h3 : K / kc = idx := by omega
    rw [h3] at hdm
    refine ⟨by omega, h3.symm, by omega⟩

theorem blockDepth_pos {K kc idx : Nat} (hkc : 0 < kc) (hidx : idx * kc < K) :
    0 < blockDepth K kc idx := by
  unfold blockDepth; omega

/-- The slice returned by `block` lies inside the buffer `prepack_*` allocated, and consists of
`ceil(e/t) - s/t` panels of the returned stride. -/
theorem prepacked_block_in_bounds {t nm K kc idx s e : Nat} (ht : 0 < t) (hkc : 0 < kc)
    (hidx : idx * kc < K) (hse : s ≤ e) (he : e ≤ nm) :
    ((prepackBase t nm K kc).block s e idx).1 ≤ ((prepackBase t nm K kc).block s e idx).2.1 ∧
    ((prepackBase t nm K kc).block s e idx).2.1 ≤ (prepackBase t nm K kc).totalLen ∧
    ((prepackBase t nm K kc).block s e idx).2.1 - ((prepackBase t nm K kc).block s e idx).1 =
      (divCeil e t - s / t) * ((prepackBase t nm K kc).block s e idx).2.2 := by
  rw [prepack_block_eq hkc hidx]
  simp only [prepackBase]
  have hst : s / t ≤ divCeil e t := by
    apply Nat.le_of_mul_le_mul_right (c := t) _ ht
    have := Nat.div_mul_le_self s t
    have := divCeil_mul_ge (n := e) ht
    omega
  have h1 : s / t * (t * blockDepth K kc idx) ≤ divCeil e t * (t * blockDepth K kc idx) :=
    Nat.mul_le_mul_right _ hst
  have h2 : divCeil e t * (t * blockDepth K kc idx) ≤ divCeil nm t * (t * blockDepth K kc idx) :=
    Nat.mul_le_mul_right _ (divCeil_mono ht he)
  have hR : nextMultipleOf nm t = divCeil nm t * t := nextMultipleOf_eq ht
  have h3 : divCeil nm t * (t * blockDepth K kc idx) = nextMultipleOf nm t * blockDepth K kc idx := by
    rw [hR, Nat.mul_assoc]
  refine ⟨by omega, ?_, ?_⟩
  · rcases blockDepth_cases hkc hidx with ⟨hd, hi⟩ | ⟨hd, hi, hm⟩
    · have : (idx + 1) * (nextMultipleOf nm t * kc) ≤ K / kc * (nextMultipleOf nm t * kc) :=
        Nat.mul_le_mul_right _ hi
      rw [Nat.succ_mul] at this
      rw [hd] at h2 h3 ⊢
      omega
    · rw [if_neg hm, ← hi]
      rw [hd] at h2 h3 ⊢
      omega
  · have := Nat.sub_mul (divCeil e t) (s / t) (t * blockDepth K kc idx)
    omega

/-- The slice returned by `block` *is* the block `pack_a_block(rows s..e, depth block idx)` would
produce: element by element, panel `p` of the slice is panel `p` of that packed block. -/
theorem prepackedA_block_is_packed_block {α : Type} [Add α] [Mul α] [Zero α] (A : Nat → Nat → α)
    {t nm K kc idx s e p x k : Nat} (ht : 0 < t) (hkc : 0 < kc) (hidx : idx * kc < K)
    (hs : t ∣ s) (he : e ≤ nm) (hend : e = nm ∨ t ∣ e)
    (hp : s / t + p < divCeil e t) (hx : x < t) (hk : k < blockDepth K kc idx) :
    (prepackABuf A t nm K kc)[((prepackBase t nm K kc).block s e idx).1 +
        (p * (t * blockDepth K kc idx) + (x * blockDepth K kc idx + k))]? =
      (packAVals A t s e (idx * kc) (min (idx * kc + kc) K))[
        p * (t * blockDepth K kc idx) + (x * blockDepth K kc idx + k)]? := by
  rw [prepack_block_eq hkc hidx]
  simp only
  have hD : min (idx * kc + kc) K - idx * kc = blockDepth K kc idx := rfl
  have hsd : s / t * t = s := Nat.div_mul_cancel hs
  have hpe : (s / t + p) * t < e := by
    have : ¬ divCeil e t ≤ s / t + p := by omega
    rw [divCeil_le_iff ht] at this; omega
  have hpt : (s / t + p) * t = s + p * t := by rw [Nat.add_mul, hsd]
  have hidxeq : idx * (nextMultipleOf nm t * kc) + s / t * (t * blockDepth K kc idx) +
      (p * (t * blockDepth K kc idx) + (x * blockDepth K kc idx + k)) =
      idx * (divCeil nm t * (t * kc)) +
        ((s / t + p) * (t * blockDepth K kc idx) + (x * blockDepth K kc idx + k)) := by
    rw [nextMultipleOf_eq ht, Nat.mul_assoc (divCeil nm t) t kc, Nat.add_mul]; omega
  have hxk : x * blockDepth K kc idx + k < t * blockDepth K kc idx := by
    have : (x + 1) * blockDepth K kc idx ≤ t * blockDepth K kc idx := Nat.mul_le_mul_right _ hx
    rw [Nat.succ_mul] at this; omega
  have hj : (s / t + p) * (t * blockDepth K kc idx) + (x * blockDepth K kc idx + k) <
      (packAVals A t 0 nm (idx * kc) (min (idx * kc + kc) K)).length := by
    rw [packAVals_length _ _ _ _ _ _ ht, hD, Nat.sub_zero]
    have hlt : s / t + p + 1 ≤ divCeil nm t := by
      have := divCeil_mono ht he; omega
    have := Nat.mul_le_mul_right (t * blockDepth K kc idx) hlt
    rw [Nat.succ_mul] at this; omega
  unfold prepackABuf depthBlocks
  rw [hidxeq, getElem?_flatMap_prefix _ (divCeil nm t * (t * kc)) _ idx
    (idx * kc, min (idx * kc + kc) K)
    (by have := rangeChunks_get kc hkc K 0 K (by omega) idx (by omega); simpa using this)
    ?_ _ hj]
  · -- both sides through the slot formula
    unfold packAVals
    rw [List.getElem?_map, List.getElem?_map, hD, Nat.sub_zero,
      packASlots_get t nm _ ht (by omega) hx hk,
      packASlots_get t (e - s) _ ht (by omega) hx hk]
    have hcond : ((s / t + p) * t + x < nm) ↔ (p * t + x < e - s) := by
      rcases hend with h | ⟨q, hq⟩
      · subst h; omega
      · have hq' : e = q * t := by rw [hq, Nat.mul_comm]
        have hlt : s / t + p < q := by rw [hq', divCeil_mul_self ht] at hp; exact hp
        have := Nat.mul_le_mul_right t (Nat.succ_le_of_lt hlt)
        rw [Nat.succ_mul] at this
        constructor <;> intro _ <;> omega
    by_cases hc : p * t + x < e - s
    · have hc' := hcond.mpr hc
      simp only [hc, hc', if_true, Option.map_some]
      have : 0 + ((s / t + p) * t + x) = s + (p * t + x) := by omega
      rw [this]
    · have hc' : ¬ ((s / t + p) * t + x < nm) := fun h => hc (hcond.mp h)
      simp only [hc, hc', if_false, Option.map_some]
  · intro i' b hi' hb
    have hi'K : (i' + 1) * kc ≤ idx * kc := Nat.mul_le_mul_right _ hi'
    rw [Nat.succ_mul] at hi'K
    have := rangeChunks_get kc hkc K 0 K (by omega) i' (by omega)
    rw [this] at hb
    cases hb
    rw [packAVals_length _ _ _ _ _ _ ht]
    simp only [Nat.zero_add, Nat.sub_zero]
    have : min (i' * kc + kc) K - i' * kc = kc := by omega
    rw [this]

/-- Same for `prepack_b`: the slice is the block `pack_b_block(depth block idx, cols s..e)`. -/
theorem prepackedB_block_is_packed_block {α : Type} [Add α] [Mul α] [Zero α] (B : Nat → Nat → α)
    {t nm K kc idx s e p k y : Nat} (ht : 0 < t) (hkc : 0 < kc) (hidx : idx * kc < K)
    (hs : t ∣ s) (he : e ≤ nm) (hend : e = nm ∨ t ∣ e)
    (hp : s / t + p < divCeil e t) (hy : y < t) (hk : k < blockDepth K kc idx) :
    (prepackBBuf B t nm K kc)[((prepackBase t nm K kc).block s e idx).1 +
        (p * (t * blockDepth K kc idx) + (k * t + y))]? =
      (packBVals B t (idx * kc) (min (idx * kc + kc) K) s e)[
        p * (blockDepth K kc idx * t) + (k * t + y)]? := by
  rw [prepack_block_eq hkc hidx]
  simp only
  have hD : min (idx * kc + kc) K - idx * kc = blockDepth K kc idx := rfl
  have hsd : s / t * t = s := Nat.div_mul_cancel hs
  have hpe : (s / t + p) * t < e := by
    have : ¬ divCeil e t ≤ s / t + p := by omega
    rw [divCeil_le_iff ht] at this; omega
  have hpt : (s / t + p) * t = s + p * t := by rw [Nat.add_mul, hsd]
  have hcomm : t * blockDepth K kc idx = blockDepth K kc idx * t := Nat.mul_comm _ _
  have hidxeq : idx * (nextMultipleOf nm t * kc) + s / t * (t * blockDepth K kc idx) +
      (p * (t * blockDepth K kc idx) + (k * t + y)) =
      idx * (divCeil nm t * (kc * t)) +
        ((s / t + p) * (blockDepth K kc idx * t) + (k * t + y)) := by
    rw [nextMultipleOf_eq ht, Nat.mul_assoc (divCeil nm t) t kc, Nat.mul_comm t kc, Nat.add_mul,
      hcomm]; omega
  have hky : k * t + y < blockDepth K kc idx * t := by
    have : (k + 1) * t ≤ blockDepth K kc idx * t := Nat.mul_le_mul_right _ hk
    rw [Nat.succ_mul] at this; omega
  have hpn : s / t + p < divCeil nm t := by
    have := divCeil_mono ht he; omega
  have hj : (s / t + p) * (blockDepth K kc idx * t) + (k * t + y) <
      (packBVals B t (idx * kc) (min (idx * kc + kc) K) 0 nm).length := by
    rw [packBVals_length, hD, Nat.sub_zero]
    have := Nat.mul_le_mul_right (blockDepth K kc idx * t) (Nat.succ_le_of_lt hpn)
    rw [Nat.succ_mul] at this; omega
  unfold prepackBBuf depthBlocks
  rw [hidxeq, getElem?_flatMap_prefix _ (divCeil nm t * (kc * t)) _ idx
    (idx * kc, min (idx * kc + kc) K)
    (by have := rangeChunks_get kc hkc K 0 K (by omega) idx (by omega); simpa using this)
    ?_ _ hj]
  · unfold packBVals
    have hp2 : p < divCeil (e - s) t := by
      have : ¬ divCeil (e - s) t ≤ p := by rw [divCeil_le_iff ht]; omega
      omega
    dsimp only
    rw [List.getElem?_map, List.getElem?_map, hD, Nat.sub_zero,
      packBSlots_get t _ nm hpn hk hy, packBSlots_get t _ (e - s) hp2 hk hy]
    have hcond : ((s / t + p) * t + y < nm) ↔ (p * t + y < e - s) := by
      rcases hend with h | ⟨q, hq⟩
      · subst h; omega
      · have hq' : e = q * t := by rw [hq, Nat.mul_comm]
        have hlt : s / t + p < q := by rw [hq', divCeil_mul_self ht] at hp; exact hp
        have := Nat.mul_le_mul_right t (Nat.succ_le_of_lt hlt)
        rw [Nat.succ_mul] at this
        constructor <;> intro _ <;> omega
    by_cases hc : p * t + y < e - s
    · have hc' := hcond.mpr hc
      simp only [hc, hc', if_true, Option.map_some]
      have : 0 + ((s / t + p) * t + y) = s + (p * t + y) := by omega
      rw [this]
    · have hc' : ¬ ((s / t + p) * t + y < nm) := fun h => hc (hcond.mp h)
      simp only [hc, hc', if_false, Option.map_some]
  · intro i' b hi' hb
    have hi'K : (i' + 1) * kc ≤ idx * kc := Nat.mul_le_mul_right _ hi'
    rw [Nat.succ_mul] at hi'K
    have := rangeChunks_get kc hkc K 0 K (by omega) i' (by omega)
    rw [this] at hb
    cases hb
    rw [packBVals_length]
    simp only [Nat.zero_add, Nat.sub_zero]
    have : min (i' * kc + kc) K - i' * kc = kc := by omega
    rw [this]

end RtenVerif.Gemm
