import RtenVerif.Lemmas.SymSimp

/-! `range` is sound (C11.T2, for the code after fix f73ff8c). -/
set_option linter.unusedSimpArgs false
namespace RtenVerif.Sym

theorem tdiv_bounds_pos {x y : Int} (hy : 0 < y) :
    imin x 0 ≤ x.tdiv y ∧ x.tdiv y ≤ imax x 0 := by
  unfold imin imax
  by_cases hx : 0 ≤ x
  · have h1 := Int.tdiv_nonneg hx (Int.le_of_lt hy)
    have h2 := Int.tdiv_le_self y hx
    (repeat' split) <;> omega
  · have hx' : 0 ≤ -x := by omega
    have h1 := Int.tdiv_nonneg hx' (Int.le_of_lt hy)
    have h2 := Int.tdiv_le_self y hx'
    rw [Int.neg_tdiv] at h1 h2
    (repeat' split) <;> omega

theorem tdiv_bounds_abs (x y : Int) :
    imin x (-x) ≤ x.tdiv y ∧ x.tdiv y ≤ imax x (-x) := by
  have := Int.natAbs_tdiv_le_natAbs x y
  unfold imin imax
  (repeat' split) <;> omega

theorem divCeilI_bounds_pos {x y : Int} (hy : 0 < y) :
    imin x 0 ≤ divCeilI x y ∧ divCeilI x y ≤ imax x 0 := by
  rw [divCeilI_pos hy]
  unfold imin imax
  by_cases hx : 0 ≤ x
  · have h1 := Int.ediv_nonpos_of_nonpos_of_neg (n := -x) (s := y) (by omega) hy
    have h2 : -x ≤ (-x) / y := by
      apply Int.le_ediv_of_mul_le hy
      have := Int.mul_le_mul_of_nonneg_left (a := 1) (b := y) (c := x) (by omega) hx
      rw [Int.mul_one] at this
      rw [Int.neg_mul]; omega
    (repeat' split) <;> omega
  · have hx' : 0 ≤ -x := by omega
    have h1 := Int.ediv_nonneg hx' (Int.le_of_lt hy)
    have h2 := Int.ediv_le_self y hx'
    (repeat' split) <;> omega

theorem divCeilI_neg_neg {x y : Int} (hy : y < 0) : divCeilI x y = divCeilI (-x) (-y) := by
  unfold divCeilI
  simp only [Int.neg_tdiv, Int.tdiv_neg, Int.neg_neg, Int.neg_tmod, Int.tmod_neg]
  by_cases hr : x.tmod y = 0
  · simp [hr]
  · have hx0 : x ≠ 0 := by intro h; subst h; simp at hr
    have h1 : (-x.tmod y ≠ 0) := by omega
    simp only [ne_eq, hr, not_false_eq_true, ↓reduceIte, h1]
    have hny : ¬ (-y < 0) := by omega
    by_cases hx : x < 0
    · have hnx : ¬ (-x < 0) := by omega
      have e1 : decide (x < 0) = decide (y < 0) := by simp [hx, hy]
      have e2 : decide (-x < 0) = decide (-y < 0) := by
        rw [decide_eq_false hnx, decide_eq_false hny]
      rw [if_pos e1, if_pos e2]
    · have hnx : -x < 0 := by omega
      have e1 : ¬ (decide (x < 0) = decide (y < 0)) := by simp [hx, hy]
      have e2 : ¬ (decide (-x < 0) = decide (-y < 0)) := by
        rw [decide_eq_true hnx, decide_eq_false hny]; simp
      rw [if_neg e1, if_neg e2]

theorem divCeilI_bounds_abs {x y : Int} (hy : y ≠ 0) :
    imin x (-x) ≤ divCeilI x y ∧ divCeilI x y ≤ imax x (-x) := by
  by_cases hp : 0 < y
  · have := divCeilI_bounds_pos (x := x) hp
    unfold imin imax at *
    revert this
    (repeat' split) <;> omega
  · have hn : y < 0 := by omega
    rw [divCeilI_neg_neg hn]
    have := divCeilI_bounds_pos (x := -x) (y := -y) (by omega)
    unfold imin imax at *
    revert this
    (repeat' split) <;> omega

/-- Overflow-checked evaluation. -/
abbrev evc (σ : Env) (e : SymExpr) : Except EvalErr Int := eval Arith.checked σ e

theorem lift_chk {x v : Int} (h : lift (chk x) = .ok v) : v = x ∧ I32MIN ≤ x ∧ x ≤ I32MAX := by
  cases hc : chk x with
  | none => simp [hc, lift] at h
  | some w =>
    simp [hc, lift] at h; subst h
    exact chk_some hc

theorem evc_bin_ok {σ : Env} {o : Op} {a b : SymExpr} {v : Int}
    (h : evc σ (.bin o a b) = .ok v) :
    ∃ x y, evc σ a = .ok x ∧ evc σ b = .ok y ∧ ((o = .div ∨ o = .divCeil) → y ≠ 0) ∧
      v = opF o x y ∧
      ((o = .max ∨ o = .min ∨ o = .broadcast) ∨ (I32MIN ≤ v ∧ v ≤ I32MAX)) := by
  rw [evc, eval] at h
  cases h1 : eval Arith.checked σ a with
  | error e => simp [h1] at h
  | ok x =>
    cases h2 : eval Arith.checked σ b with
    | error e => simp [h1, h2] at h
    | ok y =>
      simp only [h1, h2] at h
      refine ⟨x, y, h1, h2, ?_⟩
      cases o <;> simp only [evalOp, Arith.checked] at h
      · obtain ⟨rfl, h'⟩ := lift_chk h; simp [opF, bcastI]; exact h'
      · obtain ⟨rfl, h'⟩ := lift_chk h; simp [opF, bcastI]; exact h'
      · obtain ⟨rfl, h'⟩ := lift_chk h; simp [opF, bcastI]; exact h'
      · split at h
        · simp at h
        · rename_i hy; obtain ⟨rfl, h'⟩ := lift_chk h; simp [opF, bcastI]; exact ⟨hy, h'⟩
      · split at h
        · simp at h
        · rename_i hy; obtain ⟨rfl, h'⟩ := lift_chk h; simp [opF, bcastI]; exact ⟨hy, h'⟩
      · simp at h; simp [opF, h]
      · simp at h; simp [opF, h]
      · simp at h; subst h; simp [opF]

theorem sat_lo {b v : Int} (h : b ≤ v) (hv : I32MIN ≤ v ∧ v ≤ I32MAX) : sat b ≤ v := by
  unfold sat I32MIN I32MAX at *; (repeat' split) <;> omega

theorem sat_hi {b v : Int} (h : v ≤ b) (hv : I32MIN ≤ v ∧ v ≤ I32MAX) : v ≤ sat b := by
  unfold sat I32MIN I32MAX at *; (repeat' split) <;> omega

/-- **C11.T2.** Whenever the overflow-checked evaluation of `e` succeeds with `v` under an
assignment in the domain, `v` is an `i32`, it is the ideal value, and it lies in `range e`. -/
theorem range_sound (σ : Env) :
    ∀ (e : SymExpr) (v : Int), Dom σ e → evc σ e = .ok v →
      ev σ e = .ok v ∧ (I32MIN ≤ v ∧ v ≤ I32MAX) ∧ (range e).1 ≤ v ∧ v ≤ (range e).2 := by
  intro e
  induction e with
  | value x =>
    intro v hd hv
    simp only [evc, eval] at hv; simp at hv; subst hv
    exact ⟨rfl, hd, by simp [range]⟩
  | var n p =>
    intro v hd hv
    simp only [evc, eval] at hv
    split at hv
    · rename_i w hw
      simp at hv; subst hv
      obtain ⟨h1, h2, h3⟩ := hd w hw
      refine ⟨by simp [ev, eval, hw], ⟨h1, h2⟩, ?_⟩
      simp only [range]
      split
      · rename_i hp; have := h3 hp; exact ⟨this, h2⟩
      · exact ⟨h1, h2⟩
    · simp at hv
  | neg a ih =>
    intro v hd hv
    rw [evc, eval] at hv
    cases h1 : eval Arith.checked σ a with
    | error e => simp [h1] at hv
    | ok x =>
      simp only [h1] at hv
      obtain ⟨rfl, hr⟩ := lift_chk hv
      obtain ⟨hev, _, hlo, hhi⟩ := ih x hd h1
      refine ⟨ev_neg_ok.mpr ⟨x, hev, rfl⟩, hr, ?_⟩
      simp only [range]
      exact ⟨sat_lo (by omega) hr, sat_hi (by omega) hr⟩
  | bin o a b iha ihb =>
    intro v hd hv
    obtain ⟨hda, hdb, hdB⟩ := hd
    obtain ⟨x, y, hx, hy, h0, rfl, hrng⟩ := evc_bin_ok hv
    obtain ⟨hxe, hxr, hxlo, hxhi⟩ := iha x hda hx
    obtain ⟨hye, hyr, hylo, hyhi⟩ := ihb y hdb hy
    have hev : ev σ (.bin o a b) = .ok (opF o x y) := ev_bin_ok'.mpr ⟨x, y, hxe, hye, h0, rfl⟩
    have hr : I32MIN ≤ opF o x y ∧ opF o x y ≤ I32MAX := by
      rcases hrng with h | h
      · rcases h with rfl | rfl | rfl <;> simp only [opF, bcastI] <;> split <;> omega
      · exact h
    refine ⟨hev, hr, ?_⟩
    cases o <;> simp only [range]
    · -- add
      simp only [opF, bcastI] at hr ⊢
      exact ⟨sat_lo (by omega) hr, sat_hi (by omega) hr⟩
    · -- sub
      exact hr
    · -- mul
      simp only [opF, bcastI] at hr ⊢
      split
      · rename_i hpos
        have hx0 : 0 ≤ x := by omega
        have hy0 : 0 ≤ y := by omega
        have l1 : (range a).1 * (range b).1 ≤ x * y :=
          Int.mul_le_mul hxlo hylo hpos.2 hx0
        have l2 : x * y ≤ (range a).2 * (range b).2 :=
          Int.mul_le_mul hxhi hyhi hy0 (by omega)
        exact ⟨sat_lo l1 hr, sat_hi l2 hr⟩
      · exact hr
    · -- div
      have hy0 := h0 (.inl rfl)
      simp only [opF, bcastI] at hr ⊢
      split
      · have := tdiv_bounds_pos (x := x) (y := y) (by omega)
        unfold imin imax at *
        revert this
        (repeat' split) <;> omega
      · have := tdiv_bounds_abs x y
        have s1 := sat_lo (b := -(range a).2) (v := -x) (by omega)
        have s2 := sat_hi (b := -(range a).1) (v := -x) (by omega)
        unfold imin imax at *
        revert this
        by_cases hxm : x = I32MIN
        · -- `-x` is not an `i32`; the bound comes from the other component
          subst hxm
          unfold sat I32MIN I32MAX at *
          (repeat' split) <;> omega
        · have hnx : I32MIN ≤ -x ∧ -x ≤ I32MAX := by unfold I32MIN I32MAX at *; omega
          have s1 := s1 hnx
          have s2 := s2 hnx
          (repeat' split) <;> omega
    · -- divCeil
      have hy0 := h0 (.inr rfl)
      simp only [opF, bcastI] at hr ⊢
      split
      · have := divCeilI_bounds_pos (x := x) (y := y) (by omega)
        unfold imin imax at *
        revert this
        (repeat' split) <;> omega
      · have := divCeilI_bounds_abs (x := x) hy0
        have s1 := sat_lo (b := -(range a).2) (v := -x) (by omega)
        have s2 := sat_hi (b := -(range a).1) (v := -x) (by omega)
        unfold imin imax at *
        revert this
        by_cases hxm : x = I32MIN
        · subst hxm
          unfold sat I32MIN I32MAX at *
          (repeat' split) <;> omega
        · have hnx : I32MIN ≤ -x ∧ -x ≤ I32MAX := by unfold I32MIN I32MAX at *; omega
          have s1 := s1 hnx
          have s2 := s2 hnx
          (repeat' split) <;> omega
    · -- max
      simp only [opF, bcastI, imin, imax]
      (repeat' split) <;> omega
    · -- min
      simp only [opF, bcastI, imin, imax]
      (repeat' split) <;> omega
    · -- broadcast
      have := hdB rfl x y hxe hye
      simp only [opF, bcastI, imin, imax]
      (repeat' split) <;> omega

end RtenVerif.Sym
