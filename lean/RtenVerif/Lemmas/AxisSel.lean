import RtenVerif.Lemmas.Gather

/-! C09: selections that touch a single axis (`slice_axis`, `split`). -/
namespace RtenVerif.Layout
open RtenVerif.Arr RtenVerif.Overlap

/-- Keep the first `axis` axes whole, apply `sel` to axis `axis`. -/
def axisASel (axis : Nat) (shape : List Nat) (sel : ASel) : List ASel :=
  (shape.take axis).map (fun n => ASel.arith 0 n 1) ++ [sel]

theorem range_map_id (n : Nat) : (List.range n).map (fun j => 0 + j * 1) = List.range n := by
  have : (fun j : Nat => 0 + j * 1) = id := by funext j; simp
  rw [this, List.map_id]

theorem axisASel_toSel (axis : Nat) (shape : List Nat) (a c : Nat) :
    (axisASel axis shape (.arith a c 1)).map ASel.toSel =
      NArr.axisSel axis shape (Sel.take ((List.range c).map (a + ·))) := by
  simp only [axisASel, NArr.axisSel, List.map_append, List.map_map, List.map_cons, List.map_nil,
    ASel.toSel]
  congr 1
  · apply List.map_congr_left
    intro n _
    simp only [Function.comp, ASel.toSel, range_map_id]
  · simp

theorem axisASel_spec (d : Dims) (axis a c : Nat) (hk : axis < d.length) :
    aDims d (axisASel axis (sizes d) (.arith a c 1)) = resizeDim d axis c ∧
    aOff d (axisASel axis (sizes d) (.arith a c 1)) = (d.getD axis (0, 0)).2 * a ∧
    (aOk (sizes d) (axisASel axis (sizes d) (.arith a c 1)) ↔
      (c = 0 ∨ a + (c - 1) < (d.getD axis (0, 0)).1)) := by
  induction axis generalizing d with
  | zero =>
    cases d with
    | nil => simp at hk
    | cons p ds =>
      obtain ⟨n, st⟩ := p
      simp [axisASel, sizes, aDims, aOff, aOk, resizeDim]
  | succ k ih =>
    cases d with
    | nil => simp at hk
    | cons p ds =>
      obtain ⟨n, st⟩ := p
      have hk' : k < ds.length := by simpa using hk
      obtain ⟨h1, h2, h3⟩ := ih ds hk'
      simp only [axisASel, sizes] at h1 h2 h3
      refine ⟨?_, ?_, ?_⟩
      · simp only [axisASel, sizes, List.map_cons, List.take_succ_cons, List.cons_append, aDims,
          h1, Nat.mul_one]
        simp only [resizeDim, List.getElem?_cons_succ, List.set_cons_succ]
        cases hds : ds[k]? <;> simp
      · simp only [axisASel, sizes, List.map_cons, List.take_succ_cons, List.cons_append, aOff, h2,
          List.getD_cons_succ]
        omega
      · simp only [axisASel, sizes, List.map_cons, List.take_succ_cons, List.cons_append, aOk, h3,
          List.getD_cons_succ]
        constructor
        · exact fun h => h.2
        · intro h
          exact ⟨by omega, h⟩

theorem resizeDim_stride (d : Dims) (axis c : Nat) :
    ((resizeDim d axis c).getD axis (0, 0)).2 = (d.getD axis (0, 0)).2 := by
  induction axis generalizing d with
  | zero => cases d <;> simp [resizeDim]
  | succ k ih =>
    cases d with
    | nil => simp [resizeDim]
    | cons p ds =>
      have := ih ds
      simp only [resizeDim, List.getElem?_cons_succ, List.getD_cons_succ] at this ⊢
      cases hds : ds[k]? with
      | none => simp [hds] at this ⊢
      | some q => simp [hds] at this ⊢; exact this

/-- The single-axis range selection as every caller uses it. -/
theorem axis_select {α : Type} [Inhabited α] (v : View) (axis a c : Nat) (s : Nat → α)
    (hk : axis < v.dims.length) (hb : c = 0 ∨ a + (c - 1) < (v.dims.getD axis (0, 0)).1)
    (hwf : WF v) :
    ∃ v', v.window (if numelD (resizeDim v.dims axis c) = 0 then 0 else (v.dims.getD axis (0, 0)).2 * a)
        ((if numelD (resizeDim v.dims axis c) = 0 then 0 else (v.dims.getD axis (0, 0)).2 * a) +
          minDataLen (resizeDim v.dims axis c)) (resizeDim v.dims axis c) = .ok v' ∧
      denote v' s = NArr.gather
        (NArr.axisSel axis (sizes v.dims) (Sel.take ((List.range c).map (a + ·)))) (denote v s) ∧
      WF v' ∧ (numelD (resizeDim v.dims axis c) ≠ 0 →
        (v.dims.getD axis (0, 0)).2 * a + minDataLen (resizeDim v.dims axis c) ≤ minDataLen v.dims) := by
  obtain ⟨h1, h2, h3⟩ := axisASel_spec v.dims axis a c hk
  have hok := h3.mpr hb
  obtain ⟨v', hw, hden, hwf'⟩ := select_refines v _ s hok hwf _ rfl
  rw [h1, h2] at hw
  rw [axisASel_toSel] at hden
  refine ⟨v', hw, hden, hwf', ?_⟩
  intro hne
  have := aOff_minDataLen v.dims _ hok (by rw [h1]; exact hne)
  rw [h1, h2] at this
  exact this

theorem window_ok_eq (v v' : View) (a b : Nat) (d : Dims) (h : v.window a b d = .ok v') :
    v' = ⟨v.base + a, b - a, d⟩ := by
  unfold View.window at h
  split at h
  · injection h with h; exact h.symm
  · cases h

theorem denote_base_dims {α : Type} (v w : View) (s : Nat → α) (hb : v.base = w.base)
    (hd : v.dims = w.dims) : denote v s = denote w s := by
  unfold denote; rw [hb, hd]

theorem denote_empty {α : Type} (v w : View) (s : Nat → α) (hd : v.dims = w.dims)
    (he : numelD v.dims = 0) : denote v s = denote w s := by
  unfold denote
  rw [← hd]
  apply NArr.ofFn_congr
  intro idx h
  exfalso
  have := numel_pos_of_valid h
  unfold numelD at he
  omega

end RtenVerif.Layout
