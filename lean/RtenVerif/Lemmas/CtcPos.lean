import RtenVerif.Lemmas.CtcBound

/-! C39 (F): over `natOps` the all-zero fallback never fires when the row has a positive
entry and the beam holds a state of positive probability. Core Lean only. -/
namespace RtenVerif.Ctc

theorem le_sum_of_mem {β : Type} (f : β → Nat) (l : List β) (x : β) (hx : x ∈ l) :
    f x ≤ (l.map f).sum := by
  induction l with
  | nil => cases hx
  | cons a l ih =>
    simp only [List.map_cons, List.sum_cons]
    rcases List.mem_cons.mp hx with rfl | h
    · omega
    · have := ih h; omega

/-- Merge part and repeat part of `cL`. -/
def cLm (beam : List (BState Nat)) (row : List Nat) (bi : Nat) (s : BState Nat) (label : Nat)
    (i j : Nat) : Nat :=
  let prob := row.getD label 0
  let prev := (s.pre.getLast?).map (·.label)
  let tgt : Nat × Nat :=
    match mergeTarget beam s.pre label with
    | some ti => (ti, 0)
    | none => (bi, label)
  (if i = tgt.1 ∧ j = tgt.2 then
      (if some label != prev then s.pb * prob + s.pnb * prob else s.pb * prob) else 0)

def cLs (row : List Nat) (bi : Nat) (s : BState Nat) (label : Nat) (i j : Nat) : Nat :=
  let prob := row.getD label 0
  let prev := (s.pre.getLast?).map (·.label)
  (if (some label != prev) = false ∧ i = bi ∧ j = 0 then s.pnb * prob else 0)

theorem cL_split (beam : List (BState Nat)) (row : List Nat) (bi : Nat) (s : BState Nat)
    (label i j : Nat) : cL beam row bi s label i j = cLm beam row bi s label i j + cLs row bi s label i j :=
  rfl

theorem cL_le_nnb (L : Nat) (beam : List (BState Nat)) (row : List Nat) (i j : Nat)
    (sb : BState Nat × Nat) (hsb : sb ∈ beam.zipIdx) (label : Nat)
    (hl : label ∈ List.range' 1 (L - 1)) :
    cL beam row sb.2 sb.1 label i j ≤ (extendAll natOps L beam row).nnb i j := by
  rw [extendAll_nnb]
  refine Nat.le_trans ?_ (le_sum_of_mem (fun sb => cS L beam row sb i j) _ sb hsb)
  exact le_sum_of_mem (fun label => cL beam row sb.2 sb.1 label i j) _ label hl

section
attribute [local irreducible] cLm cLs cL

/-- Two contributions from (possibly different) iterations, one merge part and one repeat part. -/
theorem parts_le_nnb (L : Nat) (beam : List (BState Nat)) (row : List Nat) (i j : Nat)
    (sb1 : BState Nat × Nat) (h1 : sb1 ∈ beam.zipIdx) (l1 : Nat) (hl1 : l1 ∈ List.range' 1 (L - 1))
    (sb2 : BState Nat × Nat) (h2 : sb2 ∈ beam.zipIdx) (l2 : Nat) (hl2 : l2 ∈ List.range' 1 (L - 1)) :
    cLm beam row sb1.2 sb1.1 l1 i j + cLs row sb2.2 sb2.1 l2 i j ≤
      (extendAll natOps L beam row).nnb i j := by
  rw [extendAll_nnb]
  let f : BState Nat × Nat → Nat → Nat := fun sb label => cLm beam row sb.2 sb.1 label i j
  let g : BState Nat × Nat → Nat → Nat := fun sb label => cLs row sb.2 sb.1 label i j
  have hcs : (beam.zipIdx.map (fun sb => cS L beam row sb i j)).sum =
      (beam.zipIdx.map (fun x => ((List.range' 1 (L - 1)).map (fun y => f x y + g x y)).sum)).sum := by
    congr 1
    apply List.map_congr_left
    intro sb _
    unfold cS
    congr 1
    apply List.map_congr_left
    intro label _
    exact cL_split beam row sb.2 sb.1 label i j
  rw [hcs, sum2_add beam.zipIdx (List.range' 1 (L - 1)) f g]
  have hf1 : f sb1 l1 ≤ ((List.range' 1 (L - 1)).map (f sb1)).sum :=
    le_sum_of_mem (f sb1) _ l1 hl1
  have hf2 : ((List.range' 1 (L - 1)).map (f sb1)).sum ≤
      (beam.zipIdx.map (fun x => ((List.range' 1 (L - 1)).map (f x)).sum)).sum :=
    le_sum_of_mem (fun x => ((List.range' 1 (L - 1)).map (f x)).sum) _ sb1 h1
  have hg1 : g sb2 l2 ≤ ((List.range' 1 (L - 1)).map (g sb2)).sum :=
    le_sum_of_mem (g sb2) _ l2 hl2
  have hg2 : ((List.range' 1 (L - 1)).map (g sb2)).sum ≤
      (beam.zipIdx.map (fun x => ((List.range' 1 (L - 1)).map (g x)).sum)).sum :=
    le_sum_of_mem (fun x => ((List.range' 1 (L - 1)).map (g x)).sum) _ sb2 h2
  exact Nat.add_le_add (Nat.le_trans hf1 hf2) (Nat.le_trans hg1 hg2)

end

theorem nb_ge (L : Nat) (beam : List (BState Nat)) (row : List Nat) (i : Nat) (s : BState Nat)
    (hs : beam[i]? = some s) :
    s.pb * row.getD 0 0 + s.pnb * row.getD 0 0 ≤ (extendAll natOps L beam row).nb i 0 := by
  rw [extendAll_nb]
  have hm : (s, i) ∈ beam.zipIdx := List.mem_zipIdx_iff_getElem?.mpr hs
  have := le_sum_of_mem (fun (sb : BState Nat × Nat) =>
    if i = sb.2 ∧ 0 = 0 then sb.1.pb * row.getD 0 0 + sb.1.pnb * row.getD 0 0 else 0) _ _ hm
  simpa using this

theorem mem_range'_of {l L : Nat} (h1 : 1 ≤ l) (h2 : l < L) : l ∈ List.range' 1 (L - 1) := by
  rw [List.mem_range'_1]; omega

/-! ## Selection keeps something whenever some candidate is non-zero -/

theorem sortDesc_length {α} (ops : Ops α) (l : List (Ext α)) : (sortDesc ops l).length = l.length :=
  (sortDesc_perm ops l).length_eq

theorem pushExt_ne_nil_of_ne_nil {α} (ops : Ops α) (B : Nat) (hB : 1 ≤ B) (topk : List (Ext α))
    (c : Ext α) (h : topk ≠ []) : pushExt ops B topk c ≠ [] := by
  unfold pushExt
  split
  · exact h
  · split
    · intro hc
      have := congrArg List.length hc
      simp only [List.length_take, sortDesc_length, List.length_append, List.length_cons,
        List.length_nil] at this
      omega
    · exact h

theorem pushExt_ne_nil_of_nonzero {α} (ops : Ops α) (B : Nat) (hB : 1 ≤ B) (topk : List (Ext α))
    (c : Ext α) (hz : ops.isZero c.prob = false) : pushExt ops B topk c ≠ [] := by
  by_cases h : topk = []
  · subst h
    unfold pushExt
    rw [if_neg (by simp [hz])]
    have : (([] : List (Ext α)).length < B) := by simp; omega
    simp only [this, decide_true, Bool.true_or, if_true]
    intro hc
    have := congrArg List.length hc
    simp only [List.length_take, sortDesc_length, List.length_append, List.length_cons,
      List.length_nil] at this
    omega
  · exact pushExt_ne_nil_of_ne_nil ops B hB topk c h

theorem foldl_pushExt_ne_nil {α} (ops : Ops α) (B : Nat) (hB : 1 ≤ B) (cands : List (Ext α)) :
    ∀ topk, (topk ≠ [] ∨ ∃ c ∈ cands, ops.isZero c.prob = false) →
      cands.foldl (pushExt ops B) topk ≠ [] := by
  induction cands with
  | nil =>
    intro topk h
    rcases h with h | ⟨c, hc, _⟩
    · exact h
    · cases hc
  | cons a cs ih =>
    intro topk h
    simp only [List.foldl_cons]
    apply ih
    rcases h with h | ⟨c, hc, hz⟩
    · exact Or.inl (pushExt_ne_nil_of_ne_nil ops B hB topk a h)
    · rcases List.mem_cons.mp hc with rfl | hc
      · exact Or.inl (pushExt_ne_nil_of_nonzero ops B hB topk c hz)
      · exact Or.inr ⟨c, hc, hz⟩

theorem mem_candidates_of {α} (ops : Ops α) (L n : Nat) (t : Tabs α) (i l : Nat) (hi : i < n)
    (hl : l < L) : (⟨i, l, ops.add (t.nb i l) (t.nnb i l)⟩ : Ext α) ∈ candidates ops L n t := by
  unfold candidates
  simp only [List.mem_flatMap, List.mem_map, List.mem_range]
  exact ⟨i, hi, l, hl, rfl⟩

/-- Some extension has non-zero probability when state 0 has positive probability and the
row has a positive entry. -/
theorem exists_nonzero_candidate (L : Nat) (beam : List (BState Nat)) (row : List Nat)
    (s : BState Nat) (hs : beam[0]? = some s) (hpos : 0 < s.pb + s.pnb)
    (l : Nat) (hl : l < L) (hrow : 0 < row.getD l 0) :
    ∃ c ∈ candidates natOps L beam.length (extendAll natOps L beam row),
      natOps.isZero c.prob = false := by
  have hlen : 0 < beam.length := by
    obtain ⟨h, _⟩ := List.getElem?_eq_some_iff.mp hs; exact h
  have hm : (s, 0) ∈ beam.zipIdx := List.mem_zipIdx_iff_getElem?.mpr hs
  -- it suffices to exhibit a cell (i, j) with i < len, j < L and nb + nnb > 0
  suffices h : ∃ i j, i < beam.length ∧ j < L ∧
      0 < (extendAll natOps L beam row).nb i j + (extendAll natOps L beam row).nnb i j by
    obtain ⟨i, j, hi, hj, hp⟩ := h
    refine ⟨_, mem_candidates_of natOps L beam.length _ i j hi hj, ?_⟩
    have hne : (extendAll natOps L beam row).nb i j + (extendAll natOps L beam row).nnb i j ≠ 0 := by
      omega
    simpa [natOps] using hne
  by_cases hl0 : l = 0
  · subst hl0
    refine ⟨0, 0, hlen, hl, ?_⟩
    have := nb_ge L beam row 0 s hs
    have h2 : 0 < s.pb * row.getD 0 0 + s.pnb * row.getD 0 0 := by
      rw [← Nat.add_mul]; exact Nat.mul_pos hpos hrow
    omega
  · have hlr : l ∈ List.range' 1 (L - 1) := mem_range'_of (by omega) hl
    have hcl := fun i j => cL_le_nnb L beam row i j (s, 0) hm l hlr
    -- where does the merge part go?
    have tgt_ok : ∀ ti, mergeTarget beam s.pre l = some ti → ti < beam.length := by
      intro ti h
      obtain ⟨s2, h2, _⟩ := mergeTarget_sound beam s.pre l ti h
      obtain ⟨hh, _⟩ := List.getElem?_eq_some_iff.mp h2; exact hh
    by_cases hne : (some l != (s.pre.getLast?).map (·.label)) = true
    · -- whole mass goes to the target cell
      have hv : 0 < s.pb * row.getD l 0 + s.pnb * row.getD l 0 := by
        rw [← Nat.add_mul]; exact Nat.mul_pos hpos hrow
      cases hmt : mergeTarget beam s.pre l with
      | some ti =>
        refine ⟨ti, 0, tgt_ok ti hmt, by omega, ?_⟩
        have := hcl ti 0
        simp only [cL, hmt, hne, and_self, if_true] at this
        omega
      | none =>
        refine ⟨0, l, hlen, hl, ?_⟩
        have := hcl 0 l
        simp only [cL, hmt, hne, and_self, if_true] at this
        omega
    · have hne' : (some l != (s.pre.getLast?).map (·.label)) = false := by simpa using hne
      by_cases hpb : 0 < s.pb
      · have hv : 0 < s.pb * row.getD l 0 := Nat.mul_pos hpb hrow
        cases hmt : mergeTarget beam s.pre l with
        | some ti =>
          refine ⟨ti, 0, tgt_ok ti hmt, by omega, ?_⟩
          have := hcl ti 0
          simp only [cL, hmt, hne', and_self, if_true, Bool.false_eq_true, if_false] at this
          omega
        | none =>
          refine ⟨0, l, hlen, hl, ?_⟩
          have := hcl 0 l
          simp only [cL, hmt, hne', and_self, if_true, Bool.false_eq_true, if_false] at this
          omega
      · have hpnb : 0 < s.pnb := by omega
        have hv : 0 < s.pnb * row.getD l 0 := Nat.mul_pos hpnb hrow
        refine ⟨0, 0, hlen, by omega, ?_⟩
        have := hcl 0 0
        simp only [cL, hne', and_self, if_true] at this
        omega

/-! ## (F) the fallback never fires; all scores stay non-zero -/

theorem step_scores_nonzero {α} (ops : Ops α) (B L : Nat) (beam : List (BState α))
    (pos : Nat) (row : List α)
    (hne : ((candidates ops L beam.length (extendAll ops L beam row)).foldl (pushExt ops B) []).isEmpty
      = false) :
    ∀ st ∈ beamStep ops B L beam pos row, ops.isZero (hypOf ops st).score = false := by
  intro st hst
  unfold beamStep selectTopk at hst
  simp only [hne, Bool.false_eq_true, if_false, List.mem_map] at hst
  obtain ⟨e, he, rfl⟩ := hst
  obtain ⟨_, q2⟩ := foldl_pushExt_spec ops B
    (candidates ops L beam.length (extendAll ops L beam row)) []
    (by simp) (by simp) (candidates_keys_nodup ops L beam.length _)
  rcases q2 e he with h | ⟨h, hz⟩
  · cases h
  · obtain ⟨_, _, hp⟩ := mem_candidates ops L beam.length _ e h
    simp only [hypOf, mkState]
    rw [← hp]; exact hz

/-- The beam is non-empty and every state has positive total probability. -/
def Pos (beam : List (BState Nat)) : Prop := beam ≠ [] ∧ ∀ st ∈ beam, 0 < st.pb + st.pnb

theorem fallback_not_fired (B L : Nat) (hB : 1 ≤ B) (beam : List (BState Nat)) (row : List Nat)
    (hrow : ∃ l, l < L ∧ 0 < row.getD l 0) (h : Pos beam) :
    ((candidates natOps L beam.length (extendAll natOps L beam row)).foldl (pushExt natOps B) []).isEmpty
      = false := by
  obtain ⟨l, hl, hr⟩ := hrow
  obtain ⟨hne, hpos⟩ := h
  cases beam with
  | nil => exact absurd rfl hne
  | cons s rest =>
    have hs : (s :: rest)[0]? = some s := rfl
    have hex := exists_nonzero_candidate L (s :: rest) row s hs (hpos s List.mem_cons_self) l hl hr
    have := foldl_pushExt_ne_nil natOps B hB _ [] (Or.inr hex)
    cases hf : (candidates natOps L (s :: rest).length (extendAll natOps L (s :: rest) row)).foldl
        (pushExt natOps B) [] with
    | nil => exact absurd hf this
    | cons a l' => rfl

theorem beamStep_pos (B L : Nat) (hB : 1 ≤ B) (beam : List (BState Nat)) (pos : Nat)
    (row : List Nat) (hrow : ∃ l, l < L ∧ 0 < row.getD l 0) (h : Pos beam) :
    Pos (beamStep natOps B L beam pos row) := by
  have hne := fallback_not_fired B L hB beam row hrow h
  constructor
  · unfold beamStep selectTopk
    simp only [hne, Bool.false_eq_true, if_false]
    intro hc
    have := List.map_eq_nil_iff.mp hc
    rw [this] at hne
    simp at hne
  · intro st hst
    have := step_scores_nonzero natOps B L beam pos row hne st hst
    simp only [hypOf, natOps, beq_eq_false_iff_ne, ne_eq] at this
    omega

theorem beamLoop_pos (B L : Nat) (hB : 1 ≤ B) (rows : List (List Nat))
    (hrows : ∀ row ∈ rows, ∃ l, l < L ∧ 0 < row.getD l 0) :
    ∀ (beam : List (BState Nat)) (pos : Nat), Pos beam → Pos (beamLoop natOps B L beam pos rows) := by
  induction rows with
  | nil => intro beam pos h; exact h
  | cons row rows ih =>
    intro beam pos h
    exact ih (fun r hr => hrows r (List.mem_cons_of_mem _ hr)) _ _
      (beamStep_pos B L hB beam pos row (hrows row List.mem_cons_self) h)

end RtenVerif.Ctc
