import RtenVerif.Lemmas.Optimize

/-! # C01 — soundness of replacing a subgraph by one fused operator (semantic core of T1) -/
namespace RtenVerif.Optimize

variable {K V : Type} (sem : Sem K V)

theorem WF_append_right {a b : List (Op K)} (h : WF (a ++ b)) : WF b := by
  induction a with
  | nil => exact h
  | cons o os ih => rw [List.cons_append] at h; exact ih h.2.2

theorem WF_append_left {a b : List (Op K)} (h : WF (a ++ b)) : WF a := by
  induction a with
  | nil => trivial
  | cons o os ih =>
    rw [List.cons_append] at h
    obtain ⟨h1, h2, h3⟩ := h
    refine ⟨?_, ?_, ih h3⟩
    · intro i hi hm
      apply h1 i hi
      simp only [outsAll, List.mem_append] at hm ⊢
      rcases hm with hm | hm
      · exact Or.inl hm
      · exact Or.inr (by rw [outsAll_append]; exact List.mem_append.mpr (Or.inl hm))
    · intro i hi hm
      apply h2 i hi
      rw [outsAll_append]; exact List.mem_append.mpr (Or.inl hm)

/-- In a well-formed plan `pre ++ L :: post`, outputs of `pre` are distinct from outputs of `L`. -/
theorem WF_pre_disjoint {pre post : List (Op K)} {L : Op K} (h : WF (pre ++ L :: post)) :
    ∀ i ∈ outsAll pre, i ∉ L.outs := by
  induction pre with
  | nil => intro i hi; simp [outsAll] at hi
  | cons o os ih =>
    intro i hi hL
    rw [List.cons_append] at h
    obtain ⟨_, h2, h3⟩ := h
    simp only [outsAll, List.mem_append] at hi
    rcases hi with hi | hi
    · apply h2 i hi
      rw [outsAll_append]; simp [outsAll, hL]
    · exact ih h3 i hi hL

/-- **Semantic core of T1.** `pre ++ L :: post` is a plan; the fused subgraph consists of the
operators of `pre` selected by `inS` and of `L` (the operator producing the subgraph's declared
outputs). If
* (guard) no operator that stays reads (as input *or* through a subgraph capture) an output of the
  removed operators `pre.filter inS`,
* (hyp) on every environment that agrees with `env` outside the plan's outputs (so constants and
  graph inputs have their actual values) the fused operator `F` computes for the declared outputs
  what the replaced operators compute,
then every value that is not a removed intermediate has the same denotation (`run … env id`,
including failure `none`) before and after the rewrite. -/
theorem rewrite_core
    (pre post : List (Op K)) (L F : Op K) (inS : Op K → Bool) (env : Env V)
    (hwf : WF (pre ++ L :: post))
    (hfresh : ∀ i ∈ outsAll (pre ++ L :: post), env i = none)
    (houts : F.outs = L.outs)
    (hFreads : ∀ i ∈ F.reads, i ∉ outsAll (pre.filter inS))
    (hguardPre : ∀ o ∈ pre, inS o = false → ∀ i ∈ o.reads, i ∉ outsAll (pre.filter inS))
    (hguardPost : ∀ o ∈ post, ∀ i ∈ o.reads, i ∉ outsAll (pre.filter inS))
    (hsem : ∀ E : Env V, (∀ i, i ∉ outsAll (pre ++ L :: post) → E i = env i) →
        (∀ i ∈ outsAll (pre.filter inS ++ [L]), E i = none) →
        ∀ j ∈ L.outs, run sem (pre.filter inS ++ [L]) E j = step sem E F j) :
    ∀ i, i ∉ outsAll (pre.filter inS) →
      run sem (pre ++ L :: post) env i
        = run sem (pre.filter (fun o => !inS o) ++ F :: post) env i := by
  intro i hi
  let D : Id → Prop := fun k => k ∈ outsAll (pre.filter inS)
  let E := run sem pre env
  have hwfpre : WF pre := WF_append_left hwf
  have hdisj := WF_pre_disjoint hwf
  -- freshness facts
  have hfreshPre : ∀ k ∈ outsAll pre, env k = none := fun k hk =>
    hfresh k (by rw [outsAll_append]; exact List.mem_append.mpr (Or.inl hk))
  have hfreshL : ∀ k ∈ L.outs, env k = none := fun k hk =>
    hfresh k (by rw [outsAll_append]; simp [outsAll, hk])
  have hEL : ∀ k ∈ L.outs, E k = none := by
    intro k hk
    have : k ∉ outsAll pre := fun h => hdisj k h hk
    show run sem pre env k = none
    rw [run_off sem pre env k this]; exact hfreshL k hk
  have hsubS : ∀ k, k ∈ outsAll (pre.filter inS) → k ∈ outsAll pre := by
    intro k hk
    obtain ⟨o', ho', hk2⟩ := mem_outsAll.mp hk
    exact mem_outsAll.mpr ⟨o', (List.mem_filter.mp ho').1, hk2⟩
  -- the isolated environment: `E` with the removed intermediates erased
  let E0 : Env V := fun k => if k ∈ outsAll (pre.filter inS) then none else E k
  have hstab : ∀ k, run sem (pre.filter inS) E0 k = E k := by
    apply run_filter_stable sem inS pre env E0 hwfpre
    · intro k hk
      have : k ∉ outsAll (pre.filter inS) := fun h => hk (hsubS k h)
      show env k = E0 k
      simp only [E0, this, if_false]
      exact (run_off sem pre env k hk).symm
    · exact hfreshPre
    · intro k hk; simp only [E0, hk, if_true]
    · intro k hk
      have hnot : k ∉ outsAll (pre.filter inS) := by
        intro h
        obtain ⟨o1, ho1, hk1⟩ := mem_outsAll.mp hk
        obtain ⟨o2, ho2, hk2⟩ := mem_outsAll.mp h
        have hm1 := List.mem_filter.mp ho1
        have hm2 := List.mem_filter.mp ho2
        -- an id produced by two different operators of a WF plan: impossible
        have key : ∀ (ops : List (Op K)), WF ops → o1 ∈ ops → o2 ∈ ops → k ∈ o1.outs → k ∈ o2.outs →
            inS o1 = false → inS o2 = true → False := by
          intro ops
          induction ops with
          | nil => intro _ h1; simp at h1
          | cons o os ih =>
            intro hw h1 h2 hk1 hk2 hs1 hs2
            obtain ⟨_, hw2, hw3⟩ := hw
            rcases List.mem_cons.mp h1 with e1 | m1
            · rcases List.mem_cons.mp h2 with e2 | m2
              · rw [e1] at hs1; rw [e2] at hs2; rw [hs1] at hs2; cases hs2
              · exact hw2 k (e1 ▸ hk1) (mem_outsAll.mpr ⟨o2, m2, hk2⟩)
            · rcases List.mem_cons.mp h2 with e2 | m2
              · exact hw2 k (e2 ▸ hk2) (mem_outsAll.mpr ⟨o1, m1, hk1⟩)
              · exact ih hw3 m1 m2 hk1 hk2 hs1 hs2
        exact key pre hwfpre hm1.1 hm2.1 hk1 hk2 (by simpa using hm1.2) hm2.2
      show E0 k = run sem pre env k
      simp only [E0, hnot, if_false]; rfl
  -- 1. at its position, the fused operator produces what the last operator of the subgraph produced
  have hE0none : ∀ k ∈ outsAll (pre.filter inS ++ [L]), E0 k = none := by
    intro k hk
    rw [outsAll_append] at hk
    rcases List.mem_append.mp hk with h | h
    · simp only [E0, h, if_true]
    · have hkL : k ∈ L.outs := by simpa [outsAll] using h
      have : k ∉ outsAll (pre.filter inS) := fun h' => hdisj k (hsubS k h') hkL
      simp only [E0, this, if_false]; exact hEL k hkL
  have hstep : ∀ k, step sem E L k = step sem E F k := by
    intro k
    by_cases hk : k ∈ L.outs
    · have h1 : run sem (pre.filter inS ++ [L]) E0 k = step sem E L k := by
        rw [run_append]
        show step sem (run sem (pre.filter inS) E0) L k = step sem E L k
        exact step_agree sem _ _ L k (fun r _ => hstab r) (hstab k)
      have hE0env : ∀ i, i ∉ outsAll (pre ++ L :: post) → E0 i = env i := by
        intro i hi'
        have hnp : i ∉ outsAll pre := fun h' => hi' (by rw [outsAll_append]; exact List.mem_append.mpr (Or.inl h'))
        have hns : i ∉ outsAll (pre.filter inS) := fun h' => hnp (hsubS i h')
        simp only [E0, hns, if_false]
        exact run_off sem pre env i hnp
      have h2 := hsem E0 hE0env hE0none k hk
      have h3 : step sem E0 F k = step sem E F k := by
        apply step_agree
        · intro r hr
          have := hFreads r hr
          simp only [E0, this, if_false]
        · have : k ∉ outsAll (pre.filter inS) := fun h' => hdisj k (hsubS k h') hk
          simp only [E0, this, if_false]
      rw [← h1, h2, h3]
    · rw [step_off sem E L k hk, step_off sem E F k (houts ▸ hk)]
  -- 2. replace L by F in place
  have hA : run sem (pre ++ L :: post) env i = run sem (pre ++ F :: post) env i := by
    rw [run_append, run_append]
    show run sem post (step sem E L) i = run sem post (step sem E F) i
    exact run_congr sem post _ _ hstep i
  -- 3. drop the (now dead) removed operators from `pre`
  have hB : run sem (pre ++ F :: post) env i
      = run sem (pre.filter (fun o => !inS o) ++ F :: post) env i := by
    rw [run_append, run_append]
    apply run_agree sem (fun k => ¬ D k) (F :: post)
    · intro o ho r hr
      rcases List.mem_cons.mp ho with e | m
      · exact hFreads r (e ▸ hr)
      · exact hguardPost o m r hr
    · intro k hk
      exact run_filter_dead sem D inS pre env env
        (fun o ho hs r hr => mem_outsAll.mpr ⟨o, List.mem_filter.mpr ⟨ho, hs⟩, hr⟩)
        (fun o ho hs r hr => hguardPre o ho hs r hr) (fun _ _ => rfl) k hk
    · exact hi
  rw [hA, hB]

end RtenVerif.Optimize
