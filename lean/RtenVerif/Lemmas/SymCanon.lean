import RtenVerif.Lemmas.SymList

/-! `canonicalize` preserves evaluation (C11.T4). -/
set_option linter.unusedSimpArgs false
namespace RtenVerif.Sym

def Op.idem : Op → Bool
  | .max | .min | .broadcast => true
  | _ => false

theorem idem_ac {o : Op} (h : o.idem = true) : o.ac = true := by
  cases o <;> simp [Op.idem] at h <;> rfl

theorem opF_idem {o : Op} (h : o.idem = true) (x : Int) : opF o x x = x := by
  cases o <;> simp [Op.idem] at h <;> simp [opF, bcastI]

theorem removeAdjEq_agg {σ : Env} {o : Op} (h : o.idem = true) :
    ∀ {ts : List SymExpr} {vs : List Int}, evL σ ts = some vs →
      ∃ vs', evL σ (removeAdjEq ts) = some vs' ∧ aggO o vs' = aggO o vs := by
  intro ts
  induction ts with
  | nil => intro vs hvs; exact ⟨vs, by simpa [removeAdjEq] using hvs, rfl⟩
  | cons a t ih =>
    intro vs hvs
    cases t with
    | nil => exact ⟨vs, by simpa [removeAdjEq] using hvs, rfl⟩
    | cons b rest =>
      rw [evL_cons] at hvs
      obtain ⟨va, vs1, hva, hvs1, rfl⟩ := hvs
      obtain ⟨vs', hvs', hagg⟩ := ih hvs1
      simp only [removeAdjEq]
      split
      · rename_i hb
        refine ⟨vs', hvs', ?_⟩
        rw [hagg]
        rw [evL_cons] at hvs1
        obtain ⟨vb, rs, hvb, hrs, rfl⟩ := hvs1
        have := beq_sound σ _ _ _ hb hva
        rw [hvb] at this
        simp at this; subst this
        simp only [aggO_cons]
        rw [← comb_assoc (idem_ac h)]
        simp [comb, opF_idem h]
      · exact ⟨va :: vs', evL_cons.mpr ⟨va, vs', hva, hvs', rfl⟩, by
          simp only [aggO_cons, hagg]⟩

theorem isNegOf_sound {σ : Env} {a b : SymExpr} {x y : Int} (h : isNegOf a b = true)
    (hx : ev σ a = .ok x) (hy : ev σ b = .ok y) : x + y = 0 := by
  unfold isNegOf at h
  rw [Bool.or_eq_true] at h
  rcases h with h | h
  · split at h
    · rw [ev_neg_ok] at hy
      obtain ⟨z, hz, rfl⟩ := hy
      have := beq_sound σ _ _ _ h hx
      rw [hz] at this; simp at this; omega
    · simp at h
  · split at h
    · rw [ev_neg_ok] at hx
      obtain ⟨z, hz, rfl⟩ := hx
      have := beq_sound σ _ _ _ h hz
      rw [hy] at this; simp at this; omega
    · simp at h

def sumL : List Int → Int
  | [] => 0
  | v :: vs => v + sumL vs

theorem aggO_add (vs : List Int) : aggO .add vs = if vs = [] then none else some (sumL vs) := by
  induction vs with
  | nil => rfl
  | cons v vs ih =>
    simp only [aggO, ih]
    cases vs with
    | nil => simp [sumL]
    | cons w ws => simp [sumL, opF, bcastI]

theorem removeAdjOppF_sum {σ : Env} :
    ∀ (n : Nat) {ts : List SymExpr} {vs : List Int}, evL σ ts = some vs →
      ∃ vs', evL σ (removeAdjOppF n ts) = some vs' ∧ sumL vs' = sumL vs := by
  intro n
  induction n with
  | zero => intro ts vs hvs; exact ⟨vs, by simpa [removeAdjOppF] using hvs, rfl⟩
  | succ n ih =>
    intro ts vs hvs
    match ts, hvs with
    | [], hvs => exact ⟨vs, by simpa [removeAdjOppF] using hvs, rfl⟩
    | [a], hvs => exact ⟨vs, by simpa [removeAdjOppF] using hvs, rfl⟩
    | a :: b :: rest, hvs =>
      rw [evL_cons] at hvs
      obtain ⟨va, vs1, hva, hvs1, rfl⟩ := hvs
      simp only [removeAdjOppF]
      split
      · rename_i hb
        rw [evL_cons] at hvs1
        obtain ⟨vb, rs, hvb, hrs, rfl⟩ := hvs1
        obtain ⟨vs', hvs', hs⟩ := ih hrs
        have := isNegOf_sound hb hva hvb
        exact ⟨vs', hvs', by simp only [sumL, hs]; omega⟩
      · obtain ⟨vs', hvs', hs⟩ := ih hvs1
        exact ⟨va :: vs', evL_cons.mpr ⟨va, vs', hva, hvs', rfl⟩, by simp only [sumL, hs]⟩

theorem evL_map {σ : Env} {f : SymExpr → SymExpr}
    (hf : ∀ e v, ev σ e = .ok v → ev σ (f e) = .ok v) :
    ∀ {ts : List SymExpr} {vs : List Int}, evL σ ts = some vs → evL σ (ts.map f) = some vs := by
  intro ts
  induction ts with
  | nil => intro vs h; simpa using h
  | cons t ts ih =>
    intro vs h
    rw [evL_cons] at h
    obtain ⟨v, ws, hv, hws, rfl⟩ := h
    simp only [List.map_cons]
    exact evL_cons.mpr ⟨v, ws, hf t v hv, ih hws, rfl⟩

/-- Common part of the AC arms: flatten, canonicalise the leaves, sort. -/
theorem sorted_terms_ev {σ : Env} {o : Op} (h : o.ac = true) {f : SymExpr → SymExpr}
    (hf : ∀ e v, ev σ e = .ok v → ev σ (f e) = .ok v) {e : SymExpr} {v : Int}
    (hv : ev σ e = .ok v) :
    ∃ vs, evL σ (isort ((flatten o e).map f)) = some vs ∧ aggO o vs = some v := by
  obtain ⟨vs, hvs, hagg⟩ := flatten_ev (o := o) h hv
  have h1 := evL_map hf hvs
  obtain ⟨ys, hys, hp⟩ := evL_perm (isort_perm _).symm h1
  exact ⟨ys, hys, by rw [← aggO_perm h hp, hagg]⟩

/-- **C11.T4 (fuel form).** `canonicalize` never changes a defined value, for every fuel. -/
theorem canonF_sound (σ : Env) :
    ∀ (n : Nat) (e : SymExpr) (v : Int), ev σ e = .ok v → ev σ (canonF n e) = .ok v := by
  intro n
  induction n with
  | zero => intro e v h; simpa [canonF] using h
  | succ n ih =>
    intro e v hv
    have idemCase : ∀ (o : Op) (d : SymExpr) (a b : SymExpr), o.idem = true →
        ev σ (.bin o a b) = .ok v →
        ev σ (reduceOp o d (removeAdjEq (isort ((flatten o (.bin o a b)).map (canonF n))))) =
          .ok v := by
      intro o d a b ho hv
      obtain ⟨vs, hvs, hagg⟩ := sorted_terms_ev (idem_ac ho) (ih) hv
      obtain ⟨vs', hvs', hagg'⟩ := removeAdjEq_agg (o := o) ho hvs
      exact reduce_ev (idem_ac ho) d hvs' (by rw [hagg', hagg])
    match e, hv with
    | .value x, hv => simpa [canonF] using hv
    | .var m p, hv => simpa [canonF] using hv
    | .neg a, hv =>
      rw [ev_neg_ok] at hv
      obtain ⟨x, hx, rfl⟩ := hv
      have := ih a x hx
      simp only [canonF]
      split
      · rename_i y hy
        rw [hy, ev_value] at this; subst this
        split
        · rw [ev_value]
        · rw [ev_neg_ok]; exact ⟨y, by simp [ev, eval], rfl⟩
      · rw [ev_neg_ok]; exact ⟨x, this, rfl⟩
    | .bin .mul a b, hv =>
      simp only [canonF]
      obtain ⟨vs, hvs, hagg⟩ := sorted_terms_ev (o := .mul) rfl ih hv
      exact reduce_ev rfl _ hvs hagg
    | .bin .add a b, hv =>
      simp only [canonF]
      obtain ⟨vs, hvs, hagg⟩ := sorted_terms_ev (o := .add) rfl ih hv
      obtain ⟨vs', hvs', hs⟩ := removeAdjOppF_sum (σ := σ) (isort ((flatten .add (.bin .add a b)).map (canonF n))).length hvs
      rw [aggO_add] at hagg
      split at hagg
      · simp at hagg
      · simp at hagg
        unfold removeAdjOpp
        cases hvs'e : vs' with
        | nil =>
          subst hvs'e
          have : removeAdjOppF (isort ((flatten .add (.bin .add a b)).map (canonF n))).length
              (isort ((flatten .add (.bin .add a b)).map (canonF n))) = [] := by
            cases hl : removeAdjOppF (isort ((flatten .add (.bin .add a b)).map (canonF n))).length
                (isort ((flatten .add (.bin .add a b)).map (canonF n))) with
            | nil => rfl
            | cons t ts => rw [hl, evL_cons] at hvs'; obtain ⟨_, _, _, _, h⟩ := hvs'; simp at h
          rw [this]
          simp only [reduceOp, ev_value]
          simp [sumL] at hs; omega
        | cons w ws =>
          subst hvs'e
          refine reduce_ev (o := .add) rfl _ hvs' ?_
          rw [aggO_add]; simp; omega
    | .bin .max a b, hv => simp only [canonF]; exact idemCase .max _ a b rfl hv
    | .bin .min a b, hv => simp only [canonF]; exact idemCase .min _ a b rfl hv
    | .bin .broadcast a b, hv => simp only [canonF]; exact idemCase .broadcast _ a b rfl hv
    | .bin .sub a b, hv =>
      simp only [canonF]
      rw [ev_bin_ok'] at hv
      obtain ⟨x, y, hx, hy, -, rfl⟩ := hv
      apply ih
      rw [ev_bin_ok']
      refine ⟨x, -y, ih a x hx, ?_, by simp, by simp [opF, bcastI]; omega⟩
      rw [ev_neg_ok]; exact ⟨y, ih b y hy, rfl⟩
    | .bin .div a b, hv =>
      simp only [canonF]
      rw [ev_bin_ok'] at hv ⊢
      obtain ⟨x, y, hx, hy, h0, rfl⟩ := hv
      exact ⟨x, y, ih a x hx, ih b y hy, h0, rfl⟩
    | .bin .divCeil a b, hv =>
      simp only [canonF]
      rw [ev_bin_ok'] at hv ⊢
      obtain ⟨x, y, hx, hy, h0, rfl⟩ := hv
      exact ⟨x, y, ih a x hx, ih b y hy, h0, rfl⟩

theorem canonicalize_sound (σ : Env) (e : SymExpr) (v : Int) (h : ev σ e = .ok v) :
    ev σ (canonicalize e) = .ok v := canonF_sound σ _ e v h

end RtenVerif.Sym
