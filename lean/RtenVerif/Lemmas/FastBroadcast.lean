/-
Lemmas for the fast-broadcast model (C14 T1, reused by C13): list algebra of the reference
broadcast `bcast` over leading / equal / trailing axes, and the decomposition of the axis list
performed by the two scans of `fast_broadcast_cycles_repeats`.
-/
import RtenVerif.Model.FastBroadcast
namespace RtenVerif.FastBroadcast


theorem numel_cons (n : Nat) (s : List Nat) : numel (n :: s) = n * numel s := rfl

theorem numel_append (a b : List Nat) : numel (a ++ b) = numel a * numel b := by
  induction a with
  | nil => simp [numel]
  | cons x xs ih => simp only [List.cons_append, numel_cons, ih, Nat.mul_assoc]

theorem flatMap_const {α : Type} (t : Nat) (L : List α) :
    (List.range t).flatMap (fun _ => L) = (List.replicate t L).flatten := by
  induction t with
  | zero => simp
  | succ t ih => simp [List.range_succ, List.flatMap_append, ih, List.replicate_succ']

theorem cycle_mul {α : Type} (t c : Nat) (L : List α) :
    (List.replicate t (List.replicate c L).flatten).flatten = (List.replicate (t * c) L).flatten := by
  induction t with
  | zero => simp
  | succ t ih =>
    rw [List.replicate_succ, List.flatten_cons, ih, Nat.succ_mul, Nat.add_comm,
      ← List.replicate_append_replicate, List.flatten_append]

/-- chunks of size k concatenated = prefix -/
theorem chunks_take {α : Type} (x : List α) (k m : Nat) :
    (List.range m).flatMap (fun i => (x.drop (i * k)).take k) = x.take (m * k) := by
  induction m with
  | zero => simp
  | succ m ih =>
    rw [List.range_succ, List.flatMap_append, ih, Nat.succ_mul, List.take_add]
    simp

theorem flatMap_replicate_one {α : Type} (x : List α) : x.flatMap (List.replicate 1) = x := by
  induction x with
  | nil => rfl
  | cons a xs ih => simp [List.flatMap_cons, ih]

def Ones (ps : List (Nat × Nat)) : Prop := ∀ p ∈ ps, p.1 = 1
def Eqs (ps : List (Nat × Nat)) : Prop := ∀ p ∈ ps, p.1 = p.2

theorem numel_fst_ones {ps : List (Nat × Nat)} (h : Ones ps) : numel (ps.map (·.1)) = 1 := by
  induction ps with
  | nil => rfl
  | cons p ps ih =>
    have h1 : p.1 = 1 := h p (by simp)
    have h2 : Ones ps := fun q hq => h q (by simp [hq])
    simp only [List.map_cons, numel_cons, h1, ih h2]

theorem bcast_cons {α : Type} (f t : Nat) (ps : List (Nat × Nat)) (x : List α) :
    bcast ((f, t) :: ps) x = (List.range t).flatMap
      (fun i => bcast ps (x.drop ((if f = 1 then 0 else i) * numel (ps.map (·.1))))) := rfl

theorem replicate_flatten_replicate {α : Type} (t r : Nat) (e : α) :
    (List.replicate t (List.replicate r e)).flatten = List.replicate (t * r) e := by
  induction t with
  | zero => simp
  | succ t ih =>
    rw [List.replicate_succ, List.flatten_cons, ih, Nat.succ_mul, Nat.add_comm,
      List.replicate_append_replicate]

/-- Axes of source size 1 only: every output element is the first source element. -/
theorem bcast_ones {α : Type} {T : List (Nat × Nat)} (h : Ones T) (x : List α) :
    bcast T x = (x.take 1).flatMap (List.replicate (numel (T.map (·.2)))) := by
  induction T generalizing x with
  | nil => simp [bcast, numel, flatMap_replicate_one]
  | cons p T ih =>
    obtain ⟨f, t⟩ := p
    have h1 : f = 1 := h (f, t) (by simp)
    have h2 : Ones T := fun q hq => h q (by simp [hq])
    subst h1
    rw [bcast_cons]
    simp only [if_true, Nat.zero_mul, List.drop_zero, ih h2, flatMap_const, List.map_cons, numel_cons]
    cases x with
    | nil => simp
    | cons e es =>
      simp only [List.take_succ_cons, List.take_zero, List.flatMap_cons, List.flatMap_nil,
        List.append_nil, replicate_flatten_replicate]

/-- Leading axes of source size 1: the rest of the broadcast, cycled. -/
theorem bcast_lead {α : Type} {G : List (Nat × Nat)} (h : Ones G) (ps : List (Nat × Nat)) (x : List α) :
    bcast (G ++ ps) x = (List.replicate (numel (G.map (·.2))) (bcast ps x)).flatten := by
  induction G with
  | nil => simp [numel]
  | cons p G ih =>
    obtain ⟨f, t⟩ := p
    have h1 : f = 1 := h (f, t) (by simp)
    have h2 : Ones G := fun q hq => h q (by simp [hq])
    subst h1
    rw [List.cons_append, bcast_cons]
    simp only [if_true, Nat.zero_mul, List.drop_zero, ih h2, flatMap_const, List.map_cons, numel_cons,
      cycle_mul]

theorem flatMap_congr' {α β : Type} (l : List α) (f g : α → List β) (h : ∀ a ∈ l, f a = g a) :
    l.flatMap f = l.flatMap g := by
  induction l with
  | nil => rfl
  | cons a l ih =>
    simp only [List.flatMap_cons]
    rw [h a (by simp), ih (fun b hb => h b (by simp [hb]))]

/-- Equal axes followed by source-size-1 axes: every source element repeated. -/
theorem bcast_mid {α : Type} {M T : List (Nat × Nat)} (hM : Eqs M) (hT : Ones T) (x : List α) :
    bcast (M ++ T) x =
      (x.take (numel (M.map (·.1)))).flatMap (List.replicate (numel (T.map (·.2)))) := by
  induction M generalizing x with
  | nil => simpa [numel] using bcast_ones hT x
  | cons p M ih =>
    obtain ⟨f, t⟩ := p
    have h1 : f = t := hM (f, t) (by simp)
    have h2 : Eqs M := fun q hq => hM q (by simp [hq])
    subst h1
    rw [List.cons_append, bcast_cons]
    have hk : numel ((M ++ T).map (·.1)) = numel (M.map (·.1)) := by
      rw [List.map_append, numel_append, numel_fst_ones hT, Nat.mul_one]
    rw [hk]
    have hc : ∀ i ∈ List.range f,
        bcast (M ++ T) (x.drop ((if f = 1 then 0 else i) * numel (M.map (·.1)))) =
          ((x.drop (i * numel (M.map (·.1)))).take (numel (M.map (·.1)))).flatMap
            (List.replicate (numel (T.map (·.2)))) := by
      intro i hi
      have hi' : i < f := List.mem_range.mp hi
      have : (if f = 1 then 0 else i) = i := by
        split
        · omega
        · rfl
      rw [this, ih h2]
    rw [flatMap_congr' _ _ _ hc, ← List.flatMap_assoc, chunks_take]
    simp only [List.map_cons, numel_cons]



theorem takeWhile_full {α : Type} (p : α → Bool) (l : List α)
    (h : (l.takeWhile p).length = l.length) : ∀ a ∈ l, p a = true := by
  induction l with
  | nil => simp
  | cons x xs ih =>
    by_cases hx : p x = true
    · simp only [List.takeWhile_cons, hx, if_true, List.length_cons, Nat.add_right_cancel_iff] at h
      intro a ha
      rcases List.mem_cons.mp ha with rfl | ha
      · exact hx
      · exact ih h a ha
    · simp [hx] at h

theorem mem_takeWhile_good {α : Type} (p : α → Bool) (l : List α) : ∀ a ∈ l.takeWhile p, p a = true := by
  induction l with
  | nil => simp
  | cons x xs ih =>
    by_cases hx : p x = true
    · simp only [List.takeWhile_cons, hx, if_true]
      intro a ha
      rcases List.mem_cons.mp ha with rfl | ha
      · exact hx
      · exact ih a ha
    · simp [hx]

/-- The two scans of `fast_broadcast_cycles_repeats` and the range between them split the axis
list, provided some axis stops the scans. -/
theorem scan_split {α : Type} (p : α → Bool) (ps : List α) (hbad : ∃ a ∈ ps, p a = false) :
    ps = ps.takeWhile p ++
      (ps.drop (ps.takeWhile p).length).take
        (ps.length - (ps.reverse.takeWhile p).length - (ps.takeWhile p).length) ++
      (ps.reverse.takeWhile p).reverse := by
  have hsplit := @List.takeWhile_append_dropWhile _ p ps
  generalize hL : ps.takeWhile p = lead at *
  generalize hD : ps.dropWhile p = D at *
  have hDne : ¬ (∀ a ∈ D, p a = true) := by
    intro hall
    obtain ⟨a, ha, hpa⟩ := hbad
    rw [← hsplit] at ha
    rcases List.mem_append.mp ha with h | h
    · have := mem_takeWhile_good p ps a (by rw [hL]; exact h)
      rw [this] at hpa; cases hpa
    · rw [hall a h] at hpa; cases hpa
  have hrev : ps.reverse = D.reverse ++ lead.reverse := by rw [← hsplit, List.reverse_append]
  have htrail : ps.reverse.takeWhile p = D.reverse.takeWhile p := by
    rw [hrev, List.takeWhile_append]
    split
    · rename_i hfull
      exfalso; apply hDne
      intro a ha
      exact takeWhile_full p D.reverse hfull a (List.mem_reverse.mpr ha)
    · rfl
  rw [htrail]
  have hsplit2 := @List.takeWhile_append_dropWhile _ p D.reverse
  generalize hT : D.reverse.takeWhile p = trail at *
  generalize hR : D.reverse.dropWhile p = R at *
  have hDeq : D = R.reverse ++ trail.reverse := by
    have := congrArg List.reverse hsplit2
    rw [List.reverse_reverse, List.reverse_append] at this
    exact this.symm
  have hlen : ps.length = lead.length + (R.length + trail.length) := by
    rw [← hsplit, hDeq]; simp
  have hps : ps = lead ++ (R.reverse ++ trail.reverse) := by rw [← hDeq]; exact hsplit.symm
  have hdrop : ps.drop lead.length = R.reverse ++ trail.reverse := by
    rw [hps]; simp
  rw [hdrop]
  have hn : ps.length - trail.length - lead.length = R.reverse.length := by
    rw [hlen, List.length_reverse]; omega
  rw [hn, List.take_left' rfl, List.append_assoc]
  exact hps


theorem numel_reverse (s : List Nat) : numel s.reverse = numel s := by
  induction s with
  | nil => rfl
  | cons x xs ih => rw [List.reverse_cons, numel_append, ih, numel_cons]; simp [numel, Nat.mul_comm]

theorem numel_replicate_one (k : Nat) : numel (List.replicate k 1) = 1 := by
  induction k with
  | zero => rfl
  | succ k ih => rw [List.replicate_succ, numel_cons, ih]

theorem numel_padFrom (frm to : List Nat) : numel (padFrom frm to) = numel frm := by
  rw [padFrom, numel_append, numel_replicate_one, Nat.one_mul]

theorem length_padFrom (frm to : List Nat) (h : frm.length ≤ to.length) :
    (padFrom frm to).length = to.length := by
  simp [padFrom]; omega

theorem map_fst_pairsTo (frm to : List Nat) (h : frm.length ≤ to.length) :
    (pairsTo frm to).map (·.1) = padFrom frm to := by
  rw [pairsTo]
  exact List.map_fst_zip (by rw [length_padFrom frm to h]; exact Nat.le_refl _)

theorem map_snd_pairsTo (frm to : List Nat) (h : frm.length ≤ to.length) :
    (pairsTo frm to).map (·.2) = to := by
  rw [pairsTo]
  exact List.map_snd_zip (by rw [length_padFrom frm to h]; exact Nat.le_refl _)

theorem good_fst {p : Nat × Nat} (h : good p = true) : p.1 = 1 := by
  simp only [good, Bool.or_eq_true, Bool.and_eq_true, beq_iff_eq] at h
  rcases h with h | h <;> exact h.1

theorem numel_eq_one {s : List Nat} (h : numel s = 1) : ∀ d ∈ s, d = 1 := by
  induction s with
  | nil => simp
  | cons x xs ih =>
    rw [numel_cons] at h
    have hx : x = 1 := Nat.eq_one_of_mul_eq_one_right h
    have hxs : numel xs = 1 := Nat.eq_one_of_mul_eq_one_left h
    intro d hd
    rcases List.mem_cons.mp hd with rfl | hd
    · exact hx
    · exact ih hxs d hd

theorem zip_self_eq (l : List Nat) : ∀ p ∈ List.zip l l, p.1 = p.2 := by
  induction l with
  | nil => simp
  | cons a l ih =>
    intro p hp
    simp only [List.zip_cons_cons, List.mem_cons] at hp
    rcases hp with rfl | hp
    · rfl
    · exact ih p hp

theorem cycleRepeat_one_one {α : Type} (x : List α) : cycleRepeat 1 1 x = x := by
  simp [cycleRepeat, flatMap_replicate_one]

end RtenVerif.FastBroadcast
