import RtenVerif.Lemmas.Clip
import RtenVerif.Lemmas.Overlap

/-! C09.T4 lemmas for `append`: the element-wise write loop, and the grown layout. -/
namespace RtenVerif.Layout
open RtenVerif.Arr RtenVerif.Overlap

/-! ### folding `set` over a list of positions -/

def writeFold (L : List (List Nat)) (p : List Nat → Nat) (g : List Nat → Nat) (st : List Nat) :
    List Nat :=
  L.foldl (fun st idx => st.set (p idx) (g idx)) st

theorem writeFold_length (L : List (List Nat)) (p g) (st : List Nat) :
    (writeFold L p g st).length = st.length := by
  induction L generalizing st with
  | nil => rfl
  | cons x xs ih => simp only [writeFold, List.foldl_cons] at ih ⊢; rw [ih]; simp

theorem getD_set_ne (l : List Nat) (i j x : Nat) (h : i ≠ j) : (l.set i x).getD j 0 = l.getD j 0 := by
  simp only [List.getD_eq_getElem?_getD, List.getElem?_set_ne h]

theorem getD_set_self (l : List Nat) (i x : Nat) (h : i < l.length) : (l.set i x).getD i 0 = x := by
  simp only [List.getD_eq_getElem?_getD, List.getElem?_set_self h, Option.getD_some]

/-- A position no write targets keeps its value. -/
theorem writeFold_untouched (L : List (List Nat)) (p g) (st : List Nat) (q : Nat)
    (h : ∀ idx ∈ L, p idx ≠ q) : (writeFold L p g st).getD q 0 = st.getD q 0 := by
  induction L generalizing st with
  | nil => rfl
  | cons x xs ih =>
    simp only [writeFold, List.foldl_cons] at ih ⊢
    rw [ih _ (fun idx hi => h idx (List.mem_cons_of_mem _ hi)),
      getD_set_ne _ _ _ _ (h x List.mem_cons_self)]

/-- A written position holds the written value (positions injective on the list). -/
theorem writeFold_written (L : List (List Nat)) (p g) (st : List Nat) (j : List Nat)
    (hinj : ∀ idx ∈ L, p idx = p j → idx = j) (hlt : p j < st.length)
    (h : st.getD (p j) 0 = g j ∨ j ∈ L) : (writeFold L p g st).getD (p j) 0 = g j := by
  induction L generalizing st with
  | nil =>
    rcases h with h | h
    · exact h
    · cases h
  | cons x xs ih =>
    simp only [writeFold, List.foldl_cons] at ih ⊢
    have hinj' : ∀ idx ∈ xs, p idx = p j → idx = j :=
      fun idx hi => hinj idx (List.mem_cons_of_mem _ hi)
    apply ih _ hinj' (by simpa using hlt)
    by_cases hx : p x = p j
    · left
      have : x = j := hinj x List.mem_cons_self hx
      subst this
      exact getD_set_self _ _ _ hlt
    · rcases h with h | h
      · left; rw [getD_set_ne _ _ _ _ hx]; exact h
      · right
        rcases List.mem_cons.mp h with rfl | h
        · exact absurd rfl hx
        · exact h

/-! ### the grown layout -/

theorem resizeDim_eq (d : Dims) (axis c : Nat) (hk : axis < d.length) :
    resizeDim d axis c = (d.eraseIdx axis).insertIdx axis (c, (d.getD axis (0, 0)).2) := by
  induction axis generalizing d with
  | zero => cases d with
    | nil => simp at hk
    | cons p ds => simp [resizeDim]
  | succ k ih =>
    cases d with
    | nil => simp at hk
    | cons p ds =>
      have hk' : k < ds.length := by simpa using hk
      have := ih ds hk'
      simp only [resizeDim, List.getElem?_cons_succ, List.eraseIdx_cons_succ,
        List.insertIdx_succ_cons, List.getD_cons_succ, List.set_cons_succ] at this ⊢
      cases hds : ds[k]? with
      | none =>
        have : ds.length ≤ k := List.getElem?_eq_none_iff.mp hds
        omega
      | some q => simp only [hds] at this ⊢; rw [this]

theorem validIdx_ValidIdx (d : Dims) (idx : List Nat) (h : validIdx (sizes d) idx = true) :
    ValidIdx d idx := by
  induction d generalizing idx with
  | nil => cases idx with
    | nil => exact .nil
    | cons i is => simp [sizes, validIdx] at h
  | cons p ds ih =>
    obtain ⟨n, st⟩ := p
    cases idx with
    | nil => simp [sizes, validIdx] at h
    | cons i is =>
      simp only [sizes, List.map_cons, validIdx, Bool.and_eq_true, decide_eq_true_eq] at h
      exact .cons h.1 (ih is (by simpa [sizes] using h.2))

theorem getD_insertIdx_self (l : List Nat) (k x : Nat) (hk : k ≤ l.length) :
    (l.insertIdx k x).getD k 0 = x := by
  induction k generalizing l with
  | zero => simp
  | succ k ih =>
    cases l with
    | nil => simp at hk
    | cons a as =>
      simp only [List.insertIdx_succ_cons, List.getD_cons_succ]
      exact ih as (by simpa using hk)

/-- Index of the grown tensor that element `idx'` of `other` is written to. -/
def shiftIdx (axis old : Nat) (idx' : List Nat) : List Nat :=
  (idx'.eraseIdx axis).insertIdx axis (old + idx'.getD axis 0)

/-- Geometry of `append`: `d` grown by `c` along `axis` (`nd`), and the block `sd` of the new
entries (`slice_axis_mut(axis, old..old+c)`). -/
theorem append_geometry (d : Dims) (axis c : Nat) (hk : axis < d.length) :
    let old := (d.getD axis (0, 0)).1
    let st := (d.getD axis (0, 0)).2
    let nd := resizeDim d axis (old + c)
    let sd := resizeDim nd axis c
    (∀ idx', validIdx (sizes sd) idx' = true →
      validIdx (sizes nd) (shiftIdx axis old idx') = true ∧
      old * st + offset sd idx' = offset nd (shiftIdx axis old idx') ∧
      old ≤ (shiftIdx axis old idx').getD axis 0) ∧
    (∀ idx, validIdx (sizes d) idx = true →
      validIdx (sizes nd) idx = true ∧ offset nd idx = offset d idx ∧ idx.getD axis 0 < old) ∧
    (∀ a b, validIdx (sizes sd) a = true → validIdx (sizes sd) b = true →
      shiftIdx axis old a = shiftIdx axis old b → a = b) := by
  intro old st nd sd
  have hE : (d.eraseIdx axis).length = d.length - 1 := by simp [List.length_eraseIdx, hk]
  have hd : d = (d.eraseIdx axis).insertIdx axis (old, st) := by
    have := insertIdx_eraseIdx_getD d axis (0, 0) hk
    rw [← this]
    simp [old, st]
  have hnd : nd = (d.eraseIdx axis).insertIdx axis (old + c, st) := resizeDim_eq d axis _ hk
  have hndlen : axis < nd.length := by
    rw [hnd, List.length_insertIdx, hE, if_pos (by omega)]; omega
  have hsd : sd = (d.eraseIdx axis).insertIdx axis (c, st) := by
    have h1 := resizeDim_eq nd axis c hndlen
    have h2 : nd.eraseIdx axis = d.eraseIdx axis := by rw [hnd, List.eraseIdx_insertIdx_self]
    have h3 : (nd.getD axis (0, 0)).2 = st := resizeDim_stride d axis (old + c)
    show resizeDim nd axis c = _
    rw [h1, h2, h3]
  have hsE : (sizes (d.eraseIdx axis)).length = d.length - 1 := by simp [hE]
  refine ⟨?_, ?_, ?_⟩
  · intro idx' hv
    have hl := validIdx_length hv
    rw [hsd, sizes_insertIdx, List.length_insertIdx, hsE, if_pos (by omega)] at hl
    have hEi : (idx'.eraseIdx axis).length = d.length - 1 := by
      simp [List.length_eraseIdx, hl]; omega
    have e1 := insertIdx_eraseIdx_getD idx' axis 0 (by omega)
    rw [hsd, sizes_insertIdx, ← e1,
      validIdx_insertIdx _ _ _ _ _ (by omega) (by omega)] at hv
    simp only [Bool.and_eq_true, decide_eq_true_eq] at hv
    refine ⟨?_, ?_, ?_⟩
    · rw [hnd, sizes_insertIdx]
      unfold shiftIdx
      rw [validIdx_insertIdx _ _ _ _ _ (by omega) (by omega)]
      simp only [Bool.and_eq_true, decide_eq_true_eq]
      exact ⟨by omega, hv.2⟩
    · unfold shiftIdx
      rw [hnd, offset_insertIdx _ _ _ _ _ (by omega) (by omega)]
      have : offset sd idx' = idx'.getD axis 0 * st + offset (d.eraseIdx axis) (idx'.eraseIdx axis) := by
        rw [hsd]
        conv => lhs; rw [← e1]
        exact offset_insertIdx _ _ _ _ _ (by omega) (by omega)
      rw [this, Nat.add_mul]
      simp only []
      omega
    · unfold shiftIdx
      rw [getD_insertIdx_self _ _ _ (by omega)]
      omega
  · intro idx hv
    have hl := validIdx_length hv
    rw [sizes_length] at hl
    have hEi : (idx.eraseIdx axis).length = d.length - 1 := by
      simp [List.length_eraseIdx, hl]; omega
    have e1 := insertIdx_eraseIdx_getD idx axis 0 (by omega)
    have hv' := hv
    rw [hd, sizes_insertIdx, ← e1,
      validIdx_insertIdx _ _ _ _ _ (by omega) (by omega)] at hv'
    simp only [Bool.and_eq_true, decide_eq_true_eq] at hv'
    refine ⟨?_, ?_, hv'.1⟩
    · rw [hnd, sizes_insertIdx, ← e1, validIdx_insertIdx _ _ _ _ _ (by omega) (by omega)]
      simp only [Bool.and_eq_true, decide_eq_true_eq]
      exact ⟨by omega, hv'.2⟩
    · have h1 : offset nd idx = idx.getD axis 0 * st + offset (d.eraseIdx axis) (idx.eraseIdx axis) := by
        rw [hnd]
        conv => lhs; rw [← e1]
        exact offset_insertIdx _ _ _ _ _ (by omega) (by omega)
      have h2 : offset d idx = idx.getD axis 0 * st + offset (d.eraseIdx axis) (idx.eraseIdx axis) := by
        conv => lhs; rw [hd, ← e1]
        exact offset_insertIdx _ _ _ _ _ (by omega) (by omega)
      rw [h1, h2]
  · intro a b ha hb hab
    have hla := validIdx_length ha
    have hlb := validIdx_length hb
    rw [hsd, sizes_insertIdx, List.length_insertIdx, hsE, if_pos (by omega)] at hla hlb
    have ea := insertIdx_eraseIdx_getD a axis 0 (by omega)
    have eb := insertIdx_eraseIdx_getD b axis 0 (by omega)
    unfold shiftIdx at hab
    have h1 := congrArg (fun l => l.eraseIdx axis) hab
    simp only [List.eraseIdx_insertIdx_self] at h1
    have hEa : (a.eraseIdx axis).length = d.length - 1 := by simp [List.length_eraseIdx, hla]; omega
    have hEb : (b.eraseIdx axis).length = d.length - 1 := by simp [List.length_eraseIdx, hlb]; omega
    have h2 : ((a.eraseIdx axis).insertIdx axis (old + a.getD axis 0)).getD axis 0 =
        ((b.eraseIdx axis).insertIdx axis (old + b.getD axis 0)).getD axis 0 := by rw [hab]
    rw [getD_insertIdx_self _ _ _ (by omega), getD_insertIdx_self _ _ _ (by omega)] at h2
    rw [← ea, ← eb, h1, show a.getD axis 0 = b.getD axis 0 by omega]

end RtenVerif.Layout
