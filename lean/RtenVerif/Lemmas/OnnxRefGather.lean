import RtenVerif.Lemmas.OnnxRefTranspose
/-! Gather along axis 0 with a permutation and then with its inverse is the identity. -/
namespace RtenVerif.OnnxRef

theorem normIndex_ofNat (d a : Nat) (h : a < d) : normIndex d (Int.ofNat a) = some a := by
  unfold normIndex
  have h1 : ¬ ((a : Int) < 0) := by omega
  have h2 : (a : Int) < (d : Int) := by omega
  simp only [Int.ofNat_eq_natCast, h1, h2, if_false, if_true, Int.toNat_natCast]

theorem allIndicesOk_nat (d : Nat) (s : List Nat) (p : List Nat) (hp : ∀ a ∈ p, a < d) :
    allIndicesOk d ⟨s, p.map Int.ofNat⟩ = true := by
  unfold allIndicesOk
  simp only [List.all_map, List.all_eq_true, Function.comp]
  intro a ha
  rw [normIndex_ofNat d a (hp a ha)]; rfl

/-- Gather along axis 0 with a 1-D index list `p` (all in range), in index form. -/
theorem gather_axis0 (x : Tensor) (d : Nat) (rest p : List Nat) (hs : x.shape = d :: rest)
    (hp : ∀ a ∈ p, a < d) :
    gather x ⟨[p.length], p.map Int.ofNat⟩ 0 =
      .ok (build (p.length :: rest) (fun idx => x.get (getN p (getN idx 0) :: idx.tail))) := by
  unfold gather
  have hr : x.rank = rest.length + 1 := by simp [Tensor.rank, hs]
  have hna : normAxis x.rank 0 = .ok 0 := by
    unfold normAxis
    have : (0 : Int) < ((rest.length + 1 : Nat) : Int) := by omega
    simp [hr, this]; rfl
  rw [hna]
  simp only [Except.bind, bind, getN_cons_zero, hs]
  have hok := allIndicesOk_nat d [p.length] p hp
  simp only [hok, Bool.not_true, Bool.false_eq_true, if_false, List.take_zero, List.nil_append,
    Nat.zero_add, List.drop_succ_cons, List.drop_zero, List.singleton_append, pure, Except.pure]
  congr 1
  apply build_congr
  intro idx hv
  cases idx with
  | nil => simp [validIdx] at hv
  | cons i is =>
    simp only [validIdx, Bool.and_eq_true, decide_eq_true_eq] at hv
    simp only [Tensor.rank, List.length_singleton, List.take_succ_cons, List.take_zero, List.drop_zero,
      List.drop_succ_cons, getN_cons_zero, List.tail_cons, List.take_zero, List.nil_append, List.singleton_append]
    have hget : (Tensor.get ⟨[p.length], p.map Int.ofNat⟩ [i]) = Int.ofNat (getN p i) := by
      simp [Tensor.get, ravel, prod, getN, List.getD_eq_getElem?_getD, hv.1]
    rw [hget, normIndex_ofNat d _ (hp _ (getN_mem p i hv.1))]
    rfl

/-- GA1. Gathering rows by a permutation `p` and then by `q` with `p[q[i]] = i` gives the tensor back. -/
theorem gather_perm_inverse (x : Tensor) (d : Nat) (rest p q : List Nat) (hs : x.shape = d :: rest)
    (hwf : x.data.length = prod x.shape)
    (hp : ∀ a ∈ p, a < d) (hq : ∀ a ∈ q, a < p.length) (hql : q.length = d)
    (hinv : q.map (getN p) = List.range d) :
    (gather x ⟨[p.length], p.map Int.ofNat⟩ 0).bind (fun y => gather y ⟨[q.length], q.map Int.ofNat⟩ 0)
      = .ok x := by
  rw [gather_axis0 x d rest p hs hp]
  simp only [Except.bind]
  rw [gather_axis0 _ p.length rest q rfl hq]
  congr 1
  rw [hql, ← hs]
  apply Eq.trans (build_congr x.shape _ x.get _) (build_get x hwf)
  intro idx hv
  rw [hs] at hv
  cases idx with
  | nil => simp [validIdx] at hv
  | cons i is =>
    simp only [validIdx, Bool.and_eq_true, decide_eq_true_eq] at hv
    simp only [getN_cons_zero, List.tail_cons]
    have hiq : i < q.length := by omega
    have hmid : validIdx (p.length :: rest) (getN q i :: is) = true := by
      simp only [validIdx, Bool.and_eq_true, decide_eq_true_eq]
      exact ⟨hq _ (getN_mem q i hiq), hv.2⟩
    rw [get_build _ _ _ hmid]
    simp only [getN_cons_zero, List.tail_cons]
    have : getN p (getN q i) = i := by
      have h1 := getN_map q (getN p) i hiq
      rw [hinv] at h1
      rw [← h1]
      simp [getN, List.getD_eq_getElem?_getD, hv.1]
    rw [this]

end RtenVerif.OnnxRef
