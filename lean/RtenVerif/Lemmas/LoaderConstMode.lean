import RtenVerif.Lemmas.LoaderConst

/-!
C05 / audit item M2: the unchecked `*`, `+`, `-` that `TensorBase::try_from_data` runs after
`checked_shape_len` succeeded (`DynLayout::contiguous_shape_and_strides`, `Layout::min_data_len`)
never overflow — in a build with overflow checks they cannot panic, and in every build they
compute what C06's machine model `M.tryFromData` computes.
-/
namespace RtenVerif.LoaderConst
open RtenVerif.TensorBounds RtenVerif.Overlap

theorem isizeMax_lt_wordSize : isizeMax < wordSize := by decide

theorem M_prod_toNat_of_fits (s : List U) (h : prodNZ (M.toNs s) ≤ isizeMax) :
    (M.prod s).toNat = prod (M.toNs s) := by
  rw [M.prod_toNat, Nat.mod_eq_of_lt]
  have := prod_le_prodNZ (M.toNs s)
  have := isizeMax_lt_wordSize
  omega

/-- The stride loop of `from_shape` does not overflow for a shape `checked_shape_len` accepts. -/
theorem stridesMode_eq (ovf : Bool) (s : List U) (h : prodNZ (M.toNs s) ≤ isizeMax) :
    stridesMode ovf s = some (M.contigStrides s, M.prod s) := by
  induction s with
  | nil => rfl
  | cons x xs ih =>
    have htail : prodNZ (M.toNs xs) ≤ isizeMax :=
      Nat.le_trans (prodNZ_tail_le x.toNat (M.toNs xs)) (by rw [← M.toNs_cons]; exact h)
    simp only [stridesMode, ih htail]
    have hp := M_prod_toNat_of_fits xs htail
    have hle : prod (M.toNs (x :: xs)) ≤ prodNZ (M.toNs (x :: xs)) := prod_le_prodNZ _
    rw [M.toNs_cons] at hle
    simp only [prod] at hle
    have hW := isizeMax_lt_wordSize
    have hno : ¬ (ovf = true ∧ wordSize ≤ (M.prod xs).toNat * x.toNat) := by
      rw [hp, Nat.mul_comm]
      rw [M.toNs_cons] at h
      omega
    simp only [mulMode, hno, if_false, M.contigStrides, M.prod]
    rw [UInt64.mul_comm]

theorem hasZero_cons_false {x : U × U} {xs : List (U × U)} (h : M.hasZero (x :: xs) = false) :
    x.1 ≠ 0 ∧ M.hasZero xs = false := by
  unfold M.hasZero at h ⊢
  simp only [List.any_cons, Bool.or_eq_false_iff] at h
  refine ⟨?_, h.2⟩
  intro h0
  rw [h0] at h
  simp at h

/-- The `(size - 1) * stride` sum does not overflow when its ideal value fits. -/
theorem maxOffsetMode_eq (ovf : Bool) (d : List (U × U)) (acc : U) (hz : M.hasZero d = false)
    (hb : acc.toNat + TensorBounds.maxOffset (M.toN d) < wordSize) :
    maxOffsetMode ovf d acc = some (acc + M.maxOffset d) := by
  induction d generalizing acc with
  | nil => simp [maxOffsetMode, M.maxOffset]
  | cons x xs ih =>
    obtain ⟨size, stride⟩ := x
    obtain ⟨hne, hz'⟩ := hasZero_cons_false hz
    simp only at hne
    rw [M.toN_cons] at hb
    simp only [TensorBounds.maxOffset] at hb
    have hpred : (size - 1).toNat = size.toNat - 1 := M.pred_toNat hne
    have hmul : (size - 1).toNat * stride.toNat < wordSize := by rw [hpred]; omega
    have ht : ((size - 1) * stride).toNat = (size.toNat - 1) * stride.toNat := by
      rw [M.mul_toNat, Nat.mod_eq_of_lt hmul, hpred]
    have hadd : acc.toNat + ((size - 1) * stride).toNat < wordSize := by rw [ht]; omega
    have h1 : ¬ (ovf = true ∧ size = 0) := fun h => hne h.2
    have h2 : ¬ (ovf = true ∧ wordSize ≤ (size - 1).toNat * stride.toNat) := by omega
    have h3 : ¬ (ovf = true ∧ wordSize ≤ acc.toNat + ((size - 1) * stride).toNat) := by omega
    simp only [maxOffsetMode, predMode, mulMode, addMode, h1, h2, h3, if_false]
    rw [ih (acc + (size - 1) * stride) hz' (by
      rw [M.add_toNat, Nat.mod_eq_of_lt hadd, ht]; omega)]
    simp only [M.maxOffset]
    rw [UInt64.add_assoc]

/-- `min_data_len` of the contiguous layout of an accepted shape does not overflow. -/
theorem minDataLenMode_eq (ovf : Bool) (s : List U) (h : prodNZ (M.toNs s) ≤ isizeMax) :
    minDataLenMode ovf (M.contigDims s) = some (M.minDataLen (M.contigDims s)) := by
  unfold minDataLenMode M.minDataLen
  cases hz : M.hasZero (M.contigDims s)
  · simp only [Bool.false_eq_true, if_false]
    have hmo := maxOffset_contig_lt (M.toNs s)
    have hW := isizeMax_lt_wordSize
    have htoN := M.contigDims_toN s h
    have hb : (0 : U).toNat + TensorBounds.maxOffset (M.toN (M.contigDims s)) < wordSize := by
      rw [htoN]
      have : (0 : U).toNat = 0 := rfl
      omega
    rw [maxOffsetMode_eq ovf _ 0 hz hb]
    simp only [UInt64.zero_add]
    have hm : (M.maxOffset (M.contigDims s)).toNat = TensorBounds.maxOffset (contigDims (M.toNs s)) := by
      rw [M.maxOffset_toNat _ hz, htoN, Nat.mod_eq_of_lt (by omega)]
    have hno : ¬ (ovf = true ∧ wordSize ≤ (M.maxOffset (M.contigDims s)).toNat + (1 : U).toNat) := by
      have : (1 : U).toNat = 1 := rfl
      omega
    simp only [addMode, hno, if_false]
  · simp

/-- **M2** `try_from_data`, including its unchecked arithmetic in overflow-checking builds,
never panics and equals C06's machine model. -/
theorem tryFromDataMode_eq (ovf : Bool) (shape : List U) (len : U) :
    tryFromDataMode ovf shape len = some (M.tryFromData shape len) := by
  unfold tryFromDataMode M.tryFromData
  split
  · rfl
  · next hsome =>
    have hfit : prodNZ (M.toNs shape) ≤ isizeMax := by
      have e := M.checkedShapeLen_eq shape
      rw [TensorBounds.checkedShapeLen_eq] at e
      by_cases hp : prodNZ (M.toNs shape) ≤ isizeMax
      · exact hp
      · rw [if_neg hp] at e
        cases hc : M.checkedShapeLen shape with
        | none => rw [hc] at hsome; exact absurd rfl hsome
        | some v => rw [hc] at e; cases e
    rw [stridesMode_eq ovf shape hfit]
    show (match minDataLenMode ovf (M.contigDims shape) with
      | none => none
      | some m => some (if m ≠ len then Except.error Err.mismatch else Except.ok (M.contigDims shape))) = _
    rw [minDataLenMode_eq ovf shape hfit]

theorem tryFromDataG_eq (ovf : Bool) (shape : List U) (len : U) :
    tryFromDataG ovf shape len = tryFromData shape len := by
  unfold tryFromDataG tryFromData
  rw [tryFromDataMode_eq]
  cases M.tryFromData shape len <;> rfl

theorem fromDataG_eq (ovf : Bool) (shape : List U) (len : U) :
    fromDataG ovf shape len = fromData shape len := by
  unfold fromDataG fromData
  rw [tryFromDataMode_eq]
  cases M.tryFromData shape len <;> rfl

end RtenVerif.LoaderConst
