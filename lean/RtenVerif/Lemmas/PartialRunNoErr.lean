import RtenVerif.Lemmas.PartialRunEval
import RtenVerif.Lemmas.PlannerErr
/-!
# If every requested output has a naive value, planning cannot fail

`c03_error_cause` says every traversal error has a genuine cause in the graph (a needed operator
on a dependency cycle, a needed value nobody produces).  A naive evaluation of the requested
outputs that terminates with a value excludes each of these causes.
-/
namespace RtenVerif.PartialRun
open RtenVerif.Graph RtenVerif.Planner

section
variable {Ω V : Type}
variable (g : Graph) (sem : Sem Ω V) (ω : Ω) (cv : Nat → V) (W : List (Nat × V))

/-- Operator `p` is evaluated by the naive evaluation with budget `f` for its dependencies. -/
def OpEval (f p : Nat) : Prop :=
  ∃ op args outs, getOp g p = some op ∧
    gather (evalAt g sem ω cv W f) (opDeps g op) = some args ∧
    sem ω p args = some outs ∧ ¬ outs.length < op.outputs.length

variable {g sem ω cv W}

theorem lookup_some_of_key {l : List (Nat × V)} {k : Nat} (h : k ∈ l.map (fun p => p.1)) :
    ∃ v, l.lookup k = some v := by
  induction l with
  | nil => simp at h
  | cons a l ih =>
    obtain ⟨k', v'⟩ := a
    simp only [List.lookup_cons]
    cases hkk : (k == k') with
    | true => exact ⟨v', rfl⟩
    | false =>
      simp only [List.map_cons, List.mem_cons] at h
      rcases h with h | h
      · exact absurd (by simpa using h) (by simpa using hkk)
      · exact ih h

theorem key_of_lookup_some {l : List (Nat × V)} {k : Nat} {v : V} (h : l.lookup k = some v) :
    k ∈ l.map (fun p => p.1) := by
  induction l with
  | nil => simp at h
  | cons a l ih =>
    obtain ⟨k', v'⟩ := a
    simp only [List.lookup_cons] at h
    cases hkk : (k == k') with
    | true =>
      have : k = k' := by simpa using hkk
      simp [this]
    | false =>
      simp only [hkk] at h
      exact List.mem_cons_of_mem _ (ih h)

/-- A value that is not initially available and has a naive value is produced by an operator
that the naive evaluation runs with a strictly smaller budget. -/
theorem evalAt_unresolved {f d : Nat} {w : V} (h : evalAt g sem ω cv W f d = some w)
    (hr : rContains g (W.map (fun p => p.1)) d = false) :
    ∃ f' p pop, f = f' + 1 ∧ getSource g d = some (p, pop) ∧ OpEval g sem ω cv W f' p := by
  cases f with
  | zero => simp [evalAt] at h
  | succ f' =>
    refine ⟨f', ?_⟩
    simp only [rContains, Bool.or_eq_false_iff] at hr
    obtain ⟨hr1, hr2⟩ := hr
    rw [evalAt] at h
    cases hn : getNode g d with
    | none => simp [hn] at h
    | some n =>
      cases n with
      | operator op => simp [hn] at h
      | constant => simp [isConstant, hn] at hr2
      | value =>
        simp only [hn] at h
        cases hl : W.lookup d with
        | some x =>
          have := key_of_lookup_some hl
          have hc : (W.map (fun p => p.1)).contains d = true := List.contains_iff_mem.mpr this
          rw [hc] at hr1; cases hr1
        | none =>
          simp only [hl] at h
          cases hs : getSource g d with
          | none => simp [hs] at h
          | some pr =>
            obtain ⟨p, pop⟩ := pr
            simp only [hs] at h
            cases hg : gather (evalAt g sem ω cv W f') (opDeps g pop) with
            | none => simp [hg] at h
            | some args =>
              simp only [hg] at h
              cases hsem : sem ω p args with
              | none => simp [hsem] at h
              | some outs =>
                simp only [hsem] at h
                by_cases hlen : outs.length < pop.outputs.length
                · simp [hlen] at h
                · exact ⟨p, pop, rfl, rfl, pop, args, outs, (getSource_spec hs).2.1, hg, hsem, hlen⟩

/-- The value of a dependency of an evaluated operator. -/
theorem OpEval.dep {f x : Nat} (h : OpEval g sem ω cv W f x) {xop : OpNode}
    (hx : getOp g x = some xop) {d : Nat} (hd : d ∈ opDeps g xop) :
    ∃ w, evalAt g sem ω cv W f d = some w := by
  obtain ⟨op, args, outs, hop, hg, _, _⟩ := h
  rw [hx] at hop
  injection hop with hop
  subst hop
  exact gather_lookup_some hg d hd

/-- Every needed operator is evaluated by the naive evaluation. -/
theorem needed_opEval {outs : List Nat}
    (hden : ∀ o ∈ outs, ∃ v, Den g sem ω cv W o v) {p : Nat}
    (hn : Needed g (W.map (fun p => p.1)) outs p) : ∃ f, OpEval g sem ω cv W f p := by
  induction hn with
  | root ho hr hs =>
    obtain ⟨v, f, hf⟩ := hden _ ho
    obtain ⟨f', p', pop', _, hs', he⟩ := evalAt_unresolved hf hr
    rw [hs] at hs'
    injection hs' with hs'
    injection hs' with h1 _
    subst h1
    exact ⟨f', he⟩
  | step _ hx hd hr hs ih =>
    obtain ⟨f, hf⟩ := ih
    obtain ⟨w, hw⟩ := hf.dep hx hd
    obtain ⟨f', p', pop', _, hs', he⟩ := evalAt_unresolved hw hr
    rw [hs] at hs'
    injection hs' with hs'
    injection hs' with h1 _
    subst h1
    exact ⟨f', he⟩

theorem opEval_edge {f x p : Nat} (h : OpEval g sem ω cv W f x)
    (he : Edge g (W.map (fun p => p.1)) x p) : ∃ f', f' < f ∧ OpEval g sem ω cv W f' p := by
  obtain ⟨xop, d, pop, hx, hd, hr, hs⟩ := he
  obtain ⟨w, hw⟩ := h.dep hx hd
  obtain ⟨f', p', pop', hf, hs', he⟩ := evalAt_unresolved hw hr
  rw [hs] at hs'
  injection hs' with hs'
  injection hs' with h1 _
  subst h1
  exact ⟨f', by omega, he⟩

theorem opEval_star {f p x : Nat} (h : OpEval g sem ω cv W f p)
    (hs : Star (Edge g (W.map (fun p => p.1))) p x) : ∃ f', f' ≤ f ∧ OpEval g sem ω cv W f' x := by
  induction hs with
  | refl => exact ⟨f, Nat.le_refl _, h⟩
  | tail _ he ih =>
    obtain ⟨f1, h1, e1⟩ := ih
    obtain ⟨f2, h2, e2⟩ := opEval_edge e1 he
    exact ⟨f2, by omega, e2⟩

/-- An evaluated operator is not on a dependency cycle through unresolved values. -/
theorem opEval_no_cycle {x p : Nat} (he : Edge g (W.map (fun p => p.1)) x p)
    (hs : Star (Edge g (W.map (fun p => p.1))) p x) :
    ∀ f, ¬ OpEval g sem ω cv W f x := by
  intro f
  induction f using Nat.strongRecOn with
  | ind f ih =>
    intro h
    obtain ⟨f1, h1, e1⟩ := opEval_edge h he
    obtain ⟨f2, h2, e2⟩ := opEval_star e1 hs
    exact ih f2 (by omega) e2

/-- **No planning error**: if every requested output has a naive value on the supplied values
`W`, none of the traversal-error causes of C03 exists. -/
theorem no_errCause {outs : List Nat} (hden : ∀ o ∈ outs, ∃ v, Den g sem ω cv W o v)
    {opts : PlanOptions} {e : PlanError}
    (h : ErrCause g opts (W.map (fun p => p.1)) outs e) : False := by
  cases h with
  | cycle hn he hs =>
    obtain ⟨f, hf⟩ := needed_opEval hden hn
    exact opEval_no_cycle he hs f hf
  | missing _ hn hx hd hr hs =>
    obtain ⟨f, hf⟩ := needed_opEval hden hn
    obtain ⟨w, hw⟩ := hf.dep hx hd
    obtain ⟨_, _, _, _, hs', _⟩ := evalAt_unresolved hw hr
    rw [hs] at hs'; cases hs'
  | noSource _ ho hr hs =>
    obtain ⟨v, f, hf⟩ := hden _ ho
    obtain ⟨_, _, _, _, hs', _⟩ := evalAt_unresolved hf hr
    rw [hs] at hs'; cases hs'

end

end RtenVerif.PartialRun
