import RtenVerif.Lemmas.OnnxRefSliceAxis
import RtenVerif.Lemmas.OnnxRefSlice
/-! Scalar semantics of integer Div / Mod / Pow / Clip and the Range length formula. -/
namespace RtenVerif.OnnxRef

/-- AR1. `Div` and `Mod(fmod=1)` are the C pair: `x = y·q + r`, `|r| < |y|`, `r` has the sign of `x`
(so the quotient is truncated toward zero). -/
theorem div_fmod_spec (x y : Int) (hy : y ≠ 0) :
    x = y * divI x y + modI true x y ∧ (modI true x y).natAbs < y.natAbs ∧
    (0 ≤ x → 0 ≤ modI true x y) ∧ (x ≤ 0 → modI true x y ≤ 0) := by
  simp only [divI, modI, if_true]
  refine ⟨(Int.mul_tdiv_add_tmod x y).symm, ?_, ?_, ?_⟩
  · rw [Int.natAbs_tmod]
    exact Nat.mod_lt _ (by omega)
  · intro hx; exact Int.tmod_nonneg y hx
  · intro hx
    have := Int.tmod_nonneg y (show 0 ≤ -x by omega)
    rw [Int.neg_tmod] at this
    omega

/-- AR2. `Mod(fmod=0)` is Python `%`: `x = y·q + r` for the floor quotient `q`, `|r| < |y|`, and `r`
has the sign of the divisor `y`. -/
theorem mod_spec (x y : Int) (hy : y ≠ 0) :
    x = y * Int.fdiv x y + modI false x y ∧ (modI false x y).natAbs < y.natAbs ∧
    (0 < y → 0 ≤ modI false x y) ∧ (y < 0 → modI false x y ≤ 0) := by
  simp only [modI, Bool.false_eq_true, if_false]
  have hsum := (Int.mul_fdiv_add_fmod x y).symm
  refine ⟨hsum, ?_, ?_, ?_⟩
  · by_cases hp : 0 < y
    · have h1 := Int.fmod_nonneg_of_pos x hp
      have h2 := Int.fmod_lt_of_pos x hp
      omega
    · have hn : 0 < -y := by omega
      have h1 := Int.fmod_nonneg_of_pos (-x) hn
      have h2 := Int.fmod_lt_of_pos (-x) hn
      rw [Int.neg_fmod_neg] at h1 h2
      omega
  · intro hp; exact Int.fmod_nonneg_of_pos x hp
  · intro hn
    have h1 := Int.fmod_nonneg_of_pos (-x) (show 0 < -y by omega)
    rw [Int.neg_fmod_neg] at h1
    omega

/-- AR3. `Pow` with a non-negative exponent: `x⁰ = 1`, `x^(n+1) = x · x^n`. -/
theorem pow_spec (x : Int) (n : Nat) : powI x 0 = 1 ∧ powI x ((n : Int) + 1) = x * powI x n := by
  constructor
  · simp [powI]
  · have : ((n : Int) + 1).toNat = n + 1 := by omega
    simp [powI, this, Int.pow_succ, Int.mul_comm]

/-- AR4. `Clip`: the result lies within the given bounds (when `lo ≤ hi`), equals `x` if `x` already
does, and an absent bound does not constrain. -/
theorem clip_spec (lo hi v : Int) (h : lo ≤ hi) :
    lo ≤ clipI (some lo) (some hi) v ∧ clipI (some lo) (some hi) v ≤ hi ∧
    (lo ≤ v → v ≤ hi → clipI (some lo) (some hi) v = v) ∧
    clipI none none v = v ∧ clipI (some lo) none v = max v lo ∧ clipI none (some hi) v = min v hi := by
  simp only [clipI]
  refine ⟨by omega, by omega, by intro _ _; omega, ?_, ?_, ?_⟩ <;> trivial

/-- AR5. `Range(start, limit, delta)`: `max(⌈(limit − start)/delta⌉, 0)` elements `start + i·delta`, all
strictly before `limit` (in the direction of `delta`), and the next one is not. -/
theorem range_spec (start limit delta : Int) (t : Tensor) (hd : delta ≠ 0)
    (h : rangeOp start limit delta = .ok t) :
    t.shape = [t.data.length] ∧
    (∀ i : Nat, i < t.data.length → getI t.data i = start + i * delta ∧
      (0 < delta → getI t.data i < limit) ∧ (delta < 0 → limit < getI t.data i)) ∧
    (0 < delta → limit ≤ start + (t.data.length : Int) * delta) ∧
    (delta < 0 → start + (t.data.length : Int) * delta ≤ limit) := by
  unfold rangeOp at h
  have hd' : (delta == 0) = false := by simpa using hd
  simp only [hd', Bool.false_eq_true, if_false, pure, Except.pure, Except.ok.injEq] at h
  subst h
  simp only [List.length_map, List.length_range]
  refine ⟨by simp, ?_, ?_, ?_⟩
  · intro i hi
    rw [getI_map_range _ (fun (i : Nat) => start + (i : Int) * delta) _ hi]
    refine ⟨rfl, ?_, ?_⟩
    · intro hp
      simp only [hp, if_true] at hi
      have := (ceil_count (limit - start) delta hp).1 i hi
      omega
    · intro hn
      have hnp : ¬ delta > 0 := by omega
      simp only [hnp, if_false] at hi
      have := (ceil_count (start - limit) (-delta) (by omega)).1 i hi
      rw [Int.mul_neg] at this
      omega
  · intro hp
    simp only [hp, if_true]
    have := (ceil_count (limit - start) delta hp).2
    omega
  · intro hn
    have hnp : ¬ delta > 0 := by omega
    simp only [hnp, if_false]
    have := (ceil_count (start - limit) (-delta) (by omega)).2
    rw [Int.mul_neg] at this
    omega

end RtenVerif.OnnxRef
