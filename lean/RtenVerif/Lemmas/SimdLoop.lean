import RtenVerif.Model.SimdLoop

/-!
Helper lemmas for C18: which indices a mask / chunk / run of chunks touches, canonical
form of the `simd_map` loop, the unrolled loop is the same schedule, lane arithmetic.
Core Lean only (no Mathlib needed).
-/
namespace RtenVerif.SimdLoop

/-! ### masks -/

theorem maskIdx_prefix (t : Nat) : ∀ (v s off : Nat),
    maskIdx off ((List.range' s v).map (fun i => decide (i < t))) = List.range' off (min (t - s) v) := by
  intro v
  induction v with
  | zero => intro s off; simp [maskIdx]
  | succ v ih =>
    intro s off
    rw [List.range'_succ, List.map_cons, maskIdx]
    by_cases h : s < t
    · have e : min (t - s) (v + 1) = min (t - (s + 1)) v + 1 := by omega
      simp only [h, decide_true, if_true, ih, e, List.range'_succ]
    · have e : min (t - s) (v + 1) = 0 := by omega
      have e2 : min (t - (s + 1)) v = 0 := by omega
      simp [h, ih, e, e2]

theorem maskIdx_firstN (v off t : Nat) :
    maskIdx off (firstNMask v t) = List.range' off (min t v) := by
  unfold firstNMask
  rw [List.range_eq_range', maskIdx_prefix]
  simp

theorem maskIdx_replicate_true : ∀ (v off : Nat),
    maskIdx off (List.replicate v true) = List.range' off v := by
  intro v
  induction v with
  | zero => intro off; simp [maskIdx]
  | succ v ih => intro off; simp [List.replicate_succ, maskIdx, ih, List.range'_succ]

@[simp] theorem full_indices (v off : Nat) : (full v off).indices = List.range' off v := by
  simp [full, Chunk.indices, maskIdx_replicate_true]

@[simp] theorem masked_indices (v off t : Nat) :
    (masked v off t).indices = List.range' off (min t v) := by
  simp [masked, Chunk.indices, maskIdx_firstN]

/-- Lane `i` of `first_n_mask(n)` is set iff `i < n` (generic / AVX2 lane-array form). -/
theorem firstNMask_get (v n i : Nat) (h : i < v) :
    (firstNMask v n)[i]'(by simp [firstNMask, h]) = decide (i < n) := by
  simp [firstNMask]

@[simp] theorem firstNMask_length (v n : Nat) : (firstNMask v n).length = v := by
  simp [firstNMask]

theorem bitLoopMask_succ (n : Nat) : bitLoopMask (n + 1) = bitLoopMask n ||| (1 <<< n) := by
  simp [bitLoopMask, List.range_succ, List.foldl_append]

/-- Bit `i` of the AVX-512 bit-loop mask is set iff `i < n`. -/
theorem bitLoopMask_testBit (n i : Nat) : (bitLoopMask n).testBit i = decide (i < n) := by
  induction n with
  | zero => simp [bitLoopMask]
  | succ n ih =>
    rw [bitLoopMask_succ, Nat.testBit_or, ih, Nat.one_shiftLeft, Nat.testBit_two_pow]
    by_cases h1 : i < n
    · have : i < n + 1 := by omega
      simp [h1, this]
    · by_cases h2 : n = i
      · subst h2; simp
      · have : ¬ i < n + 1 := by omega
        simp [h1, h2, this]

/-! ### touched indices of runs -/

@[simp] theorem touched_nil : touched [] = [] := rfl

@[simp] theorem touched_cons (c : Chunk) (cs : List Chunk) :
    touched (c :: cs) = c.indices ++ touched cs := by
  simp [touched]

@[simp] theorem touched_append (a b : List Chunk) : touched (a ++ b) = touched a ++ touched b := by
  simp [touched]

theorem range'_append' (s m n : Nat) :
    List.range' s m ++ List.range' (s + m) n = List.range' s (m + n) := by
  simp

theorem fullRun_succ (v off k : Nat) :
    fullRun v off (k + 1) = full v off :: fullRun v (off + v) k := by
  unfold fullRun
  rw [List.range_succ_eq_map, List.map_cons, List.map_map]
  congr 1
  · simp
  · apply List.map_congr_left
    intro j _
    simp only [Function.comp, Nat.succ_eq_add_one, Nat.add_mul, Nat.one_mul]
    congr 1
    omega

@[simp] theorem fullRun_zero (v off : Nat) : fullRun v off 0 = [] := rfl

theorem fullRun_append (v : Nat) : ∀ (a off b : Nat),
    fullRun v off (a + b) = fullRun v off a ++ fullRun v (off + a * v) b := by
  intro a
  induction a with
  | zero => intro off b; simp
  | succ a ih =>
    intro off b
    have e : a + 1 + b = (a + b) + 1 := by omega
    rw [e, fullRun_succ, fullRun_succ, ih (off + v) b, List.cons_append]
    congr 2
    rw [Nat.add_mul, Nat.one_mul]
    congr 1
    omega

theorem touched_fullRun (v : Nat) : ∀ (k off : Nat),
    touched (fullRun v off k) = List.range' off (k * v) := by
  intro k
  induction k with
  | zero => intro off; simp
  | succ k ih =>
    intro off
    rw [fullRun_succ, touched_cons, full_indices, ih, range'_append']
    congr 1
    rw [Nat.add_mul, Nat.one_mul]; omega

theorem touched_tailChunk (v off t : Nat) (h : t ≤ v) :
    touched (tailChunk v off t) = List.range' off t := by
  unfold tailChunk
  by_cases ht : t > 0
  · simp [ht, Nat.min_eq_left h]
  · have : t = 0 := by omega
    simp [this]

/-! ### canonical form of `simd_map` -/

theorem mapLoop_canon (v : Nat) (hv : 0 < v) : ∀ (fuel off n : Nat), n ≤ fuel →
    mapLoop v fuel off n = fullRun v off (n / v) ++ tailChunk v (off + (n / v) * v) (n % v) := by
  intro fuel
  induction fuel with
  | zero =>
    intro off n h
    have : n = 0 := by omega
    subst this
    simp [mapLoop]
  | succ fuel ih =>
    intro off n h
    unfold mapLoop
    by_cases hge : n ≥ v
    · have hd : n / v = (n - v) / v + 1 := by
        rw [Nat.div_eq n v]; simp [hv, hge]
      have hm : n % v = (n - v) % v := Nat.mod_eq_sub_mod hge
      rw [if_pos hge, ih (off + v) (n - v) (by omega), hd, hm, fullRun_succ, List.cons_append]
      congr 3
      rw [Nat.add_mul, Nat.one_mul]; omega
    · have hlt : n < v := by omega
      rw [if_neg hge, Nat.div_eq_of_lt hlt, Nat.mod_eq_of_lt hlt]
      simp

theorem iterLoop_eq_mapLoop (v : Nat) (hv : 0 < v) : ∀ (fuel off n : Nat), n ≤ fuel →
    iterLoop v fuel off n = mapLoop v fuel off n := by
  intro fuel
  induction fuel with
  | zero =>
    intro off n h
    have : n = 0 := by omega
    subst this
    simp [iterLoop, mapLoop, iterTail, tailChunk]
  | succ fuel ih =>
    intro off n h
    unfold iterLoop mapLoop
    by_cases hge : v ≤ n
    · have hge' : n ≥ v := hge
      rw [if_pos hge, if_pos hge', ih _ _ (by omega)]
    · have hge' : ¬ n ≥ v := hge
      rw [if_neg hge, if_neg hge']
      unfold iterTail tailChunk
      have : min n v = n := by omega
      rw [this]

theorem flatMap_fullRun (v u : Nat) : ∀ (nb : Nat),
    (List.range nb).flatMap (fun b => fullRun v (b * (v * u)) u) = fullRun v 0 (nb * u) := by
  intro nb
  induction nb with
  | zero => simp
  | succ nb ih =>
    rw [List.range_succ, List.flatMap_append, ih, Nat.add_mul, Nat.one_mul, fullRun_append]
    simp only [List.flatMap_cons, List.flatMap_nil, List.append_nil, Nat.zero_add]
    congr 2
    rw [Nat.mul_comm v u, Nat.mul_assoc]

/-! ### lane arithmetic -/

theorem two_pow_pos_int (w : Nat) : (0 : Int) < 2 ^ w := Int.pow_pos (by decide)

theorem two_pow_succ_int (k : Nat) : (2 : Int) ^ (k + 1) = 2 * 2 ^ k := by
  rw [Int.pow_succ, Int.mul_comm]

theorem wrapS_bounds (k : Nat) (x : Int) :
    -(2 ^ k : Int) ≤ wrapS (k + 1) x ∧ wrapS (k + 1) x < 2 ^ k := by
  have hp := two_pow_pos_int k
  have hm := two_pow_succ_int k
  have h0 := Int.emod_nonneg x (show (2 * 2 ^ k : Int) ≠ 0 by omega)
  have h1 := Int.emod_lt_of_pos x (show (0 : Int) < 2 * 2 ^ k by omega)
  unfold wrapS
  simp only [hm]
  have hh : (2 * 2 ^ k : Int) / 2 = 2 ^ k := by omega
  rw [hh]
  split <;> omega

theorem wrapS_of_inRange (k : Nat) (x : Int) (lo : -(2 ^ k : Int) ≤ x) (hi : x < 2 ^ k) :
    wrapS (k + 1) x = x := by
  have hp := two_pow_pos_int k
  have hm := two_pow_succ_int k
  unfold wrapS
  simp only [hm]
  have hh : (2 * 2 ^ k : Int) / 2 = 2 ^ k := by omega
  rw [hh]
  by_cases hx : 0 ≤ x
  · have : x % (2 * 2 ^ k) = x := Int.emod_eq_of_lt hx (by omega)
    rw [this]; simp [hi]
  · have : x % (2 * 2 ^ k) = x + 2 * 2 ^ k := by
      have h2 : (x + 2 * 2 ^ k) % (2 * 2 ^ k) = x % (2 * 2 ^ k) := by
        simp
      rw [← h2]
      exact Int.emod_eq_of_lt (by omega) (by omega)
    rw [this]
    have : ¬ (x + 2 * 2 ^ k < 2 ^ k) := by omega
    simp [this]

/-- `wrapS` only depends on the residue modulo `2^w`. -/
theorem wrapS_congr (w : Nat) (x y : Int) (h : x % 2 ^ w = y % 2 ^ w) : wrapS w x = wrapS w y := by
  unfold wrapS; simp only [h]

theorem wrapS_emod (w : Nat) (x : Int) : wrapS w x % 2 ^ w = x % 2 ^ w := by
  unfold wrapS
  simp only
  split
  · exact Int.emod_emod_of_dvd x (Int.dvd_refl _)
  · rw [Int.sub_emod, Int.emod_self, Int.sub_zero, Int.emod_emod_of_dvd _ (Int.dvd_refl _),
      Int.emod_emod_of_dvd _ (Int.dvd_refl _)]

theorem pow_dvd_pow_int (a b : Nat) (h : a ≤ b) : (2 : Int) ^ a ∣ 2 ^ b := by
  obtain ⟨c, rfl⟩ := Nat.exists_eq_add_of_le h
  exact ⟨2 ^ c, by rw [Int.pow_add]⟩

/-- Truncating to `w` bits after computing in `w' ≥ w` bits gives the `w`-bit result: the
AVX2/AVX-512 8-bit `mul`/`shift_left` (extend → 16-bit op → `narrow_truncate`) equals the
direct 8-bit wrapping operation. -/
theorem wrapS_wrapS_of_le (w w' : Nat) (h : w ≤ w') (x : Int) :
    wrapS w (wrapS w' x) = wrapS w x := by
  apply wrapS_congr
  have hd := pow_dvd_pow_int w w' h
  have := wrapS_emod w' x
  calc wrapS w' x % 2 ^ w = (wrapS w' x % 2 ^ w') % 2 ^ w := (Int.emod_emod_of_dvd _ hd).symm
    _ = (x % 2 ^ w') % 2 ^ w := by rw [this]
    _ = x % 2 ^ w := Int.emod_emod_of_dvd _ hd

theorem wrapU_wrapU_of_le (w w' : Nat) (h : w ≤ w') (x : Int) :
    wrapU w (wrapU w' x) = wrapU w x := by
  unfold wrapU
  exact Int.emod_emod_of_dvd _ (pow_dvd_pow_int w w' h)

end RtenVerif.SimdLoop
