import RtenVerif.Model.Contours

/-!
Lemmas for C36.T1: the invariant of `find_contours` — every non-zero entry of the working mask
is a non-zero entry of the zero-padded input (`NZi`), every point the border following visits
is non-zero in the working mask, hence every emitted point is a foreground pixel of the input.
-/
namespace RtenVerif.Contours

def idx (W : Nat) (p : Pt) : Nat := p.1.toNat * W + p.2.toNat
def InR (W : Nat) (p : Pt) : Prop := ¬ (p.1 < 0 ∨ p.2 < 0 ∨ p.2 ≥ W)

theorem getM_ne_zero {m : List Int} {W : Nat} {p : Pt} (h : getM m W p ≠ 0) :
    InR W p ∧ m.getD (idx W p) 0 ≠ 0 := by
  unfold getM at h
  split at h
  · exact absurd rfl h
  · rename_i hg; exact ⟨hg, h⟩

theorem getM_of_inR {m : List Int} {W : Nat} {p : Pt} (h : InR W p) :
    getM m W p = m.getD (idx W p) 0 := by
  unfold getM; rw [if_neg h]; rfl

theorem getD_set (m : List Int) (i j : Nat) (v : Int) :
    (m.set i v).getD j 0 = if i = j ∧ i < m.length then v else m.getD j 0 := by
  simp only [List.getD_eq_getElem?_getD, List.getElem?_set]
  by_cases hij : i = j
  · subst hij
    by_cases hl : i < m.length
    · simp [hl]
    · simp [hl]
  · simp [hij]

/-- Every non-zero entry of the working mask is a non-zero entry of the initial mask. -/
def NZi (m0 m : List Int) : Prop := ∀ i, m.getD i 0 ≠ 0 → m0.getD i 0 ≠ 0

theorem setM_NZi {m0 m : List Int} {W : Nat} {c : Pt} (v : Int) (h : NZi m0 m)
    (hc : getM m W c ≠ 0) : NZi m0 (setM m W c v) := by
  obtain ⟨hr, hnz⟩ := getM_ne_zero hc
  unfold setM; rw [if_neg hr]
  intro i hi
  rw [getD_set] at hi
  split at hi
  · rename_i hh; rw [← hh.1]; exact h _ hnz
  · exact h i hi

theorem setM_keeps {m : List Int} {W : Nat} {c q : Pt} {v : Int} (hv : v ≠ 0)
    (hq : getM m W q ≠ 0) : getM (setM m W c v) W q ≠ 0 := by
  obtain ⟨hr, hnz⟩ := getM_ne_zero hq
  rw [getM_of_inR hr]
  unfold setM
  split
  · exact hnz
  · rw [getD_set]; split
    · exact hv
    · exact hnz


/-- A (padded-coordinate) point that indexes a non-zero entry of the initial mask. -/
def Good (m0 : List Int) (W : Nat) (q : Pt) : Prop := InR W q ∧ m0.getD (idx W q) 0 ≠ 0

theorem good_of_nz {m0 m : List Int} {W : Nat} {q : Pt} (h : NZi m0 m) (hq : getM m W q ≠ 0) :
    Good m0 W q :=
  ⟨(getM_ne_zero hq).1, h _ (getM_ne_zero hq).2⟩

theorem markStep_NZi {m0 m : List Int} {W : Nat} {cur : Pt} (h : NZi m0 m)
    (hc : getM m W cur ≠ 0) : NZi m0 (markStep m W cur).1 := by
  unfold markStep
  split
  · exact setM_NZi _ h hc
  · split
    · exact setM_NZi _ h hc
    · exact h

theorem markStep_keeps {m : List Int} {W : Nat} {cur q : Pt} (hq : getM m W q ≠ 0) :
    getM (markStep m W cur).1 W q ≠ 0 := by
  unfold markStep
  split
  · exact setM_keeps (by decide) hq
  · split
    · exact setM_keeps (by decide) hq
    · exact hq

theorem findNonzeroNeighbor_nz {m : List Int} {W : Nat} {c s q : Pt} {cw sk : Bool}
    (h : findNonzeroNeighbor m W c s cw sk = some q) : getM m W q ≠ 0 := by
  unfold findNonzeroNeighbor at h
  have := List.find?_some h
  simpa using this

theorem follow_good (m0 : List Int) (W : Nat) (start startNb : Pt) :
    ∀ (fuel : Nat) (m : List Int) (cur prevNb : Pt) (border : List Pt) (m' : List Int)
      (border' : List Pt),
      NZi m0 m → getM m W cur ≠ 0 → (∀ q ∈ border, Good m0 W q) →
      follow W start startNb fuel m cur prevNb border = .ok (m', border') →
      NZi m0 m' ∧ ∀ q ∈ border', Good m0 W q := by
  intro fuel
  induction fuel with
  | zero => intro m cur prevNb border m' border' _ _ _ h; simp [follow] at h
  | succ fuel ih =>
    intro m cur prevNb border m' border' hnz hcur hb h
    simp only [follow] at h
    have hnz' := markStep_NZi hnz hcur
    have hb' : ∀ q ∈ (if (markStep m W cur).2 = true then cur :: border else border),
        Good m0 W q := by
      intro q hq
      split at hq
      · rcases List.mem_cons.mp hq with rfl | hq
        · exact good_of_nz hnz hcur
        · exact hb q hq
      · exact hb q hq
    split at h
    · simp only [Res.ok.injEq, Prod.mk.injEq] at h
      obtain ⟨rfl, rfl⟩ := h
      exact ⟨hnz', hb'⟩
    · split at h
      · cases h
      · rename_i nx hnx
        exact ih _ nx cur _ m' border' hnz' (markStep_keeps (findNonzeroNeighbor_nz hnx)) hb' h


/-- A contour (image coordinates) all of whose points are `Good` after re-adding the padding. -/
def GoodC (m0 : List Int) (W : Nat) (c : List Pt) : Prop :=
  ∀ r ∈ c, Good m0 W (r.1 + 1, r.2 + 1)

theorem goodC_map {m0 : List Int} {W : Nat} {border : List Pt}
    (h : ∀ q ∈ border, Good m0 W q) :
    GoodC m0 W (border.map fun q => (q.1 - 1, q.2 - 1)) := by
  intro r hr
  obtain ⟨q, hq, rfl⟩ := List.mem_map.mp hr
  have : ((q.1 - 1 + 1, q.2 - 1 + 1) : Pt) = q := by
    rw [Int.sub_add_cancel, Int.sub_add_cancel]
  simp only
  rw [this]; exact h q hq

theorem visit_good (m0 : List Int) (W fuel : Nat) (outerOnly : Bool) (s s' : ScanState) (p : Pt)
    (hnz : NZi m0 s.m) (hc : ∀ c ∈ s.contours, GoodC m0 W c)
    (h : visit W fuel outerOnly s p = .ok s') :
    NZi m0 s'.m ∧ ∀ c ∈ s'.contours, GoodC m0 W c := by
  unfold visit at h
  simp only at h
  split at h
  · cases h; exact ⟨hnz, hc⟩
  · rename_i hcur
    split at h
    · cases h; exact ⟨hnz, hc⟩
    · split at h
      · cases h
        refine ⟨setM_NZi _ hnz hcur, ?_⟩
        intro c hcm
        rcases List.mem_cons.mp hcm with rfl | hcm
        · intro r hr
          simp only [List.mem_singleton] at hr
          subst hr
          have : ((p.1 - 1 + 1, p.2 - 1 + 1) : Pt) = p := by
            rw [Int.sub_add_cancel, Int.sub_add_cancel]
          simp only
          rw [this]; exact good_of_nz hnz hcur
        · exact hc c hcm
      · split at h
        · rename_i m' border hf
          cases h
          obtain ⟨h1, h2⟩ := follow_good m0 W p _ fuel s.m p _ [] m' border hnz hcur
            (by intro q hq; cases hq) hf
          refine ⟨h1, ?_⟩
          intro c hcm
          rcases List.mem_cons.mp hcm with rfl | hcm
          · exact goodC_map (fun q hq => h2 q (List.mem_reverse.mp hq))
          · exact hc c hcm
        · cases h
        · cases h

theorem scanAll_good (m0 : List Int) (W fuel : Nat) (outerOnly : Bool) :
    ∀ (ps : List Pt) (s s' : ScanState), NZi m0 s.m → (∀ c ∈ s.contours, GoodC m0 W c) →
      scanAll W fuel outerOnly ps s = .ok s' →
      NZi m0 s'.m ∧ ∀ c ∈ s'.contours, GoodC m0 W c := by
  intro ps
  induction ps with
  | nil => intro s s' hnz hc h; simp only [scanAll, Res.ok.injEq] at h; subst h; exact ⟨hnz, hc⟩
  | cons p ps ih =>
    intro s s' hnz hc h
    simp only [scanAll] at h
    split at h
    · rename_i s1 hv
      have := visit_good m0 W fuel outerOnly _ s1 p (by split <;> exact hnz)
        (by split <;> exact hc) hv
      exact ih s1 s' this.1 this.2 h
    · cases h
    · cases h


theorem getD_map_range (N i : Nat) (f : Nat → Int)
    (h : ((List.range N).map f).getD i 0 ≠ 0) : i < N ∧ f i ≠ 0 := by
  by_cases hi : i < N
  · have : ((List.range N).map f).getD i 0 = f i := by
      rw [List.getD_eq_getElem?_getD, List.getElem?_map, List.getElem?_range hi]; rfl
    rw [this] at h; exact ⟨hi, h⟩
  · have : ((List.range N).map f).getD i 0 = 0 := by
      rw [List.getD_eq_getElem?_getD, List.getElem?_eq_none (by simp; omega)]; rfl
    exact absurd this h

theorem padMask_getD (rows cols : Nat) (mask : List Bool) (i : Nat)
    (h : (padMask rows cols mask).getD i 0 ≠ 0) :
    1 ≤ i / (cols + 2) ∧ i / (cols + 2) ≤ rows ∧ 1 ≤ i % (cols + 2) ∧ i % (cols + 2) ≤ cols ∧
    mask.getD ((i / (cols + 2) - 1) * cols + (i % (cols + 2) - 1)) false = true := by
  unfold padMask at h
  obtain ⟨_, h⟩ := getD_map_range _ _ _ h
  simp only at h
  split at h
  · rename_i hc
    refine ⟨hc.1, hc.2.1, hc.2.2.1, hc.2.2.2, ?_⟩
    split at h
    · assumption
    · exact absurd rfl h
  · exact absurd rfl h

theorem good_padMask (rows cols : Nat) (mask : List Bool) (r : Pt)
    (h : Good (padMask rows cols mask) (cols + 2) (r.1 + 1, r.2 + 1)) :
    maskAt rows cols mask r = true := by
  obtain ⟨hr, hnz⟩ := h
  simp only [InR] at hr
  simp only [idx] at hnz
  have hb : (r.2 + 1).toNat < cols + 2 := by omega
  have hdiv : ((r.1 + 1).toNat * (cols + 2) + (r.2 + 1).toNat) / (cols + 2) = (r.1 + 1).toNat := by
    rw [Nat.mul_comm, Nat.mul_add_div (by omega), Nat.div_eq_of_lt hb]; omega
  have hmod : ((r.1 + 1).toNat * (cols + 2) + (r.2 + 1).toNat) % (cols + 2) = (r.2 + 1).toNat := by
    rw [Nat.mul_comm, Nat.mul_add_mod, Nat.mod_eq_of_lt hb]
  obtain ⟨h1, h2, h3, h4, h5⟩ := padMask_getD rows cols mask _ hnz
  rw [hdiv] at h1 h2 h5
  rw [hmod] at h3 h4 h5
  have e1 : (r.1 + 1).toNat - 1 = r.1.toNat := by omega
  have e2 : (r.2 + 1).toNat - 1 = r.2.toNat := by omega
  rw [e1, e2] at h5
  simp only [maskAt, h5, Bool.and_true, decide_eq_true_eq]
  omega

/-! ### the first point of a border -/

theorem follow_extends (W : Nat) (start startNb : Pt) :
    ∀ (fuel : Nat) (m : List Int) (cur prevNb : Pt) (border : List Pt) (m' : List Int)
      (border' : List Pt),
      follow W start startNb fuel m cur prevNb border = .ok (m', border') →
      ∃ l, border' = l ++ border := by
  intro fuel
  induction fuel with
  | zero => intro m cur prevNb border m' border' h; simp [follow] at h
  | succ fuel ih =>
    intro m cur prevNb border m' border' h
    simp only [follow] at h
    split at h
    · simp only [Res.ok.injEq, Prod.mk.injEq] at h
      obtain ⟨_, rfl⟩ := h
      split
      · exact ⟨[cur], rfl⟩
      · exact ⟨[], rfl⟩
    · split at h
      · cases h
      · obtain ⟨l, hl⟩ := ih _ _ _ _ _ _ h
        split at hl
        · exact ⟨l ++ [cur], by rw [hl]; simp⟩
        · exact ⟨l, hl⟩

theorem follow_first (W : Nat) (start startNb : Pt) (fuel : Nat) (m : List Int) (prevNb : Pt)
    (m' : List Int) (border' : List Pt) (hpush : (markStep m W start).2 = true)
    (h : follow W start startNb fuel m start prevNb [] = .ok (m', border')) :
    border'.reverse.head? = some start := by
  cases fuel with
  | zero => simp [follow] at h
  | succ fuel =>
    simp only [follow, hpush, if_true] at h
    split at h
    · simp only [Res.ok.injEq, Prod.mk.injEq] at h
      obtain ⟨_, rfl⟩ := h
      rfl
    · split at h
      · cases h
      · obtain ⟨l, hl⟩ := follow_extends W start startNb _ _ _ _ _ _ _ h
        rw [hl]; simp

theorem markStep_pushes {m : List Int} {W : Nat} {p : Pt} (h : getM m W p = 1) :
    (markStep m W p).2 = true := by
  unfold markStep
  split
  · rfl
  · rfl

end RtenVerif.Contours
