import RtenVerif.Model.Contours
import Mathlib.Tactic.Linarith
import Mathlib.Tactic.LinearCombination
import Mathlib.Tactic.Ring

/-!
Lemmas for C36.T2: the error-term invariant of `BreshamPoints` —
`error = 2·minor·(i+1) − major − 2·major·k` after `i` major and `k` minor steps — which bounds
the minor steps by the minor extent, for the x-major, y-major, vertical and horizontal cases.
-/
namespace RtenVerif.Contours

/-- `p` is reached from `s` by `kx` steps in x and `ky` steps in y, within the totals. -/
def Pos (s : Pt) (xs ys dx0 dy0 : Int) (p : Pt) : Prop :=
  ∃ kx ky, p = (s.1 + ky * ys, s.2 + kx * xs) ∧ 0 ≤ kx ∧ kx ≤ dx0 ∧ 0 ≤ ky ∧ ky ≤ dy0

theorem step_xmajor (b : Bres) (hx : ¬ b.xStep = 0) (hy : ¬ b.yStep = 0) (hm : b.dx ≥ b.dy) :
    Bres.step b =
      { b with remaining := b.remaining - 1,
               cur := (if b.error ≥ 0 then b.cur.1 + b.yStep else b.cur.1, b.cur.2 + b.xStep),
               error := (if b.error ≥ 0 then b.error - b.dx else b.error) + b.dy } := by
  unfold Bres.step
  simp only [hx, hy, hm, if_true, if_false]
  split <;> rfl

/-- X-major diagonal stepping (`dx ≥ dy`, both steps non-zero). -/
theorem run_xmajor (s : Pt) (xs ys dx0 dy0 : Int) (hx : xs ≠ 0) (hy : ys ≠ 0)
    (hmaj : dx0 ≥ dy0) (hdx : 0 < dx0) (hdy : 0 ≤ dy0) :
    ∀ (n : Nat) (b : Bres) (i k : Int),
      b.xStep = xs → b.yStep = ys → b.dx = 2 * dx0 → b.dy = 2 * dy0 →
      b.cur = (s.1 + k * ys, s.2 + i * xs) →
      b.error = 2 * dy0 * (i + 1) - dx0 - 2 * dx0 * k →
      0 ≤ i → i + n ≤ dx0 → 0 ≤ k → k ≤ dy0 →
      ∀ p ∈ Bres.run n b, Pos s xs ys dx0 dy0 p := by
  intro n
  induction n with
  | zero => intro b i k _ _ _ _ _ _ _ _ _ _ p hp; simp [Bres.run] at hp
  | succ n ih =>
    intro b i k h1 h2 h3 h4 hc he hi hin hk hkd p hp
    simp only [Bres.run, List.mem_cons] at hp
    rcases hp with rfl | hp
    · exact ⟨i, k, hc, hi, by push_cast at hin; omega, hk, hkd⟩
    · push_cast at hin
      have hxs : ¬ b.xStep = 0 := by rw [h1]; exact hx
      have hys : ¬ b.yStep = 0 := by rw [h2]; exact hy
      have hm : b.dx ≥ b.dy := by rw [h3, h4]; omega
      by_cases herr : b.error ≥ 0
      · -- minor step: k < dy0
        have hklt : k < dy0 := by
          by_contra hcon
          have hk' : dy0 ≤ k := by omega
          have e1 : dy0 * (i + 1) ≤ dy0 * dx0 := mul_le_mul_of_nonneg_left (by omega) hdy
          have e2 : dx0 * dy0 ≤ dx0 * k := mul_le_mul_of_nonneg_left hk' (by omega)
          rw [he] at herr
          nlinarith
        have hst := step_xmajor b hxs hys hm
        refine ih (Bres.step b) (i + 1) (k + 1) (by rw [hst]; exact h1) (by rw [hst]; exact h2)
          (by rw [hst]; exact h3) (by rw [hst]; exact h4) ?_ ?_ (by omega) (by omega) (by omega)
          (by omega) p hp
        · rw [hst]
          show (if b.error ≥ 0 then b.cur.1 + b.yStep else b.cur.1, b.cur.2 + b.xStep) = _
          rw [if_pos herr, hc, h1, h2]; ext <;> simp <;> ring
        · rw [hst]
          show (if b.error ≥ 0 then b.error - b.dx else b.error) + b.dy = _
          rw [if_pos herr, he, h3, h4]; ring
      · have hst := step_xmajor b hxs hys hm
        refine ih (Bres.step b) (i + 1) k (by rw [hst]; exact h1) (by rw [hst]; exact h2)
          (by rw [hst]; exact h3) (by rw [hst]; exact h4) ?_ ?_ (by omega) (by omega) hk hkd p hp
        · rw [hst]
          show (if b.error ≥ 0 then b.cur.1 + b.yStep else b.cur.1, b.cur.2 + b.xStep) = _
          rw [if_neg herr, hc, h1]; ext <;> simp <;> ring
        · rw [hst]
          show (if b.error ≥ 0 then b.error - b.dx else b.error) + b.dy = _
          rw [if_neg herr, he, h4]; ring

theorem step_ymajor (b : Bres) (hx : ¬ b.xStep = 0) (hy : ¬ b.yStep = 0) (hm : ¬ b.dx ≥ b.dy) :
    Bres.step b =
      { b with remaining := b.remaining - 1,
               cur := (b.cur.1 + b.yStep, if b.error ≥ 0 then b.cur.2 + b.xStep else b.cur.2),
               error := (if b.error ≥ 0 then b.error - b.dy else b.error) + b.dx } := by
  unfold Bres.step
  simp only [hx, hy, hm, if_true, if_false]
  split <;> rfl

/-- Y-major diagonal stepping (`dy > dx`, both steps non-zero). -/
theorem run_ymajor (s : Pt) (xs ys dx0 dy0 : Int) (hx : xs ≠ 0) (hy : ys ≠ 0)
    (hmaj : ¬ dx0 ≥ dy0) (hdx : 0 ≤ dx0) :
    ∀ (n : Nat) (b : Bres) (i k : Int),
      b.xStep = xs → b.yStep = ys → b.dx = 2 * dx0 → b.dy = 2 * dy0 →
      b.cur = (s.1 + i * ys, s.2 + k * xs) →
      b.error = 2 * dx0 * (i + 1) - dy0 - 2 * dy0 * k →
      0 ≤ i → i + n ≤ dy0 → 0 ≤ k → k ≤ dx0 →
      ∀ p ∈ Bres.run n b, Pos s xs ys dx0 dy0 p := by
  intro n
  induction n with
  | zero => intro b i k _ _ _ _ _ _ _ _ _ _ p hp; simp [Bres.run] at hp
  | succ n ih =>
    intro b i k h1 h2 h3 h4 hc he hi hin hk hkd p hp
    simp only [Bres.run, List.mem_cons] at hp
    rcases hp with rfl | hp
    · exact ⟨k, i, hc, hk, hkd, hi, by push_cast at hin; omega⟩
    · push_cast at hin
      have hxs : ¬ b.xStep = 0 := by rw [h1]; exact hx
      have hys : ¬ b.yStep = 0 := by rw [h2]; exact hy
      have hm : ¬ b.dx ≥ b.dy := by rw [h3, h4]; omega
      have hst := step_ymajor b hxs hys hm
      by_cases herr : b.error ≥ 0
      · have hklt : k < dx0 := by
          by_contra hcon
          have hk' : dx0 ≤ k := by omega
          have e1 : dx0 * (i + 1) ≤ dx0 * dy0 := mul_le_mul_of_nonneg_left (by omega) hdx
          have e2 : dy0 * dx0 ≤ dy0 * k := mul_le_mul_of_nonneg_left hk' (by omega)
          rw [he] at herr
          nlinarith
        refine ih (Bres.step b) (i + 1) (k + 1) (by rw [hst]; exact h1) (by rw [hst]; exact h2)
          (by rw [hst]; exact h3) (by rw [hst]; exact h4) ?_ ?_ (by omega) (by omega) (by omega)
          (by omega) p hp
        · rw [hst]
          show (b.cur.1 + b.yStep, if b.error ≥ 0 then b.cur.2 + b.xStep else b.cur.2) = _
          rw [if_pos herr, hc, h1, h2]; ext <;> simp <;> ring
        · rw [hst]
          show (if b.error ≥ 0 then b.error - b.dy else b.error) + b.dx = _
          rw [if_pos herr, he, h3, h4]; ring
      · refine ih (Bres.step b) (i + 1) k (by rw [hst]; exact h1) (by rw [hst]; exact h2)
          (by rw [hst]; exact h3) (by rw [hst]; exact h4) ?_ ?_ (by omega) (by omega) hk hkd p hp
        · rw [hst]
          show (b.cur.1 + b.yStep, if b.error ≥ 0 then b.cur.2 + b.xStep else b.cur.2) = _
          rw [if_neg herr, hc, h2]; ext <;> simp <;> ring
        · rw [hst]
          show (if b.error ≥ 0 then b.error - b.dy else b.error) + b.dx = _
          rw [if_neg herr, he, h3]; ring

/-- Vertical line (`x_step = 0`). -/
theorem run_vertical (s : Pt) (ys dx0 dy0 : Int) (hdx : 0 ≤ dx0) :
    ∀ (n : Nat) (b : Bres) (i : Int),
      b.xStep = 0 → b.yStep = ys → b.cur = (s.1 + i * ys, s.2) → 0 ≤ i → i + n ≤ dy0 →
      ∀ p ∈ Bres.run n b, Pos s 0 ys dx0 dy0 p := by
  intro n
  induction n with
  | zero => intro b i _ _ _ _ _ p hp; simp [Bres.run] at hp
  | succ n ih =>
    intro b i h1 h2 hc hi hin p hp
    simp only [Bres.run, List.mem_cons] at hp
    push_cast at hin
    rcases hp with rfl | hp
    · exact ⟨0, i, by rw [hc]; simp, le_refl _, hdx, hi, by omega⟩
    · have hst : Bres.step b =
          { b with remaining := b.remaining - 1, cur := (b.cur.1 + b.yStep, b.cur.2) } := by
        unfold Bres.step; simp only [h1, if_true]
      refine ih (Bres.step b) (i + 1) (by rw [hst]; exact h1) (by rw [hst]; exact h2) ?_
        (by omega) (by omega) p hp
      rw [hst]
      show (b.cur.1 + b.yStep, b.cur.2) = _
      rw [hc, h2]; ext <;> simp; ring

/-- Horizontal line (`y_step = 0`, `x_step ≠ 0`). -/
theorem run_horizontal (s : Pt) (xs dx0 dy0 : Int) (hx : xs ≠ 0) (hdy : 0 ≤ dy0) :
    ∀ (n : Nat) (b : Bres) (i : Int),
      b.xStep = xs → b.yStep = 0 → b.cur = (s.1, s.2 + i * xs) → 0 ≤ i → i + n ≤ dx0 →
      ∀ p ∈ Bres.run n b, Pos s xs 0 dx0 dy0 p := by
  intro n
  induction n with
  | zero => intro b i _ _ _ _ _ p hp; simp [Bres.run] at hp
  | succ n ih =>
    intro b i h1 h2 hc hi hin p hp
    simp only [Bres.run, List.mem_cons] at hp
    push_cast at hin
    rcases hp with rfl | hp
    · exact ⟨i, 0, by rw [hc]; simp, hi, by omega, le_refl _, hdy⟩
    · have hxs : ¬ b.xStep = 0 := by rw [h1]; exact hx
      have hst : Bres.step b =
          { b with remaining := b.remaining - 1, cur := (b.cur.1, b.cur.2 + b.xStep) } := by
        unfold Bres.step; simp only [hxs, h2, if_true, if_false]
      refine ih (Bres.step b) (i + 1) (by rw [hst]; exact h1) (by rw [hst]; exact h2) ?_
        (by omega) (by omega) p hp
      rw [hst]
      show (b.cur.1, b.cur.2 + b.xStep) = _
      rw [hc, h1]; ext <;> simp; ring

end RtenVerif.Contours
