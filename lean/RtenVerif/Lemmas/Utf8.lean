import RtenVerif.Model.Utf8

/-! Lemmas about `RtenVerif.Model.Utf8`: encodings of scalar values are well formed. -/
namespace RtenVerif.Utf8

theorem char_isScalar (c : Char) : isScalar c.toNat = true := by
  have h := c.valid
  simp only [isScalar, Bool.or_eq_true, decide_eq_true_eq, Bool.and_eq_true]
  rcases h with h | h
  · left; exact h
  · right; exact ⟨by have := h.1; show 0xE000 ≤ c.val.toNat; omega, h.2⟩

/-- The encoding of a scalar value is accepted by the validator, which then continues. -/
theorem valid_encCp_append (c : Nat) (hc : isScalar c = true) (rest : List Nat) :
    valid (encCp c ++ rest) = valid rest := by
  simp only [isScalar, Bool.or_eq_true, decide_eq_true_eq, Bool.and_eq_true] at hc
  unfold encCp
  by_cases h1 : c < 0x80
  · simp only [h1, if_true, List.singleton_append]
    conv => lhs; unfold valid
    simp [h1]
  · by_cases h2 : c < 0x800
    · have a1 : ¬ (0xC0 + c / 64 < 0x80) := by omega
      have a2 : 0xC2 ≤ 0xC0 + c / 64 ∧ 0xC0 + c / 64 ≤ 0xDF := by omega
      have a3 : isCont (0x80 + c % 64) = true := by simp [isCont]; omega
      simp [h1, h2, valid, a1, a2, a3]
    · by_cases h3 : c < 0x10000
      · have a1 : ¬ (0xE0 + c / 4096 < 0x80) := by omega
        have a2 : ¬ (0xC2 ≤ 0xE0 + c / 4096 ∧ 0xE0 + c / 4096 ≤ 0xDF) := by omega
        have a3 : 0xE0 ≤ 0xE0 + c / 4096 ∧ 0xE0 + c / 4096 ≤ 0xEF := by omega
        have a4 : isCont (0x80 + c % 64) = true := by simp [isCont]; omega
        have a5 : (if 0xE0 + c / 4096 = 0xE0 then 0xA0 else 0x80) ≤ 0x80 + c / 64 % 64 := by
          split <;> omega
        have a6 : 0x80 + c / 64 % 64 ≤ (if 0xE0 + c / 4096 = 0xED then 0x9F else 0xBF) := by
          split <;> omega
        simp [h1, h2, h3, valid, a1, a2, a3, a4, a6]
        intro _; split <;> omega
      · have a1 : ¬ (0xF0 + c / 262144 < 0x80) := by omega
        have a2 : ¬ (0xC2 ≤ 0xF0 + c / 262144 ∧ 0xF0 + c / 262144 ≤ 0xDF) := by omega
        have a3 : ¬ (0xE0 ≤ 0xF0 + c / 262144 ∧ 0xF0 + c / 262144 ≤ 0xEF) := by omega
        have a4 : 0xF0 ≤ 0xF0 + c / 262144 ∧ 0xF0 + c / 262144 ≤ 0xF4 := by omega
        have a5 : isCont (0x80 + c % 64) = true := by simp [isCont]; omega
        have a6 : isCont (0x80 + c / 64 % 64) = true := by simp [isCont]; omega
        have a7 : (if 0xF0 + c / 262144 = 0xF0 then 0x90 else 0x80) ≤ 0x80 + c / 4096 % 64 := by
          split <;> omega
        have a8 : 0x80 + c / 4096 % 64 ≤ (if 0xF0 + c / 262144 = 0xF4 then 0x8F else 0xBF) := by
          split <;> omega
        simp [h1, h2, h3, valid, a1, a2, a3, a4, a5, a6, a8]
        intro _; split <;> omega

/-- **Every text (list of scalar values) encodes to well-formed UTF-8.** -/
theorem valid_encode : ∀ (cs : List Nat), (∀ c ∈ cs, isScalar c = true) → valid (encode cs) = true
  | [], _ => rfl
  | c :: cs, h => by
    rw [encode, valid_encCp_append c (h c (by simp))]
    exact valid_encode cs (fun x hx => h x (List.mem_cons_of_mem _ hx))

theorem encode_append (a b : List Nat) : encode (a ++ b) = encode a ++ encode b := by
  induction a with
  | nil => rfl
  | cons c cs ih => simp [encode, ih]

/-- All bytes of an encoding are `< 256`. -/
theorem encCp_lt (c : Nat) (hc : isScalar c = true) : ∀ b ∈ encCp c, b < 256 := by
  simp only [isScalar, Bool.or_eq_true, decide_eq_true_eq, Bool.and_eq_true] at hc
  unfold encCp
  intro b hb
  split at hb
  · simp at hb; omega
  · split at hb
    · simp at hb; omega
    · split at hb
      · simp at hb; omega
      · simp at hb; omega

theorem encode_lt : ∀ (cs : List Nat), (∀ c ∈ cs, isScalar c = true) → ∀ b ∈ encode cs, b < 256
  | [], _, b, hb => by simp [encode] at hb
  | c :: cs, h, b, hb => by
    rw [encode, List.mem_append] at hb
    rcases hb with hb | hb
    · exact encCp_lt c (h c (by simp)) b hb
    · exact encode_lt cs (fun x hx => h x (List.mem_cons_of_mem _ hx)) b hb

end RtenVerif.Utf8
