import RtenVerif.Lemmas.Sym

/-! Evaluation of operand lists: flattening, permutation, re-association (C11). -/
set_option linter.unusedSimpArgs false
namespace RtenVerif.Sym

/-- The associative-commutative operators that `canonicalize` re-associates. -/
def Op.ac : Op → Bool
  | .add | .mul | .max | .min | .broadcast => true
  | _ => false

theorem opF_comm {o : Op} (h : o.ac = true) (x y : Int) : opF o x y = opF o y x := by
  cases o <;> simp [Op.ac] at h <;> simp [opF, bcastI] <;> first | omega | exact Int.mul_comm x y

theorem opF_assoc {o : Op} (h : o.ac = true) (x y z : Int) :
    opF o (opF o x y) z = opF o x (opF o y z) := by
  cases o <;> simp [Op.ac] at h <;> simp only [opF, bcastI]
  · omega
  · exact Int.mul_assoc x y z
  all_goals (split <;> split <;> (try split) <;> (try split) <;> omega)

theorem ev_bin_ac {σ : Env} {o : Op} (h : o.ac = true) {a b : SymExpr} {v : Int} :
    ev σ (.bin o a b) = .ok v ↔ ∃ x y, ev σ a = .ok x ∧ ev σ b = .ok y ∧ v = opF o x y := by
  rw [ev_bin_ok']
  have : ¬ (o = .div ∨ o = .divCeil) := by cases o <;> simp [Op.ac] at h <;> simp
  constructor
  · rintro ⟨x, y, hx, hy, -, hv⟩; exact ⟨x, y, hx, hy, hv⟩
  · rintro ⟨x, y, hx, hy, hv⟩; exact ⟨x, y, hx, hy, fun h' => absurd h' this, hv⟩

/-- All terms evaluate; the list of their values. -/
def evL (σ : Env) : List SymExpr → Option (List Int)
  | [] => some []
  | t :: ts =>
    match ev σ t, evL σ ts with
    | .ok v, some vs => some (v :: vs)
    | _, _ => none

theorem evL_cons {σ : Env} {t : SymExpr} {ts : List SymExpr} {ws : List Int} :
    evL σ (t :: ts) = some ws ↔ ∃ v vs, ev σ t = .ok v ∧ evL σ ts = some vs ∧ ws = v :: vs := by
  simp only [evL]
  cases h1 : ev σ t with
  | error e => simp
  | ok v =>
    cases h2 : evL σ ts with
    | none => simp
    | some vs => simp; constructor <;> (intro h; exact h.symm)

theorem evL_nil {σ : Env} {ws : List Int} : evL σ [] = some ws ↔ ws = [] := by
  simp [evL, eq_comm]

theorem evL_append {σ : Env} {as bs : List SymExpr} {xs ys : List Int}
    (ha : evL σ as = some xs) (hb : evL σ bs = some ys) : evL σ (as ++ bs) = some (xs ++ ys) := by
  induction as generalizing xs with
  | nil => rw [evL_nil] at ha; subst ha; simpa using hb
  | cons t ts ih =>
    rw [evL_cons] at ha
    obtain ⟨v, vs, hv, hvs, rfl⟩ := ha
    simp only [List.cons_append]
    rw [evL_cons]
    exact ⟨v, vs ++ ys, hv, ih hvs, rfl⟩

theorem evL_perm {σ : Env} {as bs : List SymExpr} (hp : as.Perm bs) :
    ∀ {xs : List Int}, evL σ as = some xs → ∃ ys, evL σ bs = some ys ∧ xs.Perm ys := by
  induction hp with
  | nil => intro xs h; exact ⟨xs, h, .refl _⟩
  | cons t _ ih =>
    intro xs h
    rw [evL_cons] at h
    obtain ⟨v, vs, hv, hvs, rfl⟩ := h
    obtain ⟨ys, hys, hp⟩ := ih hvs
    exact ⟨v :: ys, evL_cons.mpr ⟨v, ys, hv, hys, rfl⟩, hp.cons v⟩
  | swap a b l =>
    intro xs h
    rw [evL_cons] at h
    obtain ⟨v, vs, hv, hvs, rfl⟩ := h
    rw [evL_cons] at hvs
    obtain ⟨w, ws, hw, hws, rfl⟩ := hvs
    exact ⟨w :: v :: ws,
      evL_cons.mpr ⟨w, v :: ws, hw, evL_cons.mpr ⟨v, ws, hv, hws, rfl⟩, rfl⟩, .swap _ _ _⟩
  | trans _ _ ih1 ih2 =>
    intro xs h
    obtain ⟨ys, hys, hp1⟩ := ih1 h
    obtain ⟨zs, hzs, hp2⟩ := ih2 hys
    exact ⟨zs, hzs, hp1.trans hp2⟩

/-- Aggregate of a non-empty value list (`none` for the empty list). -/
def aggO (o : Op) : List Int → Option Int
  | [] => none
  | v :: vs =>
    match aggO o vs with
    | none => some v
    | some w => some (opF o v w)

/-- `none` is the unit. -/
def comb (o : Op) : Option Int → Option Int → Option Int
  | none, r => r
  | l, none => l
  | some x, some y => some (opF o x y)

theorem aggO_cons (o : Op) (v : Int) (vs : List Int) :
    aggO o (v :: vs) = comb o (some v) (aggO o vs) := by
  simp only [aggO]; cases aggO o vs <;> rfl

theorem comb_assoc {o : Op} (h : o.ac = true) (a b c : Option Int) :
    comb o (comb o a b) c = comb o a (comb o b c) := by
  cases a <;> cases b <;> cases c <;> simp [comb, opF_assoc h]

theorem comb_comm {o : Op} (h : o.ac = true) (a b : Option Int) : comb o a b = comb o b a := by
  cases a <;> cases b <;> simp [comb, opF_comm h]

theorem aggO_append {o : Op} (h : o.ac = true) (xs ys : List Int) :
    aggO o (xs ++ ys) = comb o (aggO o xs) (aggO o ys) := by
  induction xs with
  | nil => simp [aggO, comb]
  | cons v vs ih =>
    simp only [List.cons_append, aggO_cons, ih, comb_assoc h]

theorem aggO_perm {o : Op} (h : o.ac = true) {xs ys : List Int} (hp : xs.Perm ys) :
    aggO o xs = aggO o ys := by
  induction hp with
  | nil => rfl
  | cons v _ ih => simp only [aggO_cons, ih]
  | swap a b l =>
    simp only [aggO_cons, ← comb_assoc h, comb_comm h (some b) (some a)]
  | trans _ _ ih1 ih2 => exact ih1.trans ih2

/-- Flattening a nest of one AC operator keeps every operand and the aggregate. -/
theorem flatten_ev {σ : Env} {o : Op} (h : o.ac = true) :
    ∀ {e : SymExpr} {v : Int}, ev σ e = .ok v →
      ∃ vs, evL σ (flatten o e) = some vs ∧ aggO o vs = some v := by
  intro e
  induction e with
  | value x => intro v hv; exact ⟨[v], by simp [flatten, evL, hv], rfl⟩
  | var n p => intro v hv; exact ⟨[v], by simp [flatten, evL, hv], rfl⟩
  | neg a _ => intro v hv; exact ⟨[v], by simp [flatten, evL, hv], rfl⟩
  | bin o' a b iha ihb =>
    intro v hv
    unfold flatten
    split
    · rename_i ho; subst ho
      rw [ev_bin_ac h] at hv
      obtain ⟨x, y, hx, hy, rfl⟩ := hv
      obtain ⟨xs, hxs, hax⟩ := iha hx
      obtain ⟨ys, hys, hay⟩ := ihb hy
      exact ⟨xs ++ ys, evL_append hxs hys, by rw [aggO_append h, hax, hay]; rfl⟩
    · exact ⟨[v], by simp [evL, hv], rfl⟩

theorem foldl_ev {σ : Env} {o : Op} (h : o.ac = true) :
    ∀ {ts : List SymExpr} {t : SymExpr} {x : Int} {vs : List Int}, ev σ t = .ok x →
      evL σ ts = some vs →
      ev σ (ts.foldl (fun acc u => .bin o acc u) t) = .ok (vs.foldl (opF o) x) := by
  intro ts
  induction ts with
  | nil => intro t x vs hx hvs; rw [evL_nil] at hvs; subst hvs; simpa using hx
  | cons u us ih =>
    intro t x vs hx hvs
    rw [evL_cons] at hvs
    obtain ⟨w, ws, hw, hws, rfl⟩ := hvs
    simp only [List.foldl_cons]
    exact ih ((ev_bin_ac h).mpr ⟨x, w, hx, hw, rfl⟩) hws

theorem foldl_aggO {o : Op} (h : o.ac = true) (x : Int) (vs : List Int) :
    some (vs.foldl (opF o) x) = comb o (some x) (aggO o vs) := by
  induction vs generalizing x with
  | nil => simp [aggO, comb]
  | cons w ws ih =>
    simp only [List.foldl_cons, aggO_cons]
    rw [ih, ← comb_assoc h]; rfl

/-- `reduce` of a non-empty operand list evaluates to the aggregate. -/
theorem reduce_ev {σ : Env} {o : Op} (h : o.ac = true) {ts : List SymExpr} {vs : List Int}
    {v : Int} (d : SymExpr) (hvs : evL σ ts = some vs) (hv : aggO o vs = some v) :
    ev σ (reduceOp o d ts) = .ok v := by
  cases ts with
  | nil => rw [evL_nil] at hvs; subst hvs; simp [aggO] at hv
  | cons t ts =>
    rw [evL_cons] at hvs
    obtain ⟨x, xs, hx, hxs, rfl⟩ := hvs
    simp only [reduceOp]
    rw [foldl_ev h hx hxs]
    have := foldl_aggO h x xs
    rw [← aggO_cons, hv] at this
    simpa using this

theorem insertS_perm (x : SymExpr) (ys : List SymExpr) : (insertS x ys).Perm (x :: ys) := by
  induction ys with
  | nil => exact .refl _
  | cons y ys ih =>
    simp only [insertS]
    split
    · exact (ih.cons y).trans (.swap _ _ _)
    · exact .refl _

theorem isort_perm (l : List SymExpr) : (isort l).Perm l := by
  induction l with
  | nil => exact .refl _
  | cons x xs ih => exact (insertS_perm x (isort xs)).trans (ih.cons x)

end RtenVerif.Sym
