import RtenVerif.Lemmas.GemmSem

/-! C16: the `gemv` fast path (column blocks × k blocks with effective beta, bias at the end of
each column block) and the branch selection of `gemm_impl`. -/
namespace RtenVerif.Gemm

/-- Element `c` of the (single) output row lies in the column block of the event. -/
def GemvEv.covers (ev : GemvEv) (c : Nat) : Bool :=
  match ev with
  | .kernel cs ce _ _ _ => decide (cs ≤ c) && decide (c < ce)
  | .bias cs ce => decide (cs ≤ c) && decide (c < ce)

theorem mem_gemvKCalls {cs ce : Nat} {ev : GemvEv} :
    ∀ (l : List (Nat × Nat)) (f : Bool), ev ∈ gemvKCalls cs ce f l →
      ∃ ds de bu, ev = GemvEv.kernel cs ce ds de bu := by
  intro l
  induction l with
  | nil => intro f h; simp [gemvKCalls] at h
  | cons d t ih =>
    intro f h
    simp only [gemvKCalls, List.mem_cons] at h
    rcases h with h | h
    · exact ⟨_, _, _, h⟩
    · exact ih _ h

/-- `x < n` lies in block `i` of the index-based block loop iff `x / bs = i`. -/
theorem block_contains_iff {n bs x i : Nat} (hbs : 0 < bs) (hx : x < n) :
    ((blockRange n bs i).1 ≤ x ∧ x < (blockRange n bs i).2) ↔ x / bs = i := by
  simp only [blockRange]
  constructor
  · rintro ⟨h1, h2⟩
    apply Nat.div_eq_of_lt_le h1
    rw [Nat.succ_mul]
    have := Nat.min_le_left (i * bs + bs) n
    omega
  · intro h
    subst h
    have a1 := Nat.div_mul_le_self x bs
    have a2 := Nat.lt_div_mul_add (a := x) hbs
    refine ⟨a1, ?_⟩
    rcases Nat.le_total (x / bs * bs + bs) n with h | h
    · rw [Nat.min_eq_left h]; exact a2
    · rw [Nat.min_eq_right h]; exact hx

/-- Events of one column block. -/
def gemvBlock (K kbs : Nat) (cr : Nat × Nat) : List GemvEv :=
  gemvKCalls cr.1 cr.2 true (rangeChunks K 0 K kbs) ++ [GemvEv.bias cr.1 cr.2]

theorem gemvBlock_covers {K kbs : Nat} {cr : Nat × Nat} {ev : GemvEv} (h : ev ∈ gemvBlock K kbs cr)
    (c : Nat) : ev.covers c = (decide (cr.1 ≤ c) && decide (c < cr.2)) := by
  unfold gemvBlock at h
  rw [List.mem_append] at h
  rcases h with h | h
  · obtain ⟨ds, de, bu, rfl⟩ := mem_gemvKCalls _ _ h
    rfl
  · simp only [List.mem_singleton] at h
    subst h; rfl

theorem gemvSchedule_eq (k : BlockConsts) (N K threads : Nat) (rs1 : Bool) :
    gemvSchedule k N K threads rs1 =
      (List.range (divCeil N (max (divCeil N threads) k.gemvColMin))).flatMap fun ci =>
        gemvBlock K (if rs1 then k.gemvKUnitRow else k.gemvKOther)
          (blockRange N (max (divCeil N threads) k.gemvColMin) ci) := rfl

/-- The events touching output column `c < N`: exactly those of its column block. -/
theorem gemvSchedule_filter (k : BlockConsts) (N K threads : Nat) (rs1 : Bool)
    (hcm : 0 < k.gemvColMin) {c : Nat} (hc : c < N) :
    (gemvSchedule k N K threads rs1).filter (fun ev => ev.covers c) =
      gemvBlock K (if rs1 then k.gemvKUnitRow else k.gemvKOther)
        (blockRange N (max (divCeil N threads) k.gemvColMin)
          (c / max (divCeil N threads) k.gemvColMin)) := by
  rw [gemvSchedule_eq]
  have hbs : 0 < max (divCeil N threads) k.gemvColMin := by omega
  rw [filter_flatMap_unique _ _ _ (c / max (divCeil N threads) k.gemvColMin) List.nodup_range
    (List.mem_range.mpr (div_lt_divCeil hbs hc))]
  · rw [List.filter_eq_self]
    intro ev hev
    rw [gemvBlock_covers hev]
    have := (block_contains_iff (i := c / max (divCeil N threads) k.gemvColMin) hbs hc).mpr rfl
    simp [this.1, this.2]
  · intro i _ hne
    rw [List.filter_eq_nil_iff]
    intro ev hev
    rw [gemvBlock_covers hev]
    intro hcv
    simp only [Bool.and_eq_true, decide_eq_true_eq] at hcv
    exact hne ((block_contains_iff hbs hc).mp hcv).symm

/-- No event touches a column `c ≥ N`. -/
theorem gemvSchedule_filter_out (k : BlockConsts) (N K threads : Nat) (rs1 : Bool)
    {c : Nat} (hc : ¬ c < N) :
    (gemvSchedule k N K threads rs1).filter (fun ev => ev.covers c) = [] := by
  rw [gemvSchedule_eq, List.filter_eq_nil_iff]
  intro ev hev
  rw [List.mem_flatMap] at hev
  obtain ⟨i, _, hev⟩ := hev
  rw [gemvBlock_covers hev]
  intro hcv
  simp only [blockRange, Bool.and_eq_true, decide_eq_true_eq] at hcv
  exact hc (Nat.lt_of_lt_of_le (of_decide_eq_true hcv.2) (Nat.min_le_right _ _))

section
variable {α : Type} [CommSemiring α] [DecidableEq α]

/-- What one `gemv` event does to a covered element of the output row. -/
def gemvElemStep (alpha beta : α) (bias : Bias α) (A B : Nat → Nat → α) (c : Nat)
    (v : Option α) : GemvEv → Option α
  | .kernel _ _ ds de bu =>
    kernelElem alpha (dot A B 0 c ds (de - ds)) (if bu then beta else 1) v
  | .bias _ _ => addBias bias 0 c v

theorem runGemv_elem (alpha beta : α) (bias : Bias α) (A B : Nat → Nat → α) (c : Nat)
    (evs : List GemvEv) (C : OutMat α) :
    runGemv alpha beta bias A B C evs 0 c =
      (evs.filter (fun ev => ev.covers c)).foldl (gemvElemStep alpha beta bias A B c) (C 0 c) := by
  unfold runGemv
  induction evs generalizing C with
  | nil => rfl
  | cons ev t ih =>
    rw [List.foldl_cons, ih]
    cases ev with
    | kernel cs ce ds de bu =>
      by_cases h1 : cs ≤ c <;> by_cases h2 : c < ce <;>
        simp [List.filter_cons, GemvEv.covers, applyGemv, gemvElemStep, h1, h2]
    | bias cs ce =>
      by_cases h1 : cs ≤ c <;> by_cases h2 : c < ce <;>
        simp [List.filter_cons, GemvEv.covers, applyGemv, gemvElemStep, h1, h2]

theorem runGemv_other_rows (alpha beta : α) (bias : Bias α) (A B : Nat → Nat → α) {r : Nat}
    (hr : r ≠ 0) (c : Nat) (evs : List GemvEv) (C : OutMat α) :
    runGemv alpha beta bias A B C evs r c = C r c := by
  unfold runGemv
  induction evs generalizing C with
  | nil => rfl
  | cons ev t ih =>
    rw [List.foldl_cons, ih]
    cases ev <;> simp [applyGemv, hr]

/-- Accumulating a further depth range with effective beta one. -/
theorem kernelElem_accum (h1 : (1 : α) ≠ 0) (alpha beta : α) (A B : Nat → Nat → α)
    (r c s e : Nat) (hse : s ≤ e) (v0 : Option α) :
    kernelElem alpha (dot A B r c s (e - s)) 1 (kernelElem alpha (dot A B r c 0 s) beta v0) =
      kernelElem alpha (dot A B r c 0 e) beta v0 := by
  simp only [kernelElem, h1, if_false]
  rw [dot_split A B r c s e hse]
  by_cases hb : beta = 0
  · simp only [hb, if_true]; simp; ring
  · simp only [hb, if_false]
    cases v0 with
    | none => simp
    | some x => simp; ring

theorem gemvK_fold_tail (h1 : (1 : α) ≠ 0) (alpha beta : α) (bias : Bias α)
    (A B : Nat → Nat → α) (cs ce c kbs : Nat) (hk : 0 < kbs) (v0 : Option α) :
    ∀ (fuel s e : Nat), 0 < s → s ≤ e → e - s ≤ fuel →
      (gemvKCalls cs ce false (rangeChunks fuel s e kbs)).foldl
          (gemvElemStep alpha beta bias A B c) (kernelElem alpha (dot A B 0 c 0 s) beta v0) =
        kernelElem alpha (dot A B 0 c 0 e) beta v0 := by
  intro fuel
  induction fuel with
  | zero =>
    intro s e _ hse hf
    have : s = e := by omega
    subst this
    simp [rangeChunks, gemvKCalls]
  | succ f ih =>
    intro s e hs hse hf
    unfold rangeChunks
    by_cases hlt : s < e
    · simp only [hlt, if_true, gemvKCalls, List.foldl_cons, gemvElemStep, Bool.false_eq_true,
        if_false]
      have hs' : s + (min (s + kbs) e - s) = min (s + kbs) e := by omega
      rw [hs', kernelElem_accum h1 _ _ _ _ _ _ _ _ (by omega)]
      exact ih _ _ (by omega) (by omega) (by omega)
    · have : s = e := by omega
      subst this
      simp [hlt, gemvKCalls]

/-- One column block of `gemv`, observed at a covered column: all k blocks then the bias equal one
un-blocked kernel application over `[0, K)` followed by the bias. -/
theorem gemvBlock_fold (h1 : (1 : α) ≠ 0) (alpha beta : α) (bias : Bias α) (A B : Nat → Nat → α)
    (cr : Nat × Nat) (c K kbs : Nat) (hK : 0 < K) (hk : 0 < kbs) (v0 : Option α) :
    (gemvBlock K kbs cr).foldl (gemvElemStep alpha beta bias A B c) v0 =
      addBias bias 0 c (kernelElem alpha (dot A B 0 c 0 K) beta v0) := by
  unfold gemvBlock
  rw [List.foldl_append]
  obtain ⟨f, rfl⟩ : ∃ f, K = f + 1 := ⟨K - 1, by omega⟩
  unfold rangeChunks
  simp only [hK, if_true, gemvKCalls, List.foldl_cons, List.foldl_nil, gemvElemStep]
  have hs' : 0 + (min (0 + kbs) (f + 1) - 0) = min (0 + kbs) (f + 1) := by omega
  rw [hs', Nat.sub_zero]
  rw [gemvK_fold_tail h1 alpha beta bias A B cr.1 cr.2 c kbs hk v0 f _ _
    (by omega) (by omega) (by omega)]

end

end RtenVerif.Gemm
