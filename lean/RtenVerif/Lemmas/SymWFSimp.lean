import RtenVerif.Lemmas.SymWF

/-! `simplify_canonical` keeps `WF`; `WF` on the original expression implies `Guards`. -/
set_option linter.unusedSimpArgs false
namespace RtenVerif.Sym

section steps
variable {A : Arith} {σ : Env} {l r e' : SymExpr}

theorem stepNeg_wf (h : stepNeg A l = some e') (hl : WF σ l) : WF σ e' := by
  unfold stepNeg at h
  split at h
  · obtain ⟨w, -, rfl⟩ := mkVal_some h; exact wf_value σ _
  · simp at h; subst h; exact hl
  · simp at h; subst h; exact hl

theorem stepAdd_wf (h : stepAdd A l r = some e') (hl : WF σ l) (hr : WF σ r) : WF σ e' := by
  unfold stepAdd at h
  split at h
  · simp at h; subst h; exact hr
  split at h
  · simp at h; subst h; exact hl
  split at h
  · obtain ⟨w, -, rfl⟩ := mkVal_some h; exact wf_value σ _
  · split at h
    · simp at h; subst h; exact wf_value σ _
    · simp at h; subst h; exact ⟨hl, hr, by simp, by simp⟩
  · simp at h; subst h; exact ⟨hl, hr, by simp, by simp⟩

theorem stepSub_wf (h : stepSub A l r = some e') (hl : WF σ l) (hr : WF σ r) : WF σ e' := by
  unfold stepSub at h
  split at h
  · simp at h; subst h; exact hl
  split at h
  · obtain ⟨w, -, rfl⟩ := mkVal_some h; exact wf_value σ _
  · split at h
    · simp at h; subst h; exact wf_value σ _
    · simp at h; subst h; exact ⟨hl, hr, by simp, by simp⟩

theorem stepMul_wf (h : stepMul A l r = some e') (hl : WF σ l) (hr : WF σ r) : WF σ e' := by
  unfold stepMul at h
  split at h
  · simp at h; subst h; exact hr
  split at h
  · simp at h; subst h; exact hl
  split at h
  · obtain ⟨w, -, rfl⟩ := mkVal_some h; exact wf_value σ _
  · simp at h; subst h; exact ⟨hl, hr, by simp, by simp⟩

theorem stepMax_wf (h : stepMax l r = some e') (hl : WF σ l) (hr : WF σ r) : WF σ e' := by
  unfold stepMax at h
  split at h
  · simp at h; subst h; exact hl
  split at h
  · simp at h; subst h; exact wf_value σ _
  · simp at h; subst h; exact ⟨hl, hr, by simp, by simp⟩

theorem stepMin_wf (h : stepMin l r = some e') (hl : WF σ l) (hr : WF σ r) : WF σ e' := by
  unfold stepMin at h
  split at h
  · simp at h; subst h; exact hl
  split at h
  · simp at h; subst h; exact wf_value σ _
  · simp at h; subst h; exact ⟨hl, hr, by simp, by simp⟩

theorem stepBroadcast_wf (h : stepBroadcast l r = some e') (hl : WF σ l) (hr : WF σ r)
    (hdom : ∀ x y, ev σ l = .ok x → ev σ r = .ok y → (x = y ∨ x = 1 ∨ y = 1)) :
    WF σ e' := by
  unfold stepBroadcast at h
  split at h
  · (repeat' split at h) <;> (simp at h; subst h; exact wf_value σ _)
  · split at h
    · simp at h; subst h; exact hr
    · simp at h; subst h; exact wf_value σ _
  · split at h
    · simp at h; subst h; exact hl
    · simp at h; subst h; exact wf_value σ _
  · split at h
    · simp at h; subst h; exact hl
    · simp at h; subst h; exact ⟨hl, hr, by simp, fun _ => hdom⟩

theorem stepDiv_wf (h : stepDiv A l r = some e') (hl : WF σ l) (hr : WF σ r) : WF σ e' := by
  unfold stepDiv at h
  split at h
  · simp at h; subst h; exact hl
  split at h
  · split at h
    · obtain ⟨w, -, rfl⟩ := mkVal_some h; exact wf_value σ _
    · simp at h; subst h; exact ⟨hl, hr, by simp, by simp⟩
  · obtain ⟨hl', hc1, -, -⟩ := hl
    split at h
    · split at h
      · split at h
        · simp at h; subst h; exact ⟨hl', wf_value σ _, by simp, by simp⟩
        · simp at h; subst h
          exact ⟨⟨hl', wf_value σ _, by simp, by simp⟩, wf_value σ _, by simp, by simp⟩
      · simp at h; subst h
        exact ⟨hl', ⟨wf_value σ _, wf_value σ _, by simp, by simp⟩, by simp, by simp⟩
    · simp at h; subst h
      exact ⟨hl', ⟨hc1, hr, by simp, by simp⟩, by simp, by simp⟩
  · simp at h; subst h; exact ⟨hl, hr, by simp, by simp⟩

theorem stepDivCeil_wf {x y : Int} (h : stepDivCeil A l r = some e') (hl : WF σ l)
    (hr : WF σ r) (hx : ev σ l = .ok x) (hy : ev σ r = .ok y) (hpos : 0 < y) : WF σ e' := by
  have hdiv : ∀ y', ev σ r = .ok y' → 0 < y' := by
    intro y' hy'; rw [hy] at hy'; simp at hy'; omega
  unfold stepDivCeil at h
  split at h
  · simp at h; subst h; exact hl
  split at h
  · split at h
    · obtain ⟨w, -, rfl⟩ := mkVal_some h; exact wf_value σ _
    · split at h
      · simp at h; subst h; exact wf_value σ _
      · simp at h; subst h; exact ⟨hl, hr, fun _ => hdiv, by simp⟩
  · split at h
    · simp at h; subst h; exact wf_value σ _
    · split at h
      · rename_i l' c1 _ _
        obtain ⟨hl', hc1, hc1pos, -⟩ := hl
        rw [ev_bin_ok'] at hx
        obtain ⟨x1, z1, hx1, hz1, -, -⟩ := hx
        have hz1p : 0 < z1 := hc1pos rfl z1 hz1
        split at h
        · rename_i v1 v2 _ _ _
          rw [ev_value] at hz1 hy; subst hz1 hy
          split at h
          · split at h
            · rename_i w hw
              simp at h; subst h
              have := (chk_some hw).1; subst this
              refine ⟨hl', wf_value σ _, ?_, by simp⟩
              intro _ y' hy'; rw [ev_value] at hy'; subst hy'; exact Int.mul_pos hz1p hpos
            · simp at h; subst h
              refine ⟨⟨hl', wf_value σ _, ?_, by simp⟩, wf_value σ _, ?_, by simp⟩
              · intro _ y' hy'; rw [ev_value] at hy'; omega
              · intro _ y' hy'; rw [ev_value] at hy'; omega
          · simp at h; subst h
            refine ⟨hl', ⟨wf_value σ _, wf_value σ _, by simp, by simp⟩, ?_, by simp⟩
            intro _ y' hy'
            rw [ev_bin_ok'] at hy'
            obtain ⟨a, b, ha, hb, -, rfl⟩ := hy'
            rw [ev_value] at ha hb; subst ha hb
            exact Int.mul_pos hz1p hpos
        · simp at h; subst h
          refine ⟨hl', ⟨hc1, hr, by simp, by simp⟩, ?_, by simp⟩
          intro _ y' hy'
          rw [ev_bin_ok'] at hy'
          obtain ⟨a, b, ha, hb, -, rfl⟩ := hy'
          rw [hz1] at ha; rw [hy] at hb
          simp at ha hb; subst ha hb
          exact Int.mul_pos hz1p hpos
      · simp at h; subst h; exact ⟨hl, hr, fun _ => hdiv, by simp⟩

end steps

/-- `simplify_canonical` preserves the value and the side conditions, when the side
conditions hold of its input. -/
theorem simpC_full {A : Arith} (hA : Exact A) (σ : Env) :
    ∀ (e e' : SymExpr) (v : Int), WF σ e → simpC A e = some e' → ev σ e = .ok v →
      ev σ e' = .ok v ∧ WF σ e' := by
  intro e
  induction e with
  | value x => intro e' v hw h hv; simp [simpC] at h; subst h; exact ⟨hv, hw⟩
  | var n p => intro e' v hw h hv; simp [simpC] at h; subst h; exact ⟨hv, hw⟩
  | neg a ih =>
    intro e' v hw h hv
    simp only [simpC] at h
    split at h
    · rename_i l hl
      rw [ev_neg_ok] at hv
      obtain ⟨x, hx, rfl⟩ := hv
      obtain ⟨h1, h2⟩ := ih l x hw hl hx
      exact ⟨stepNeg_sound hA h (ev_neg_ok.mpr ⟨x, h1, rfl⟩), stepNeg_wf h h2⟩
    · simp at h
  | bin o a b iha ihb =>
    intro e' v hw h hv
    obtain ⟨hwa, hwb, hwC, hwB⟩ := hw
    simp only [simpC] at h
    split at h
    · simp at h
    · rename_i l hl
      split at h
      · simp at h
      · rename_i r hr
        rw [ev_bin_ok'] at hv
        obtain ⟨x, y, hx, hy, h0, rfl⟩ := hv
        obtain ⟨hl', hlw⟩ := iha l x hwa hl hx
        obtain ⟨hr', hrw⟩ := ihb r y hwb hr hy
        have hv' : ev σ (.bin o l r) = .ok (opF o x y) :=
          ev_bin_ok'.mpr ⟨x, y, hl', hr', h0, rfl⟩
        cases o <;> simp only [stepBin] at h
        · exact ⟨stepAdd_sound hA h hv', stepAdd_wf h hlw hrw⟩
        · exact ⟨stepSub_sound hA h hv', stepSub_wf h hlw hrw⟩
        · exact ⟨stepMul_sound hA h hv', stepMul_wf h hlw hrw⟩
        · exact ⟨stepDiv_sound hA h (rcf_sound hv'),
            stepDiv_wf h (rcf_wf hlw hrw).1 (rcf_wf hlw hrw).2⟩
        · have hypos : 0 < y := hwC rfl y hy
          refine ⟨stepDivCeil_sound hA h ?_ hv', stepDivCeil_wf h hlw hrw hl' hr' hypos⟩
          intro l' c1 hleq v1 v2 hc1 hv2
          subst hleq
          rw [hr'] at hv2; simp at hv2; subst hv2
          exact ⟨hlw.2.2.1 rfl v1 hc1, hypos⟩
        · exact ⟨stepMax_sound h hv', stepMax_wf h hlw hrw⟩
        · exact ⟨stepMin_sound h hv', stepMin_wf h hlw hrw⟩
        · have hdom : ∀ x' y', ev σ l = .ok x' → ev σ r = .ok y' →
              (x' = y' ∨ x' = 1 ∨ y' = 1) := by
            intro x' y' hx' hy'
            rw [hl'] at hx'; rw [hr'] at hy'
            simp at hx' hy'; subst hx' hy'
            exact hwB rfl x y hx hy
          exact ⟨stepBroadcast_sound h hdom hv', stepBroadcast_wf h hlw hrw hdom⟩

/-- The side conditions on an evaluable expression imply the internal `Guards`. -/
theorem guards_of_wf {A : Arith} (hA : Exact A) (σ : Env) :
    ∀ (e : SymExpr) (v : Int), WF σ e → ev σ e = .ok v → Guards A σ e := by
  intro e
  induction e with
  | value x => intro _ _ _; trivial
  | var n p => intro _ _ _; trivial
  | neg a ih =>
    intro v hw hv
    rw [ev_neg_ok] at hv
    obtain ⟨x, hx, -⟩ := hv
    exact ih x hw hx
  | bin o a b iha ihb =>
    intro v hw hv
    rw [ev_bin_ok'] at hv
    obtain ⟨x, y, hx, hy, -, -⟩ := hv
    refine ⟨iha x hw.1 hx, ihb y hw.2.1 hy, hw.2.2.2, ?_⟩
    intro ho l' c1 r hl hr v1 v2 hv1 hv2
    obtain ⟨-, hlw⟩ := simpC_full hA σ a _ x hw.1 hl hx
    obtain ⟨hr', -⟩ := simpC_full hA σ b _ y hw.2.1 hr hy
    rw [hr'] at hv2; simp at hv2; subst hv2
    exact ⟨hlw.2.2.1 rfl v1 hv1, hw.2.2.1 ho _ hy⟩

/-- Audit item (MED): `posDivisors e ∧ bcastDom σ e → Guards A σ (canonicalize e)` for every
expression that evaluates. -/
theorem guards_canonicalize {A : Arith} (hA : Exact A) (σ : Env) (e : SymExpr) (v : Int)
    (hp : posDivisors σ e) (hb : bcastDom σ e) (hv : ev σ e = .ok v) :
    Guards A σ (canonicalize e) :=
  guards_of_wf hA σ _ v (canonF_wf σ _ e v ((wf_iff σ e).mpr ⟨hp, hb⟩) hv)
    (canonicalize_sound σ e v hv)

/-- Decidable form of `WF` (for evaluable expressions). -/
def wfB (σ : Env) : SymExpr → Bool
  | .bin o a b =>
    wfB σ a && wfB σ b &&
      (o != .divCeil ||
        match ev σ b with
        | .ok y => decide (0 < y)
        | _ => true) &&
      (o != .broadcast ||
        match ev σ a, ev σ b with
        | .ok x, .ok y => (x == y || x == 1 || y == 1)
        | _, _ => true)
  | .neg a => wfB σ a
  | _ => true

theorem wfB_sound (σ : Env) : ∀ e : SymExpr, wfB σ e = true → WF σ e := by
  intro e
  induction e with
  | value x => intro _; trivial
  | var n p => intro _; trivial
  | neg a ih => intro h; exact ih h
  | bin o a b iha ihb =>
    intro h
    simp only [wfB, Bool.and_eq_true, Bool.or_eq_true] at h
    obtain ⟨⟨⟨ha, hb⟩, hC⟩, hB⟩ := h
    refine ⟨iha ha, ihb hb, ?_, ?_⟩
    · intro ho y hy
      subst ho
      rcases hC with hC | hC
      · simp at hC
      · rw [hy] at hC; simpa using hC
    · intro ho x y hx hy
      subst ho
      rcases hB with hB | hB
      · simp at hB
      · rw [hx, hy] at hB
        simp only [Bool.or_eq_true, beq_iff_eq] at hB
        rcases hB with (h | h) | h <;> simp [h]

end RtenVerif.Sym
