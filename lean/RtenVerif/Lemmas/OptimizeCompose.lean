import RtenVerif.Lemmas.OptimizeRewrite

/-!
# C01 — M4 (partial): the rewritten plan is again a well-formed, fresh plan

So `c01_rewrite_sound` can be applied again to the result (next replacement of the batch / next pass):
`WF_fuse` and `fresh_fuse` re-establish `hwf` / `hfresh` for `pre.filter (¬inS) ++ F :: post`.
Not proved: that the guards evaluated on the *original* graph for every replacement of one
`apply_fusion` batch still hold after the earlier replacements of the batch were applied (the
claimed-operator check makes the removed sets disjoint; stability of `usedOutside` under removal of
a disjoint subgraph is the missing lemma), and the 3-pass loop as a whole.
-/
namespace RtenVerif.Optimize

variable {K : Type}

theorem outsAll_filter_sub (p : Op K → Bool) (l : List (Op K)) : ∀ i, i ∈ outsAll (l.filter p) → i ∈ outsAll l := by
  intro i hi
  obtain ⟨o, ho, hio⟩ := mem_outsAll.mp hi
  exact mem_outsAll.mpr ⟨o, (List.mem_filter.mp ho).1, hio⟩

theorem WF_filter_append (p : Op K → Bool) (t : List (Op K)) : ∀ (a : List (Op K)), WF (a ++ t) → WF (a.filter p ++ t) := by
  intro a
  induction a with
  | nil => intro h; exact h
  | cons o os ih =>
    intro h
    rw [List.cons_append] at h
    obtain ⟨h1, h2, h3⟩ := h
    have hsub : ∀ i, i ∈ outsAll (os.filter p ++ t) → i ∈ outsAll (os ++ t) := by
      intro i hi
      rw [outsAll_append] at hi ⊢
      rcases List.mem_append.mp hi with hh | hh
      · exact List.mem_append.mpr (Or.inl (outsAll_filter_sub p os i hh))
      · exact List.mem_append.mpr (Or.inr hh)
    cases hp : p o with
    | false => simp only [List.filter, hp]; exact ih h3
    | true =>
      simp only [List.filter, hp, List.cons_append]
      refine ⟨?_, ?_, ih h3⟩
      · intro i hi hm
        apply h1 i hi
        simp only [outsAll, List.mem_append] at hm ⊢
        rcases hm with hm | hm
        · exact Or.inl hm
        · exact Or.inr (hsub i hm)
      · intro i hi hm; exact h2 i hi (hsub i hm)

/-- The plan after `fuse` is well-formed, provided the fused operator reads nothing that it or a
later operator produces (its inputs are inputs of the removed subgraph). -/
theorem WF_fuse (pre post : List (Op K)) (L F : Op K) (p : Op K → Bool)
    (hwf : WF (pre ++ L :: post)) (houts : F.outs = L.outs)
    (hFr : ∀ i ∈ F.reads, i ∉ outsAll (L :: post)) : WF (pre.filter p ++ F :: post) := by
  have h1 : WF (pre.filter p ++ L :: post) := WF_filter_append p (L :: post) pre hwf
  -- replace L by F at the same position
  have key : ∀ (a : List (Op K)), WF (a ++ L :: post) → WF (a ++ F :: post) := by
    intro a
    induction a with
    | nil =>
      intro h
      obtain ⟨_, g2, g3⟩ := h
      refine ⟨?_, ?_, g3⟩
      · intro i hi; simpa [outsAll, houts] using hFr i hi
      · intro i hi; exact g2 i (houts ▸ hi)
    | cons o os ih =>
      intro h
      rw [List.cons_append] at h ⊢
      obtain ⟨g1, g2, g3⟩ := h
      have heq : ∀ (l : List (Op K)), outsAll (l ++ F :: post) = outsAll (l ++ L :: post) := by
        intro l; simp [outsAll_append, outsAll, houts]
      refine ⟨?_, ?_, ih g3⟩
      · intro i hi; simpa [outsAll, heq] using g1 i hi
      · intro i hi; rw [heq]; exact g2 i hi
  exact key _ h1

/-- … and its operator outputs are still undefined in the initial environment. -/
theorem fresh_fuse {V : Type} (pre post : List (Op K)) (L F : Op K) (p : Op K → Bool) (env : Env V)
    (hfresh : ∀ i ∈ outsAll (pre ++ L :: post), env i = none) (houts : F.outs = L.outs) :
    ∀ i ∈ outsAll (pre.filter p ++ F :: post), env i = none := by
  intro i hi
  apply hfresh i
  rw [outsAll_append] at hi ⊢
  rcases List.mem_append.mp hi with hh | hh
  · exact List.mem_append.mpr (Or.inl (outsAll_filter_sub p pre i hh))
  · exact List.mem_append.mpr (Or.inr (by simpa [outsAll, houts] using hh))

end RtenVerif.Optimize
