import RtenVerif.Lemmas.IterSim

/-!
C07 lemmas, part 7: parallel schedules.  A rayon-style scheduler splits the iterator at
arbitrary points (a binary tree of `split_at`s) and folds every leaf; the concatenation of
the leaves' items is the deque content, whatever the tree.
-/
namespace RtenVerif.Iter

/-- A split schedule: `leaf` folds the piece, `node k l r` splits at `k` first. -/
inductive Sched where
  | leaf
  | node (k : Nat) (l r : Sched)

def Sched.toHist : Sched → Hist
  | .leaf => .fold
  | .node k l r => .split k l.toHist r.toHist

/-- Items passed to the fold closures, in leaf order. -/
def collected {ι : Type} : List (Obs ι) → List ι
  | [] => []
  | .folded l :: r => l ++ collected r
  | _ :: r => collected r

theorem collected_append {ι : Type} (a b : List (Obs ι)) :
    collected (a ++ b) = collected a ++ collected b := by
  induction a with
  | nil => rfl
  | cons x xs ih =>
    cases x <;> simp [collected, ih]

theorem sched_list {ι : Type} : ∀ (T : Sched) (l : List ι),
    Obs.panic ∉ run (listOps ι) T.toHist l → collected (run (listOps ι) T.toHist l) = l
  | .leaf, l, _ => by simp [Sched.toHist, run, listOps, collected]
  | .node k a b, l, h => by
    by_cases hk : k ≤ l.length
    · have hs : (listOps ι).splitAt l k = some (l.take k, l.drop k) := by simp [listOps, hk]
      simp only [Sched.toHist, run, hs] at h ⊢
      rw [List.mem_append, not_or] at h
      rw [collected_append, sched_list a _ h.1, sched_list b _ h.2, List.take_append_drop]
    · have hs : (listOps ι).splitAt l k = none := by simp [listOps, hk]
      simp [Sched.toHist, run, hs] at h

end RtenVerif.Iter
