import RtenVerif.Model.RtenHeader

/-! Complete enumeration (by kernel evaluation) of all 65536 f16 bit patterns: kept in its own
module because checking it takes a few minutes; it is only re-checked when the model changes. -/
namespace RtenVerif.RtenHeader

theorem f16_to_f32_exact_all :
    allBelow (fun i => codeF32 (f16ToF32Bits i) == codeF16 i) 65536 = true := by
  decide +kernel

theorem allBelow_spec (p : Nat → Bool) (n : Nat) (h : allBelow p n = true) :
    ∀ i, i < n → p i = true := by
  induction n with
  | zero => intro i hi; omega
  | succ n ih =>
    intro i hi
    simp only [allBelow, Bool.and_eq_true] at h
    by_cases hin : i = n
    · subst hin; exact h.1
    · exact ih h.2 i (by omega)

end RtenVerif.RtenHeader
