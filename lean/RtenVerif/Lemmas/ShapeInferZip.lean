import RtenVerif.Lemmas.ShapeInfer

/-! More C10 lemmas: the right-cycling and equal-length modes of `symbolic_binary_op`,
`drop`/`take`/`append`/index lemmas for `evalList`. -/
namespace RtenVerif.ShapeInfer

theorem evalList_nil (σ : Env) : evalList σ [] = some [] := rfl

theorem evalList_cons (σ : Env) (e : Sym) (es : List Sym) (vs : List Int)
    (h : evalList σ (e :: es) = some vs) :
    ∃ v vs', e.eval σ = some v ∧ evalList σ es = some vs' ∧ vs = v :: vs' := by
  simp only [evalList, mapO] at h
  cases he : e.eval σ with
  | none => simp [he] at h
  | some v =>
    simp only [he] at h
    cases hes : mapO (Sym.eval σ) es with
    | none => simp [hes] at h
    | some vs' =>
      simp only [hes] at h; cases h
      exact ⟨v, vs', rfl, hes, rfl⟩

theorem evalList_cons_intro (σ : Env) (e : Sym) (es : List Sym) (v : Int) (vs : List Int)
    (he : e.eval σ = some v) (hes : evalList σ es = some vs) : evalList σ (e :: es) = some (v :: vs) := by
  simp only [evalList] at hes
  simp [evalList, mapO, he, hes]

theorem mapO_right (σ : Env) (op) (f) (h : OpHom σ op f) (y : Sym) (vy : Int) (hy : y.eval σ = some vy) :
    ∀ (ls : List Sym) (vls : List Int) (out : List Sym) (w : List Int),
      evalList σ ls = some vls → mapO (fun x => op x y) ls = some out →
      mapO (fun x => f x vy) vls = some w → evalList σ out = some w := by
  intro ls
  induction ls with
  | nil =>
    intro vls out w h1 h2 h3
    simp only [evalList, mapO] at h1 h2
    cases h1; cases h2
    simp only [mapO] at h3; cases h3
    rfl
  | cons l ls ih =>
    intro vls out w h1 h2 h3
    obtain ⟨vl, vls', hl, hls, rfl⟩ := evalList_cons σ l ls vls h1
    simp only [mapO] at h2 h3
    cases ho : op l y with
    | none => simp [ho] at h2
    | some o =>
      simp only [ho] at h2
      cases hos : mapO (fun x => op x y) ls with
      | none => simp [hos] at h2
      | some os =>
        simp only [hos] at h2; cases h2
        cases hf : f vl vy with
        | none => simp [hf] at h3
        | some fv =>
          simp only [hf] at h3
          cases hfs : mapO (fun x => f x vy) vls' with
          | none => simp [hfs] at h3
          | some ws =>
            simp only [hfs] at h3; cases h3
            exact evalList_cons_intro σ o os fv ws (h l y o vl vy fv ho hl hy hf) (ih vls' os ws hls hos hfs)

theorem mapO_zip (σ : Env) (op) (f) (h : OpHom σ op f) :
    ∀ (ls rs : List Sym) (vls vrs : List Int) (out : List Sym) (w : List Int),
      evalList σ ls = some vls → evalList σ rs = some vrs →
      mapO (fun (p : Sym × Sym) => op p.1 p.2) (List.zip ls rs) = some out →
      mapO (fun (p : Int × Int) => f p.1 p.2) (List.zip vls vrs) = some w → evalList σ out = some w := by
  intro ls
  induction ls with
  | nil =>
    intro rs vls vrs out w h1 _ h3 h4
    simp only [evalList, mapO] at h1; cases h1
    simp only [List.zip_nil_left, mapO] at h3 h4
    cases h3; cases h4; rfl
  | cons l ls ih =>
    intro rs vls vrs out w h1 h2 h3 h4
    obtain ⟨vl, vls', hl, hls, rfl⟩ := evalList_cons σ l ls vls h1
    cases rs with
    | nil =>
      simp only [evalList, mapO] at h2; cases h2
      simp only [List.zip_nil_right, mapO] at h3 h4
      cases h3; cases h4; rfl
    | cons r rs =>
      obtain ⟨vr, vrs', hr, hrs, rfl⟩ := evalList_cons σ r rs vrs h2
      simp only [List.zip_cons_cons, mapO] at h3 h4
      cases ho : op l r with
      | none => simp [ho] at h3
      | some o =>
        simp only [ho] at h3
        cases hos : mapO (fun (p : Sym × Sym) => op p.1 p.2) (List.zip ls rs) with
        | none => simp [hos] at h3
        | some os =>
          simp only [hos] at h3; cases h3
          cases hf : f vl vr with
          | none => simp [hf] at h4
          | some fv =>
            simp only [hf] at h4
            cases hfs : mapO (fun (p : Int × Int) => f p.1 p.2) (List.zip vls' vrs') with
            | none => simp [hfs] at h4
            | some ws =>
              simp only [hfs] at h4; cases h4
              exact evalList_cons_intro σ o os fv ws (h l r o vl vr fv ho hl hr hf)
                (ih rs vls' vrs' os ws hls hrs hos hfs)

theorem evalList_append (σ : Env) : ∀ (as bs : List Sym) (va vb : List Int),
    evalList σ as = some va → evalList σ bs = some vb → evalList σ (as ++ bs) = some (va ++ vb) := by
  intro as
  induction as with
  | nil => intro bs va vb h1 h2; simp only [evalList, mapO] at h1; cases h1; simpa using h2
  | cons a as ih =>
    intro bs va vb h1 h2
    obtain ⟨v, va', ha, has, rfl⟩ := evalList_cons σ a as va h1
    exact evalList_cons_intro σ a (as ++ bs) v (va' ++ vb) ha (ih bs va' vb has h2)

theorem evalList_drop (σ : Env) : ∀ (n : Nat) (es : List Sym) (vs : List Int),
    evalList σ es = some vs → evalList σ (es.drop n) = some (vs.drop n) := by
  intro n
  induction n with
  | zero => intro es vs h; simpa using h
  | succ n ih =>
    intro es vs h
    cases es with
    | nil => simp only [evalList, mapO] at h; cases h; rfl
    | cons e es =>
      obtain ⟨v, vs', _, hes, rfl⟩ := evalList_cons σ e es vs h
      simpa using ih es vs' hes

theorem evalList_take (σ : Env) : ∀ (n : Nat) (es : List Sym) (vs : List Int),
    evalList σ es = some vs → evalList σ (es.take n) = some (vs.take n) := by
  intro n
  induction n with
  | zero => intro es vs _; rfl
  | succ n ih =>
    intro es vs h
    cases es with
    | nil => simp only [evalList, mapO] at h; cases h; rfl
    | cons e es =>
      obtain ⟨v, vs', he, hes, rfl⟩ := evalList_cons σ e es vs h
      simpa using evalList_cons_intro σ e (es.take n) v (vs'.take n) he (ih es vs' hes)

theorem evalList_getElem (σ : Env) : ∀ (es : List Sym) (vs : List Int) (k : Nat) (e : Sym),
    evalList σ es = some vs → es[k]? = some e → ∃ v, vs[k]? = some v ∧ e.eval σ = some v := by
  intro es
  induction es with
  | nil => intro vs k e _ hk; simp at hk
  | cons a as ih =>
    intro vs k e h hk
    obtain ⟨v, vs', ha, has, rfl⟩ := evalList_cons σ a as vs h
    cases k with
    | zero => simp at hk; subst hk; exact ⟨v, by simp, ha⟩
    | succ k => simpa using ih vs' k e has (by simpa using hk)

end RtenVerif.ShapeInfer
