import RtenVerif.Model.Sampler

/-! Helper lemmas for C33 (fold invariant of `ArgMax`, loop invariants of `multinomial`). -/
namespace RtenVerif.Sampler

/-- Once the accumulator's score is NaN nothing replaces it. -/
theorem foldl_nan_acc (xs : List (Nat × Option Int)) (acc : Nat × Option Int)
    (h : acc.2 = none) : xs.foldl reduceStep acc = acc := by
  induction xs with
  | nil => rfl
  | cons x xs ih =>
    have : reduceStep acc x = acc := by
      unfold reduceStep gt
      rw [h]
      cases x.2 <;> simp
    simp [List.foldl_cons, this, ih]

/-- Fold invariant with a non-NaN accumulator: the result is the accumulator or a later
element, its score is a number `m ≥` the accumulator's and `≥` every non-NaN score seen. -/
theorem foldl_spec (xs : List (Nat × Option Int)) (acc : Nat × Option Int) (a : Int)
    (h : acc.2 = some a) :
    ∃ m, (xs.foldl reduceStep acc).2 = some m ∧ a ≤ m ∧
      (xs.foldl reduceStep acc = acc ∨ xs.foldl reduceStep acc ∈ xs) ∧
      ∀ c ∈ xs, ∀ w, c.2 = some w → w ≤ m := by
  induction xs generalizing acc a with
  | nil => exact ⟨a, h, Int.le_refl _, Or.inl rfl, by simp⟩
  | cons x xs ih =>
    simp only [List.foldl_cons]
    cases hx : x.2 with
    | none =>
      have hs : reduceStep acc x = acc := by simp [reduceStep, gt, hx]
      rw [hs]
      obtain ⟨m, h1, h2, h3, h4⟩ := ih acc a h
      refine ⟨m, h1, h2, ?_, ?_⟩
      · rcases h3 with h3 | h3
        · exact Or.inl h3
        · exact Or.inr (List.mem_cons_of_mem _ h3)
      · intro c hc w hw
        rcases List.mem_cons.mp hc with rfl | hc
        · rw [hx] at hw; cases hw
        · exact h4 c hc w hw
    | some v =>
      by_cases hgt : a < v
      · have hs : reduceStep acc x = x := by simp [reduceStep, gt, hx, h, hgt]
        rw [hs]
        obtain ⟨m, h1, h2, h3, h4⟩ := ih x v hx
        refine ⟨m, h1, by omega, ?_, ?_⟩
        · rcases h3 with h3 | h3
          · exact Or.inr (by rw [h3]; exact List.mem_cons_self)
          · exact Or.inr (List.mem_cons_of_mem _ h3)
        · intro c hc w hw
          rcases List.mem_cons.mp hc with rfl | hc
          · rw [hx] at hw; cases hw; exact h2
          · exact h4 c hc w hw
      · have hs : reduceStep acc x = acc := by simp [reduceStep, gt, hx, h, hgt]
        rw [hs]
        obtain ⟨m, h1, h2, h3, h4⟩ := ih acc a h
        refine ⟨m, h1, h2, ?_, ?_⟩
        · rcases h3 with h3 | h3
          · exact Or.inl h3
          · exact Or.inr (List.mem_cons_of_mem _ h3)
        · intro c hc w hw
          rcases List.mem_cons.mp hc with rfl | hc
          · rw [hx] at hw; cases hw; omega
          · exact h4 c hc w hw

/-- Fixed loop: a returned candidate is a member with probability `> 0`. -/
theorem mnLoop_fixed_pos (add : Int → Int → Int) (hadd : ∀ c, add c 0 = c) (target : Int)
    (all : List (Nat × Int)) (cs : List (Nat × Int)) (cum : Int) (last : Option (Nat × Int))
    (hsub : ∀ c ∈ cs, c ∈ all) (hnn : ∀ c ∈ cs, 0 ≤ c.2)
    (hlast : ∀ c, last = some c → c ∈ all ∧ 0 < c.2) (hcum : cum ≤ target)
    (r : Nat × Int) (hr : mnLoop .fixed add target cum last cs = some r) :
    r ∈ all ∧ 0 < r.2 := by
  induction cs generalizing cum last with
  | nil => simp only [mnLoop] at hr; exact hlast r hr
  | cons c cs ih =>
    simp only [mnLoop, hit] at hr
    by_cases hh : target < add cum c.2
    · simp only [hh, decide_true, ↓reduceIte, Option.some.injEq] at hr
      subst hr
      refine ⟨hsub c List.mem_cons_self, ?_⟩
      have h0 := hnn c List.mem_cons_self
      by_cases hz : c.2 = 0
      · rw [hz, hadd] at hh; omega
      · omega
    · simp only [hh, decide_false, Bool.false_eq_true, ↓reduceIte] at hr
      refine ih (add cum c.2) _ (fun d hd => hsub d (List.mem_cons_of_mem _ hd))
        (fun d hd => hnn d (List.mem_cons_of_mem _ hd)) ?_ (by omega) hr
      intro d hd
      by_cases hp : 0 < c.2
      · simp only [hp, ↓reduceIte, Option.some.injEq] at hd
        subst hd
        exact ⟨hsub c List.mem_cons_self, hp⟩
      · simp only [hp, ↓reduceIte] at hd
        exact hlast d hd

/-- Fixed loop: it answers as soon as some candidate (seen or still to come) has
probability `> 0`. -/
theorem mnLoop_fixed_isSome (add : Int → Int → Int) (target : Int)
    (cs : List (Nat × Int)) (cum : Int) (last : Option (Nat × Int))
    (h : last.isSome = true ∨ ∃ c ∈ cs, 0 < c.2) :
    (mnLoop .fixed add target cum last cs).isSome = true := by
  induction cs generalizing cum last with
  | nil =>
    rcases h with h | ⟨c, hc, _⟩
    · simpa [mnLoop] using h
    · simp at hc
  | cons c cs ih =>
    simp only [mnLoop]
    by_cases hh : hit .fixed target (add cum c.2) = true
    · simp [hh]
    · simp only [hh, Bool.false_eq_true, ↓reduceIte]
      apply ih
      by_cases hp : 0 < c.2
      · left; simp [hp]
      · simp only [hp, ↓reduceIte]
        rcases h with h | ⟨d, hd, hd0⟩
        · exact Or.inl h
        · rcases List.mem_cons.mp hd with rfl | hd
          · exact absurd hd0 hp
          · exact Or.inr ⟨d, hd, hd0⟩

/-- Legacy loop: with the running sum still below the target, a returned candidate is a
member with probability `≠ 0` (any addition with `add c 0 = c`). -/
theorem mnLoop_legacy_ne_zero (add : Int → Int → Int) (hadd : ∀ c, add c 0 = c) (target : Int)
    (all : List (Nat × Int)) (cs : List (Nat × Int)) (cum : Int) (last : Option (Nat × Int))
    (hsub : ∀ c ∈ cs, c ∈ all) (hcum : cum < target)
    (r : Nat × Int) (hr : mnLoop .legacy add target cum last cs = some r) :
    r ∈ all ∧ r.2 ≠ 0 := by
  induction cs generalizing cum last with
  | nil => simp [mnLoop] at hr
  | cons c cs ih =>
    simp only [mnLoop, hit] at hr
    by_cases hh : target ≤ add cum c.2
    · simp only [hh, decide_true, ↓reduceIte, Option.some.injEq] at hr
      subst hr
      refine ⟨hsub c List.mem_cons_self, ?_⟩
      intro hz
      rw [hz, hadd] at hh; omega
    · simp only [hh, decide_false, Bool.false_eq_true, ↓reduceIte] at hr
      exact ih (add cum c.2) _ (fun d hd => hsub d (List.mem_cons_of_mem _ hd)) (by omega) hr

/-- Legacy loop, exact addition: it answers when the target does not exceed the total. -/
theorem mnLoop_legacy_isSome (target : Int) (cs : List (Nat × Int)) (cum : Int)
    (last : Option (Nat × Int)) (h : target ≤ cum + sumProbs cs) (hcum : cum < target) :
    (mnLoop .legacy (· + ·) target cum last cs).isSome = true := by
  induction cs generalizing cum last with
  | nil => simp [sumProbs] at h; omega
  | cons c cs ih =>
    simp only [mnLoop, hit]
    by_cases hh : target ≤ cum + c.2
    · simp [hh]
    · simp only [hh, decide_false, Bool.false_eq_true, ↓reduceIte]
      apply ih
      · simp only [sumProbs] at h; omega
      · omega

/-! ## The walk = first exceeding index, else last positive candidate -/

theorem mnLoop_fixed_eq (add : Int → Int → Int) (r : Int) (cs : List (Nat × Int)) (cum : Int)
    (last : Option (Nat × Int)) :
    mnLoop .fixed add r cum last cs =
      match firstExceed add r cum cs with
      | some c => some c
      | none => lastPosFrom last cs := by
  induction cs generalizing cum last with
  | nil => simp [mnLoop, firstExceed, lastPosFrom]
  | cons c cs ih =>
    simp only [mnLoop, hit, firstExceed]
    by_cases hh : r < add cum c.2
    · simp [hh]
    · simp only [hh, decide_false, Bool.false_eq_true, ↓reduceIte]
      rw [ih]
      simp [lastPosFrom]

theorem runSum_append_one (add : Int → Int → Int) (cum : Int) (l : List (Nat × Int))
    (c : Nat × Int) : runSum add cum (l ++ [c]) = add (runSum add cum l) c.2 := by
  simp [runSum, List.foldl_append]

theorem runSum_cons (add : Int → Int → Int) (cum : Int) (l : List (Nat × Int)) (c : Nat × Int) :
    runSum add cum (c :: l) = runSum add (add cum c.2) l := by
  simp [runSum]

/-- `firstExceed` finds a candidate: it splits the list at the first prefix whose running sum
exceeds `r`. -/
theorem firstExceed_some (add : Int → Int → Int) (r : Int) (cs : List (Nat × Int)) (cum : Int)
    (c : Nat × Int) (h : firstExceed add r cum cs = some c) :
    ∃ pre post, cs = pre ++ c :: post ∧ r < runSum add cum (pre ++ [c]) ∧
      ∀ n, 0 < n → n ≤ pre.length → ¬ r < runSum add cum (pre.take n) := by
  induction cs generalizing cum with
  | nil => simp [firstExceed] at h
  | cons d ds ih =>
    simp only [firstExceed] at h
    by_cases hh : r < add cum d.2
    · simp only [hh, ↓reduceIte, Option.some.injEq] at h
      subst h
      refine ⟨[], ds, rfl, by simpa [runSum] using hh, ?_⟩
      intro n hn hle; simp at hle; omega
    · simp only [hh, ↓reduceIte] at h
      obtain ⟨pre, post, hsplit, hex, hmin⟩ := ih (add cum d.2) h
      refine ⟨d :: pre, post, by simp [hsplit], by simpa [runSum_cons] using hex, ?_⟩
      intro n hn hle
      cases n with
      | zero => omega
      | succ n =>
        simp only [List.take_succ_cons, runSum_cons]
        cases n with
        | zero => simpa [runSum] using hh
        | succ m => exact hmin (m + 1) (by omega) (by simpa using hle)

/-- `firstExceed` finds nothing exactly when no prefix's running sum exceeds `r`. -/
theorem firstExceed_none (add : Int → Int → Int) (r : Int) (cs : List (Nat × Int)) (cum : Int)
    (h : firstExceed add r cum cs = none) :
    ∀ n, 0 < n → n ≤ cs.length → ¬ r < runSum add cum (cs.take n) := by
  induction cs generalizing cum with
  | nil => intro n hn hle; simp at hle; omega
  | cons d ds ih =>
    simp only [firstExceed] at h
    by_cases hh : r < add cum d.2
    · simp [hh] at h
    · simp only [hh, ↓reduceIte] at h
      intro n hn hle
      cases n with
      | zero => omega
      | succ n =>
        simp only [List.take_succ_cons, runSum_cons]
        cases n with
        | zero => simpa [runSum] using hh
        | succ m => exact ih (add cum d.2) h (m + 1) (by omega) (by simpa using hle)

/-- `lastPosFrom`: either a candidate of `cs` with positive probability after which no
candidate is positive, or the incoming `last` when `cs` has no positive candidate. -/
theorem lastPosFrom_spec (cs : List (Nat × Int)) (last : Option (Nat × Int)) :
    (∃ pre c post, cs = pre ++ c :: post ∧ 0 < c.2 ∧ (∀ d ∈ post, ¬ 0 < d.2) ∧
        lastPosFrom last cs = some c) ∨
    ((∀ d ∈ cs, ¬ 0 < d.2) ∧ lastPosFrom last cs = last) := by
  induction cs generalizing last with
  | nil => right; simp [lastPosFrom]
  | cons c cs ih =>
    have hstep : lastPosFrom last (c :: cs) = lastPosFrom (if 0 < c.2 then some c else last) cs := by
      simp [lastPosFrom]
    rcases ih (if 0 < c.2 then some c else last) with ⟨pre, e, post, hs, he, hpost, hres⟩ | ⟨hnone, hres⟩
    · left
      exact ⟨c :: pre, e, post, by simp [hs], he, hpost, by rw [hstep, hres]⟩
    · by_cases hp : 0 < c.2
      · left
        refine ⟨[], c, cs, rfl, hp, hnone, ?_⟩
        rw [hstep, hres]; simp [hp]
      · right
        refine ⟨?_, ?_⟩
        · intro d hd
          rcases List.mem_cons.mp hd with rfl | hd
          · exact hp
          · exact hnone d hd
        · rw [hstep, hres]; simp [hp]

/-- The executable check implies the `Prop` the theorems assume. -/
theorem softmaxFactsB_sound (cs : List (Nat × Option Int × Int)) (one tol : Int)
    (h : softmaxFactsB cs one tol = true) : SoftmaxFacts cs one tol := by
  simp only [softmaxFactsB, Bool.and_eq_true, List.all_eq_true, decide_eq_true_eq,
    Bool.or_eq_true, beq_iff_eq] at h
  obtain ⟨⟨⟨⟨h1, h2⟩, h3⟩, h4⟩, h5⟩ := h
  refine ⟨h1, ?_, ⟨h3, h4⟩, ?_⟩
  · intro c hc hn
    rcases h2 c hc with hs | hz
    · rw [hn] at hs; simp at hs
    · exact hz
  · intro c hc d hd a b ha hb hab
    have := h5 c hc d hd
    rw [ha, hb] at this
    simp only [decide_eq_true_eq] at this
    exact this hab

/-- With exact addition the running sum is the sum. -/
theorem runSum_exact (cum : Int) (l : List (Nat × Int)) :
    runSum (· + ·) cum l = cum + sumProbs l := by
  induction l generalizing cum with
  | nil => simp [runSum, sumProbs]
  | cons c cs ih =>
    rw [runSum_cons, ih]; simp only [sumProbs]; omega

end RtenVerif.Sampler
