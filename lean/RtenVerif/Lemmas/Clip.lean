import RtenVerif.Lemmas.AxisSel

/-! C09.T4 lemmas: offsets stay below `min_data_len`; reading a `copy_within` + `truncate`d buffer. -/
namespace RtenVerif.Layout
open RtenVerif.Arr RtenVerif.Overlap

theorem offset_le_sum (d : Dims) (idx : List Nat) (h : validIdx (sizes d) idx = true) :
    offset d idx ≤ (d.map (fun p => (p.1 - 1) * p.2)).sum := by
  induction d generalizing idx with
  | nil => cases idx <;> simp [offset]
  | cons p ds ih =>
    obtain ⟨n, st⟩ := p
    cases idx with
    | nil => simp [sizes, validIdx] at h
    | cons i is =>
      simp only [sizes, List.map_cons, validIdx, Bool.and_eq_true, decide_eq_true_eq] at h
      have := ih is (by simpa [sizes] using h.2)
      simp only [offset, List.map_cons, List.sum_cons]
      have : i * st ≤ (n - 1) * st := Nat.mul_le_mul_right st (by omega)
      omega

theorem offset_lt_minDataLen (d : Dims) (idx : List Nat) (h : validIdx (sizes d) idx = true) :
    offset d idx < minDataLen d := by
  have hne : numelD d ≠ 0 := by
    have := numel_pos_of_valid h
    unfold numelD; omega
  rw [minDataLen_nonempty d hne]
  have := offset_le_sum d idx h
  omega

theorem getD_take_drop (l : List Nat) (a n i : Nat) (hi : i < n) :
    ((l.drop a).take n).getD i 0 = l.getD (a + i) 0 := by
  simp only [List.getD_eq_getElem?_getD, List.getElem?_take, hi, if_true, List.getElem?_drop]

end RtenVerif.Layout
