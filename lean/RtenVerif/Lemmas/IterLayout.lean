import RtenVerif.Lemmas.Iter
import RtenVerif.Lemmas.Overlap

/-!
C07 lemmas, part 5: layouts.  Linear-index decoding enumerates `rowMajor`; `merge_axes`
preserves `rowMajor` (C07.T2); a contiguous layout's `rowMajor` is `0..n`.
-/
namespace RtenVerif.Iter
open RtenVerif.Overlap (isContiguous offset indices contigStep contigR isContiguous_eq)

theorem flatMap_congr' {α β : Type} {l : List α} {f g : α → List β}
    (h : ∀ a ∈ l, f a = g a) : l.flatMap f = l.flatMap g := by
  induction l with
  | nil => rfl
  | cons x xs ih =>
    simp only [List.flatMap_cons]
    rw [h x (List.mem_cons_self ..), ih (fun a ha => h a (List.mem_cons_of_mem _ ha))]

theorem rowMajor_nil : rowMajor [] = [0] := rfl

theorem rowMajor_cons (sz st : Nat) (ds : List (Nat × Nat)) :
    rowMajor ((sz, st) :: ds) = (List.range sz).flatMap (fun i => (rowMajor ds).map (i * st + ·)) := by
  simp only [rowMajor, indices, List.map_flatMap, List.map_map]
  apply flatMap_congr'
  intro i _
  apply List.map_congr_left
  intro is _
  simp [offset]

/-- Enumerating `0 .. sz*T` is enumerating blocks `q < T` of `i < sz`. -/
theorem range_mul_flatMap {β : Type} (sz : Nat) (G : Nat → List β) : ∀ T : Nat,
    (List.range (sz * T)).flatMap G =
      (List.range T).flatMap (fun q => (List.range sz).flatMap (fun i => G (i + sz * q)))
  | 0 => by simp
  | T + 1 => by
    rw [Nat.mul_succ, List.range_add, List.flatMap_append, range_mul_flatMap sz G T,
      List.range_succ, List.flatMap_append, List.flatMap_singleton, List.flatMap_map]
    congr 1
    apply flatMap_congr'
    intro i _
    rw [Nat.add_comm]

theorem range_mul_map {β : Type} (sz T : Nat) (f : Nat → β) :
    (List.range (sz * T)).map f =
      (List.range T).flatMap (fun q => (List.range sz).map (fun i => f (i + sz * q))) := by
  rw [List.map_eq_flatMap, range_mul_flatMap]
  apply flatMap_congr'
  intro q _
  rw [List.map_eq_flatMap]

theorem rowMajor_one (st : Nat) (ds : List (Nat × Nat)) : rowMajor ((1, st) :: ds) = rowMajor ds := by
  rw [rowMajor_cons]
  simp

theorem rowMajor_snoc (sz st : Nat) : ∀ ds : List (Nat × Nat),
    rowMajor (ds ++ [(sz, st)]) =
      (rowMajor ds).flatMap (fun o => (List.range sz).map (fun i => o + i * st))
  | [] => by
    rw [List.nil_append, rowMajor_cons, rowMajor_nil, List.flatMap_singleton, List.map_eq_flatMap]
    apply flatMap_congr'
    intro i _
    simp
  | (a, b) :: ds => by
    rw [List.cons_append, rowMajor_cons, rowMajor_cons, List.flatMap_assoc]
    apply flatMap_congr'
    intro j _
    rw [rowMajor_snoc sz st ds, List.map_flatMap, List.flatMap_map]
    apply flatMap_congr'
    intro o _
    rw [List.map_map]
    apply List.map_congr_left
    intro i _
    simp only [Function.comp]
    omega

/-- Product of sizes of an innermost-first `(size, stride)` list. -/
def totD : List (Nat × Nat) → Nat
  | [] => 1
  | d :: ds => d.1 * totD ds

/-- **Decoding lemma**: mapping `offset_from_linear_index` over `0..n` enumerates the offsets
in row-major order. -/
theorem map_offR_eq_rowMajor : ∀ D : List (Nat × Nat),
    (List.range (totD D)).map (offR D) = rowMajor D.reverse
  | [] => rfl
  | (sz, st) :: D => by
    rw [List.reverse_cons, rowMajor_snoc, ← map_offR_eq_rowMajor D, List.flatMap_map]
    simp only [totD]
    rw [range_mul_map]
    apply flatMap_congr'
    intro q _
    apply List.map_congr_left
    intro i hi
    rw [List.mem_range] at hi
    have hp : 0 < sz := by omega
    simp only [offR]
    rw [Nat.add_mul_mod_self_left, Nat.mod_eq_of_lt hi, Nat.add_mul_div_left _ _ hp,
      Nat.div_eq_of_lt hi, Nat.zero_add, Nat.add_comm]

theorem rowMajor_length : ∀ ds : List (Nat × Nat), (rowMajor ds).length = total ds
  | [] => rfl
  | (sz, st) :: ds => by
    rw [rowMajor_cons, List.length_flatMap]
    simp only [List.length_map, rowMajor_length ds, total]
    induction sz with
    | zero => simp
    | succ n ih => rw [List.range_succ, List.map_append, List.sum_append, ih]; simp [Nat.succ_mul]

/-! ### `merge_axes` preserves the element order (C07.T2) -/

theorem mergeStep_rowMajor (isz ist : Nat) (rest : List (Nat × Nat)) (x : Nat × Nat) :
    rowMajor (mergeStep ((isz, ist) :: rest) x) = rowMajor (x :: (isz, ist) :: rest) := by
  obtain ⟨x1, x2⟩ := x
  simp only [mergeStep]
  by_cases hm : x1 = 1 ∨ x2 = ist * isz
  · simp only [hm, if_true]
    rcases hm with h1 | h2
    · subst h1
      rw [rowMajor_one, Nat.mul_one]
    · subst h2
      rw [rowMajor_cons, rowMajor_cons, rowMajor_cons, range_mul_flatMap]
      apply flatMap_congr'
      intro a _
      rw [List.map_flatMap]
      apply flatMap_congr'
      intro b _
      rw [List.map_map]
      apply List.map_congr_left
      intro o _
      simp only [Function.comp]
      have : (b + isz * a) * ist = b * ist + a * (ist * isz) := by
        rw [Nat.add_mul]; congr 1; ac_rfl
      rw [this]; omega
  · simp only [hm, if_false]

theorem mergeStep_ne_nil (M : List (Nat × Nat)) (x : Nat × Nat) : mergeStep M x ≠ [] := by
  unfold mergeStep
  split
  · simp
  · split <;> simp

theorem rowMajor_cons_congr (x : Nat × Nat) {A B : List (Nat × Nat)} (h : rowMajor A = rowMajor B) :
    rowMajor (x :: A) = rowMajor (x :: B) := by
  obtain ⟨x1, x2⟩ := x
  rw [rowMajor_cons, rowMajor_cons, h]

theorem merge_foldr (d : Nat × Nat) : ∀ init : List (Nat × Nat),
    init.foldr (fun x acc => mergeStep acc x) [d] ≠ [] ∧
    rowMajor (init.foldr (fun x acc => mergeStep acc x) [d]) = rowMajor (init ++ [d])
  | [] => ⟨by simp, rfl⟩
  | x :: init => by
    obtain ⟨hne, hrm⟩ := merge_foldr d init
    simp only [List.foldr_cons, List.cons_append]
    refine ⟨mergeStep_ne_nil _ _, ?_⟩
    cases hM : init.foldr (fun x acc => mergeStep acc x) [d] with
    | nil => exact absurd hM hne
    | cons m rest =>
      obtain ⟨isz, ist⟩ := m
      rw [mergeStep_rowMajor, ← hM]
      exact rowMajor_cons_congr x hrm

/-- **C07.T2** `merge_axes` preserves the row-major offset sequence. -/
theorem mergeAxes_rowMajor (dims : List (Nat × Nat)) : rowMajor (mergeAxes dims) = rowMajor dims := by
  unfold mergeAxes
  cases hr : dims.reverse with
  | nil =>
    have : dims = [] := by simpa using hr
    subst this; rfl
  | cons d rest =>
    have hd : dims = rest.reverse ++ [d] := by
      have := congrArg List.reverse hr
      simpa using this
    simp only
    rw [List.foldl_eq_foldr_reverse, hd]
    exact (merge_foldr d rest.reverse).2

/-! ### Contiguous layouts (the `Range` fast path) -/

theorem contig_rowMajor : ∀ (dims : List (Nat × Nat)) (p : Nat), contigR dims = some p →
    rowMajor dims = List.range p ∧ minDataLen dims = p
  | [], p, h => by
    simp only [contigR, Option.some.injEq] at h
    subst h
    exact ⟨rfl, rfl⟩
  | (d1, d2) :: ds, p, h => by
    simp only [contigR] at h
    cases hc : contigR ds with
    | none => simp [hc, contigStep] at h
    | some p' =>
      obtain ⟨ih1, ih2⟩ := contig_rowMajor ds p' hc
      simp only [hc, contigStep] at h
      have hmd : minDataLen ((d1, d2) :: ds) =
          if d1 = 0 ∨ ds.any (fun d => d.1 == 0) then 0
          else (d1 - 1) * d2 + (ds.map (fun d => (d.1 - 1) * d.2)).sum + 1 := by
        simp only [minDataLen, List.any_cons, Bool.or_eq_true, beq_iff_eq, List.map_cons,
          List.sum_cons]
      by_cases h1 : d1 = 1
      · simp only [h1, if_true, Option.some.injEq] at h
        subst h; subst h1
        refine ⟨by rw [rowMajor_one, ih1], ?_⟩
        rw [hmd]
        simp only [minDataLen] at ih2
        by_cases ha : ds.any (fun d => d.1 == 0) = true
        · simp [ha] at ih2 ⊢; exact ih2
        · simp [ha] at ih2 ⊢; omega
      · simp only [h1, if_false] at h
        by_cases h2 : d2 = p'
        · simp only [h2, ne_eq, not_true_eq_false, if_false, Option.some.injEq] at h
          subst h; subst h2
          refine ⟨?_, ?_⟩
          · rw [rowMajor_cons, ih1, ← List.map_id (List.range (d2 * d1)), range_mul_map]
            apply flatMap_congr'
            intro q _
            apply List.map_congr_left
            intro i _
            simp only [id, Nat.mul_comm]; omega
          · rw [hmd]
            simp only [minDataLen] at ih2
            by_cases hz : d1 = 0
            · simp [hz]
            · by_cases ha : ds.any (fun d => d.1 == 0) = true
              · simp only [ha, if_true] at ih2
                simp [ha, ← ih2]
              · simp only [ha, Bool.false_eq_true, if_false] at ih2
                simp only [hz, ha, false_or, Bool.false_eq_true, if_false]
                have : (d1 - 1) * d2 + d2 = d2 * d1 := by
                  obtain ⟨k, rfl⟩ : ∃ k, d1 = k + 1 := ⟨d1 - 1, by omega⟩
                  rw [Nat.add_sub_cancel, Nat.mul_succ, Nat.mul_comm]
                omega
        · simp [h2] at h

end RtenVerif.Iter
