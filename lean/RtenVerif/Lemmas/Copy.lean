import RtenVerif.Model.Copy

/-! C09 (audit M5): `copy_blocked` writes every destination element exactly the source element
`src[row * row_stride + col * col_stride]`. -/
namespace RtenVerif.Copy

theorem mem_span (lo len x : Nat) : x ∈ span lo len ↔ lo ≤ x ∧ x < lo + len := by
  simp only [span, List.mem_map, List.mem_range]
  constructor
  · rintro ⟨a, ha, rfl⟩; omega
  · intro h; exact ⟨x - lo, by omega, by omega⟩

theorem block_of (n x : Nat) (hx : x < n) :
    ∃ rb ∈ blocks n, rb.1 ≤ x ∧ x < rb.1 + rb.2 := by
  refine ⟨(64 * (x / 64), min 64 (n - 64 * (x / 64))), ?_, ?_, ?_⟩
  · simp only [blocks, List.mem_map, List.mem_range]
    exact ⟨x / 64, by omega, rfl⟩
  · simp only []; omega
  · simp only []; omega

theorem block_bound (n : Nat) (rb : Nat × Nat) (h : rb ∈ blocks n) : rb.1 + rb.2 ≤ n := by
  simp only [blocks, List.mem_map, List.mem_range] at h
  obtain ⟨b, hb, rfl⟩ := h
  simp only []; omega

theorem tile_of (s l x : Nat) (h : s ≤ x ∧ x < s + l) :
    (∃ t ∈ tileStarts s l, x ∈ span t 4) ∨ x ∈ span (s + 4 * (l / 4)) (l % 4) := by
  by_cases hx : x - s < 4 * (l / 4)
  · left
    refine ⟨s + 4 * ((x - s) / 4), ?_, ?_⟩
    · simp only [tileStarts, List.mem_map, List.mem_range]
      exact ⟨(x - s) / 4, by omega, rfl⟩
    · rw [mem_span]; omega
  · right
    rw [mem_span]; omega

theorem tile_bound (s l t : Nat) (h : t ∈ tileStarts s l) : s ≤ t ∧ t + 4 ≤ s + l := by
  simp only [tileStarts, List.mem_map, List.mem_range] at h
  obtain ⟨a, ha, rfl⟩ := h
  omega

/-- Every write is inside the matrix. -/
theorem writes_valid (rows cols : Nat) (w : W) (h : w ∈ blockedWrites rows cols) :
    w.r < rows ∧ w.c < cols := by
  simp only [blockedWrites, List.mem_flatMap, List.mem_append, List.mem_map] at h
  obtain ⟨rb, hrb, cb, hcb, h⟩ := h
  have hr := block_bound rows rb hrb
  have hc := block_bound cols cb hcb
  rcases h with ⟨rt, hrt, h⟩ | ⟨r, hr', c, hc', rfl⟩
  · have ht := tile_bound _ _ _ hrt
    rcases h with ⟨ct, hct, r, hr', c, hc', rfl⟩ | ⟨r, hr', c, hc', rfl⟩
    · have htc := tile_bound _ _ _ hct
      rw [mem_span] at hr' hc'
      simp only []; omega
    · rw [mem_span] at hr' hc'
      simp only []; omega
  · rw [mem_span] at hr' hc'
    simp only []; omega

/-- Every destination element is written. -/
theorem writes_cover (rows cols r c : Nat) (hr : r < rows) (hc : c < cols) :
    ∃ w ∈ blockedWrites rows cols, w.r = r ∧ w.c = c := by
  obtain ⟨rb, hrb, hr1, hr2⟩ := block_of rows r hr
  obtain ⟨cb, hcb, hc1, hc2⟩ := block_of cols c hc
  simp only [blockedWrites, List.mem_flatMap, List.mem_append, List.mem_map]
  rcases tile_of rb.1 rb.2 r ⟨hr1, hr2⟩ with ⟨rt, hrt, hrm⟩ | hrm
  · rcases tile_of cb.1 cb.2 c ⟨hc1, hc2⟩ with ⟨ct, hct, hcm⟩ | hcm
    · exact ⟨⟨r, c, true⟩, ⟨rb, hrb, cb, hcb, Or.inl ⟨rt, hrt, Or.inl ⟨ct, hct, r, hrm, c, hcm, rfl⟩⟩⟩,
        rfl, rfl⟩
    · exact ⟨⟨r, c, false⟩, ⟨rb, hrb, cb, hcb, Or.inl ⟨rt, hrt, Or.inr ⟨r, hrm, c, hcm, rfl⟩⟩⟩,
        rfl, rfl⟩
  · have hcm : c ∈ span cb.1 cb.2 := by rw [mem_span]; omega
    exact ⟨⟨r, c, false⟩, ⟨rb, hrb, cb, hcb, Or.inr ⟨r, hrm, c, hcm, rfl⟩⟩, rfl, rfl⟩

/-! ### replaying writes -/

theorem fold_length {β : Type} (L : List β) (p : β → Nat) (g : β → Nat) (st : List Nat) :
    (L.foldl (fun st w => st.set (p w) (g w)) st).length = st.length := by
  induction L generalizing st with
  | nil => rfl
  | cons x xs ih => simp only [List.foldl_cons]; rw [ih]; simp

theorem fold_written {β : Type} (L : List β) (p : β → Nat) (g : β → Nat) (st : List Nat)
    (q v : Nat) (hq : q < st.length)
    (hval : ∀ w ∈ L, p w = q → g w = v)
    (h : st.getD q 0 = v ∨ ∃ w ∈ L, p w = q) :
    (L.foldl (fun st w => st.set (p w) (g w)) st).getD q 0 = v := by
  induction L generalizing st with
  | nil =>
    rcases h with h | ⟨w, hw, _⟩
    · exact h
    · cases hw
  | cons x xs ih =>
    simp only [List.foldl_cons]
    apply ih _ (by simpa using hq) (fun w hw => hval w (List.mem_cons_of_mem _ hw))
    by_cases hx : p x = q
    · left
      subst hx
      simp only [List.getD_eq_getElem?_getD, List.getElem?_set_self hq, Option.getD_some]
      exact hval x List.mem_cons_self rfl
    · rcases h with h | ⟨w, hw, hpw⟩
      · left
        simp only [List.getD_eq_getElem?_getD, List.getElem?_set_ne hx]
        simpa [List.getD_eq_getElem?_getD] using h
      · right
        rcases List.mem_cons.mp hw with rfl | hw
        · exact absurd hpw hx
        · exact ⟨w, hw, hpw⟩

/-- **`copy_blocked` is a correct strided-to-contiguous copy**: the output has `rows * cols`
elements and element `(r, c)` (at `r * cols + c`) is the source element at
`r * row_stride + c * col_stride` — whichever kernel wrote it. -/
theorem copyBlocked_correct (rows cols rs cs : Nat) (src : Nat → Nat) :
    (copyBlocked rows cols rs cs src).length = rows * cols ∧
    ∀ r c, r < rows → c < cols →
      (copyBlocked rows cols rs cs src).getD (r * cols + c) 0 = src (r * rs + c * cs) := by
  refine ⟨?_, ?_⟩
  · unfold copyBlocked; rw [fold_length]; simp
  · intro r c hr hc
    unfold copyBlocked
    apply fold_written
    · rw [List.length_replicate]
      calc r * cols + c < r * cols + cols := by omega
        _ = (r + 1) * cols := by rw [Nat.succ_mul]
        _ ≤ rows * cols := Nat.mul_le_mul_right cols (by omega)
    · intro w hw hp
      obtain ⟨hwr, hwc⟩ := writes_valid rows cols w hw
      -- same destination ⇒ same (row, col)
      have hrc : w.r = r ∧ w.c = c := by
        have h1 : (w.r * cols + w.c) % cols = (r * cols + c) % cols := by rw [hp]
        rw [Nat.mul_comm w.r, Nat.mul_comm r, Nat.mul_add_mod, Nat.mul_add_mod,
          Nat.mod_eq_of_lt hwc, Nat.mod_eq_of_lt hc] at h1
        refine ⟨?_, h1⟩
        rw [h1] at hp
        have : w.r * cols = r * cols := by omega
        exact Nat.eq_of_mul_eq_mul_right (by omega) this
      obtain ⟨e1, e2⟩ := hrc
      unfold readOff useTranspose
      rw [e1, e2]
      split
      · rename_i ht
        simp only [Bool.and_eq_true, beq_iff_eq] at ht
        rw [ht.1]
        congr 1
        omega
      · rfl
    · right
      obtain ⟨w, hw, e1, e2⟩ := writes_cover rows cols r c hr hc
      exact ⟨w, hw, by rw [e1, e2]⟩

end RtenVerif.Copy
