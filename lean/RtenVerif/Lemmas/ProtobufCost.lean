import RtenVerif.Lemmas.ProtobufDecode

/-! C38 lemmas, part 3: bounds on the work counter (`nextFieldN`, `packed*N`, `consumeSteps`). -/
namespace RtenVerif.Protobuf

theorem readValueN_le_one (wt : UInt64) : readValueN wt ≤ 1 := by
  unfold readValueN; split <;> omega

theorem nextFieldN_le_two (d : Bytes) (pos end_ : UInt64) : nextFieldN d pos end_ ≤ 2 := by
  unfold nextFieldN
  split
  · rename_i tag p1 htag
    have := readValueN_le_one (tag &&& 7); omega
  · omega

section
variable {d : Bytes} (hsz : d.size < UInt64.size) {pos end_ : UInt64}
  (hpe : pos.toNat ≤ end_.toNat) (hes : end_.toNat ≤ d.size)
include hsz hpe hes

/-- Every read counted for the value part consumed at least one byte. -/
theorem readValue_ok_reads {wt : UInt64} {fv : FieldValue} {p2 len : UInt64}
    (h : readValue d wt pos end_ = .ok (fv, p2, len)) :
    readValueN wt ≤ p2.toNat - pos.toNat := by
  have h4 : (4 : UInt64).toNat = 4 := rfl
  have h8 : (8 : UInt64).toNat = 8 := rfl
  unfold readValue at h
  unfold readValueN
  split at h
  · rename_i hw
    split at h
    · rename_i hv; cases h
      have := lrReadVarint_ok hsz hpe hes hv
      split <;> omega
    · cases h
    · cases h
  · split at h
    · split at h
      · rename_i hv; cases h
        have := (lrReadFixed_spec hsz hpe hes 8).ok _ hv
        split <;> omega
      · cases h
    · split at h
      · split at h
        · rename_i hv; cases h
          have := lrReadVarint_ok hsz hpe hes hv
          split <;> omega
        · cases h
        · cases h
      · split at h
        · rename_i h0 h1 h2 h3
          cases h
          rw [if_neg]
          · omega
          · rw [h3]; decide
        · split at h
          · rename_i h0 h1 h2 h3 h4'
            cases h
            rw [if_neg]
            · omega
            · rw [h4']; decide
          · split at h
            · split at h
              · rename_i hv; cases h
                have := (lrReadFixed_spec hsz hpe hes 4).ok _ hv
                split <;> omega
              · cases h
            · cases h

/-- Reads made by a successful `Fields::next` never exceed the header bytes it consumed. -/
theorem nextFieldN_field {num : UInt64} {fv : FieldValue} {p fend : UInt64}
    (h : nextField d pos end_ = .field num fv p fend) :
    nextFieldN d pos end_ ≤ p.toNat - pos.toNat := by
  unfold nextField at h
  unfold nextFieldN
  split at h
  · cases h
  · cases h
  · rename_i tag p1 htag
    have ht := lrReadVarint_ok hsz hpe hes htag
    rw [htag]
    simp only []
    split at h
    · cases h
    · rename_i fv' p2 len hval
      have hv := readValue_ok hsz (pos := p1) (by omega) hes hval
      have hr := readValue_ok_reads hsz (pos := p1) (by omega) hes hval
      split at h
      · cases h; omega
      · cases h

/-- Whatever `Fields::next` returns, it made at most `(end − pos) + 1` reads. -/
theorem nextFieldN_le_len : nextFieldN d pos end_ ≤ (end_.toNat - pos.toNat) + 1 := by
  unfold nextFieldN
  split
  · rename_i tag p1 htag
    have ht := lrReadVarint_ok hsz hpe hes htag
    have := readValueN_le_one (tag &&& 7)
    omega
  · omega

end

section
variable {d : Bytes} (hsz : d.size < UInt64.size)
include hsz

theorem packedVarintsN_spec (conv : UInt64 → UInt64) {end_ : UInt64} (hes : end_.toNat ≤ d.size) :
    ∀ (k : Nat) (pos : UInt64) (acc : List UInt64), pos.toNat ≤ end_.toNat →
      end_.toNat - pos.toNat < k →
      packedVarintsN d k pos end_ ≤ (end_.toNat - pos.toNat) + 1 ∧
      ∀ xs p2, packedVarints d conv k pos end_ acc = .ok (xs, p2) →
        packedVarintsN d k pos end_ ≤ (p2.toNat - pos.toNat) + 1 := by
  intro k
  induction k with
  | zero => intro pos acc _ h; omega
  | succ k ih =>
    intro pos acc hpe hk
    unfold packedVarintsN packedVarints
    cases hv : lrReadVarint d pos end_ with
    | ok v p =>
      simp only []
      have := lrReadVarint_ok hsz hpe hes hv
      have ih' := ih p (conv v :: acc) (by omega) (by omega)
      have hps := packedVarints_spec hsz conv hes k p (conv v :: acc) (by omega) (by omega)
      refine ⟨by omega, ?_⟩
      intro xs p2 h
      have := ih'.2 xs p2 h
      have := hps.1 xs p2 h
      omega
    | eof p =>
      simp only []
      refine ⟨by omega, ?_⟩
      intro xs p2 h; omega
    | invalid =>
      simp only []
      refine ⟨by omega, ?_⟩
      intro xs p2 h; omega

theorem packedFixedN_spec {n : UInt64} (hn : 0 < n.toNat) {end_ : UInt64} (hes : end_.toNat ≤ d.size) :
    ∀ (k : Nat) (pos : UInt64) (acc : List UInt64), pos.toNat ≤ end_.toNat →
      end_.toNat - pos.toNat < k →
      packedFixedN d n k pos end_ ≤ (end_.toNat - pos.toNat) + 1 ∧
      ∀ xs p2, packedFixed d n k pos end_ acc = .ok (xs, p2) →
        packedFixedN d n k pos end_ ≤ (p2.toNat - pos.toNat) + 1 := by
  intro k
  induction k with
  | zero => intro pos acc _ h; omega
  | succ k ih =>
    intro pos acc hpe hk
    unfold packedFixedN packedFixed
    cases hv : lrReadFixed d pos end_ n with
    | ok p =>
      simp only []
      have := (lrReadFixed_spec hsz hpe hes n).ok _ hv
      have ih' := ih p (leBytes d pos.toNat n.toNat :: acc) (by omega) (by omega)
      have hps := packedFixed_spec hsz hn hes k p (leBytes d pos.toNat n.toNat :: acc) (by omega) (by omega)
      refine ⟨by omega, ?_⟩
      intro xs p2 h
      have := ih'.2 xs p2 h
      have := hps.1 xs p2 h
      omega
    | error e =>
      simp only []
      refine ⟨by omega, ?_⟩
      intro xs p2 h; omega

end


section
variable {d : Bytes} (hsz : d.size < UInt64.size) {p fend : UInt64}
  (hpf : p.toNat ≤ fend.toNat) (hfs : fend.toNat ≤ d.size)
include hsz hpf hfs

theorem blobSteps_spec (utf8 : Bool) (l : UInt64) :
    (match lrReadBytes d p fend l with | .ok _ => l.toNat | .error _ => 0) ≤ (fend.toNat - p.toNat) + 1 ∧
    ∀ v p2, consumeBlob d utf8 p fend l = .ok (v, p2) →
      (match lrReadBytes d p fend l with | .ok _ => l.toNat | .error _ => 0) ≤ (p2.toNat - p.toNat) + 1 := by
  unfold consumeBlob
  cases hv : lrReadBytes d p fend l with
  | ok q =>
    simp only []
    have := (lrReadBytes_spec hsz hpf hfs l).ok _ hv
    refine ⟨by omega, ?_⟩
    intro v p2 h
    split at h
    · cases h; omega
    · cases h
  | error e =>
    simp only []
    exact ⟨by omega, fun _ _ _ => by omega⟩

theorem packedSteps_spec {loop : UInt64 → UInt64 → Except Err (List UInt64 × UInt64)}
    {loopN : UInt64 → UInt64 → Nat} (l : UInt64)
    (hloop : ∀ e2 : UInt64, p.toNat ≤ e2.toNat → e2.toNat ≤ fend.toNat →
      loopN p e2 ≤ (e2.toNat - p.toNat) + 1 ∧
      ∀ xs p2, loop p e2 = .ok (xs, p2) → loopN p e2 ≤ (p2.toNat - p.toNat) + 1) :
    (match lrSub p fend l with | .ok e2 => loopN p e2 | .error _ => 0) ≤ (fend.toNat - p.toNat) + 1 ∧
    ∀ v p2, consumePacked loop p fend l = .ok (v, p2) →
      (match lrSub p fend l with | .ok e2 => loopN p e2 | .error _ => 0) ≤ (p2.toNat - p.toNat) + 1 := by
  unfold consumePacked
  cases hs : lrSub p fend l with
  | ok e2 =>
    simp only []
    have := (lrSub_spec hsz hpf hfs l).ok _ hs
    have hl := hloop e2 (by omega) (by omega)
    refine ⟨by omega, ?_⟩
    intro v p2 h
    cases hr : loop p e2 with
    | ok r =>
      obtain ⟨xs, q⟩ := r
      rw [hr] at h
      simp only [] at h
      cases h
      exact hl.2 xs _ hr
    | error e =>
      rw [hr] at h
      cases h
  | error e =>
    simp only []
    exact ⟨by omega, fun _ _ _ => by omega⟩

/-- Work done on a field body is at most its length + 1, and at most the consumed length + 1. -/
theorem consumeSteps_spec (fuel : Nat) (hfuel : fend.toNat - p.toNat < fuel) (k : Kind) (fv : FieldValue) :
    consumeSteps d fuel k fv p fend ≤ (fend.toNat - p.toNat) + 1 ∧
    ∀ v p2, consumeField d fuel k fv p fend = .ok (v, p2) →
      consumeSteps d fuel k fv p fend ≤ (p2.toNat - p.toNat) + 1 := by
  have hpv : ∀ conv (e2 : UInt64), p.toNat ≤ e2.toNat → e2.toNat ≤ fend.toNat →
      packedVarintsN d fuel p e2 ≤ (e2.toNat - p.toNat) + 1 ∧
      ∀ xs p2, packedVarints d conv fuel p e2 [] = .ok (xs, p2) →
        packedVarintsN d fuel p e2 ≤ (p2.toNat - p.toNat) + 1 :=
    fun conv e2 h1 h2 => packedVarintsN_spec hsz conv (by omega) fuel p [] h1 (by omega)
  have h4 : (0 : Nat) < (4 : UInt64).toNat := by decide
  have h8 : (0 : Nat) < (8 : UInt64).toNat := by decide
  have hf4 : ∀ (e2 : UInt64), p.toNat ≤ e2.toNat → e2.toNat ≤ fend.toNat →
      packedFixedN d 4 fuel p e2 ≤ (e2.toNat - p.toNat) + 1 ∧
      ∀ xs p2, packedFixed d 4 fuel p e2 [] = .ok (xs, p2) →
        packedFixedN d 4 fuel p e2 ≤ (p2.toNat - p.toNat) + 1 :=
    fun e2 h1 h2 => packedFixedN_spec hsz h4 (by omega) fuel p [] h1 (by omega)
  have hf8 : ∀ (e2 : UInt64), p.toNat ≤ e2.toNat → e2.toNat ≤ fend.toNat →
      packedFixedN d 8 fuel p e2 ≤ (e2.toNat - p.toNat) + 1 ∧
      ∀ xs p2, packedFixed d 8 fuel p e2 [] = .ok (xs, p2) →
        packedFixedN d 8 fuel p e2 ≤ (p2.toNat - p.toNat) + 1 :=
    fun e2 h1 h2 => packedFixedN_spec hsz h8 (by omega) fuel p [] h1 (by omega)
  cases fv <;> cases k <;> simp only [consumeSteps, consumeField] <;>
    first
      | exact ⟨by omega, fun _ _ _ => by omega⟩
      | exact blobSteps_spec hsz hpf hfs _ _
      | exact packedSteps_spec hsz hpf hfs (loop := fun a b => packedVarints d signExt32 fuel a b [])
          (loopN := fun a b => packedVarintsN d fuel a b) _ (hpv signExt32)
      | exact packedSteps_spec hsz hpf hfs (loop := fun a b => packedVarints d id fuel a b [])
          (loopN := fun a b => packedVarintsN d fuel a b) _ (hpv id)
      | exact packedSteps_spec hsz hpf hfs (loop := fun a b => packedFixed d 4 fuel a b [])
          (loopN := fun a b => packedFixedN d 4 fuel a b) _ hf4
      | exact packedSteps_spec hsz hpf hfs (loop := fun a b => packedFixed d 8 fuel a b [])
          (loopN := fun a b => packedFixedN d 8 fuel a b) _ hf8

end

end RtenVerif.Protobuf
