import RtenVerif.Lemmas.IterOffsets

/-!
C07 lemmas, part 4: iterators that map offsets to sub-view items (`Lanes`, `InnerIter`)
refine the deque over the mapped abstraction.
-/
namespace RtenVerif.Iter

theorem mapOps_nextOk {κ : Type} (f : Nat → κ) :
    NextOk (fun s => ((Offsets.next s).1.map f, (Offsets.next s).2)) OffInv
      (fun s => (absO s).map f) := by
  intro s hs
  obtain ⟨h1, h2, h3⟩ := offsets_next s hs
  refine ⟨?_, ?_, h3⟩
  · simp only [h1, List.head?_map]
  · simp only [h2, List.map_tail]

theorem mapOps_backOk {κ : Type} (f : Nat → κ) :
    BackOk (fun s => ((Offsets.nextBack s).1.map f, (Offsets.nextBack s).2)) OffInv
      (fun s => (absO s).map f) := by
  intro s hs
  obtain ⟨h1, h2, h3⟩ := offsets_nextBack s hs
  refine ⟨?_, ?_, h3⟩
  · simp only [h1, List.getLast?_map]
  · simp only [h2, List.map_dropLast]

/-- `Lanes`/`InnerIter`-style iterators refine the deque over the mapped offsets. -/
theorem mapOps_refines {κ : Type} (f : Nat → κ) :
    Refines (mapOps f) OffInv (fun s => (absO s).map f) where
  next := mapOps_nextOk f
  nextBack := mapOps_backOk f
  nth := fun s n hs => by
    have := defaultNth_spec (mapOps_nextOk f) n s hs
    simpa [mapOps, List.map_drop] using this
  len := fun s _ => by simp [mapOps, offsets_len]
  fold := fun s hs => by
    show (Offsets.fold s).map f = _
    have := offsets_refines.fold s hs
    simp only [Offsets.ops] at this
    rw [this]
  rev := fun s hs => by
    show drainBack _ (Offsets.len s) s = _
    rw [← List.map_reverse]
    have := drainBack_spec (mapOps_backOk f) (Offsets.len s) s hs (by simp [offsets_len])
    simpa using this
  splitOk := fun s k hs hk => by
    obtain ⟨a, b, h1, h2, h3, h4, h5⟩ := offsets_split s k hs (by simpa using hk)
    exact ⟨a, b, h1, by simp [h2, List.map_take], by simp [h3, List.map_drop], h4, h5⟩
  splitPanic := fun s k _ hk => offsets_splitPanic s k (by simpa using hk)

end RtenVerif.Iter
