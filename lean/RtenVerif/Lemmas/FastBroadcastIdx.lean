/-
Positional reading of the `cycles` / `repeats` sequence (C14 T1, index form):
element `i` of "every element `r` times, the whole `c` times" is `x[(i / r) mod |x|]`.
-/
import RtenVerif.Lemmas.FastBroadcast
namespace RtenVerif.FastBroadcast

theorem length_flatMap_replicate {α : Type} (x : List α) (r : Nat) :
    (x.flatMap (List.replicate r)).length = x.length * r := by
  induction x with
  | nil => simp
  | cons a xs ih => simp [List.flatMap_cons, ih, Nat.succ_mul, Nat.add_comm]

theorem getElem?_flatMap_replicate {α : Type} (r : Nat) (hr : 0 < r) :
    ∀ (x : List α) (i : Nat), (x.flatMap (List.replicate r))[i]? = x[i / r]?
  | [], i => by simp
  | a :: xs, i => by
    rw [List.flatMap_cons, List.getElem?_append, List.length_replicate]
    by_cases hi : i < r
    · simp [hi, Nat.div_eq_of_lt hi, List.getElem?_replicate]
    · have hle : r ≤ i := Nat.le_of_not_lt hi
      rw [if_neg hi, getElem?_flatMap_replicate r hr xs (i - r), Nat.div_eq_sub_div hr hle]
      simp

theorem getElem?_cycle {α : Type} (L : List α) : ∀ (c i : Nat), i < c * L.length →
    ((List.replicate c L).flatten)[i]? = L[i % L.length]?
  | 0, i, h => by simp at h
  | c + 1, i, h => by
    rw [List.replicate_succ, List.flatten_cons, List.getElem?_append]
    by_cases hi : i < L.length
    · simp [hi, Nat.mod_eq_of_lt hi]
    · have hle : L.length ≤ i := Nat.le_of_not_lt hi
      rw [if_neg hi, getElem?_cycle L c (i - L.length) (by rw [Nat.succ_mul] at h; omega),
        Nat.mod_eq_sub_mod hle]

theorem length_cycleRepeat {α : Type} (c r : Nat) (x : List α) :
    (cycleRepeat c r x).length = c * r * x.length := by
  unfold cycleRepeat
  rw [List.length_flatten, List.map_replicate, List.sum_replicate_nat, length_flatMap_replicate]
  rw [Nat.mul_assoc, Nat.mul_comm r]

theorem getElem?_cycleRepeat {α : Type} (c r : Nat) (x : List α) (i : Nat)
    (hi : i < c * r * x.length) : (cycleRepeat c r x)[i]? = x[(i / r) % x.length]? := by
  have hr : 0 < r := by
    cases r with
    | zero => simp at hi
    | succ r => exact Nat.succ_pos r
  unfold cycleRepeat
  rw [getElem?_cycle _ c i (by rw [length_flatMap_replicate]; rw [Nat.mul_assoc, Nat.mul_comm r] at hi; exact hi),
    getElem?_flatMap_replicate r hr, length_flatMap_replicate, Nat.mod_mul_left_div_self]

end RtenVerif.FastBroadcast
