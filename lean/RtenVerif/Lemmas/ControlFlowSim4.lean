import RtenVerif.Lemmas.ControlFlowSim3

/-!
# `runPlan = evalG`: one step, all steps, whole nested runs (C24.T1, fragment)
-/
namespace RtenVerif.ControlFlow

variable {P V : Type}

theorem flags_map_snd (F : V × Nat → Bool × V) (hF : ∀ p, (F p).2 = p.1) :
    ∀ (l : List V) (k : Nat), ((l.zipIdx k).map F).map (·.2) = l
  | [], _ => rfl
  | a :: l, k => by
    simp only [List.zipIdx_cons, List.map_cons, hF]
    rw [flags_map_snd F hF l (k + 1)]

/-- One step. `hS`: no operator runs in place (fragment restriction). -/
theorem step_sim (S : Sem P V) (hS : ∀ k, S.inPlaceIdx k = []) (f : Nat) (rec : Runner P V)
    (ev : Env V → Graph P V → List V → Except Err (List V)) (href : RefHyp f rec ev)
    (g : Graph P V) (views : Env V) (E : List (Frame V)) (σp : Env V) (ctx : Ctx g views E σp)
    (op : Op P V) (hop : op ∈ g.ops) (hwf : OpWf f g op) (rest : List (Op P V)) (st : St V)
    (b : Env V) (inv : Inv g views E σp (op :: rest) st b) :
    Rel (fun st' σ' => ∃ b', σ' = b' ++ σp ∧ Inv g views E σp rest st' b')
      (stepOp S rec g views st op) (evalOp S false ev (b ++ σp) op) := by
  cases op with
  | prim k ins out =>
    have hc : candidates S k ins st.temp = [] := by simp [candidates, hS k]
    have hl : lookups (opLookup views st) ins = lookups (look (b ++ σp)) ins :=
      lookups_congr _ _ ins (fun n hn => inv.agree n (needed_head g _ rest n (Or.inl hn)))
    simp only [stepOp, evalOp, hc, List.isEmpty_nil, Bool.not_true, Bool.false_and,
      Bool.false_eq_true, if_false, collect_nil_eq_lookups, hl]
    cases hlk : lookups (look (b ++ σp)) ins with
    | error e => simp [Rel]
    | ok vs =>
      cases hr : S.run k vs with
      | none => simp [Rel, hr]
      | some v =>
        simp only [Rel, hr]
        refine ⟨(out, v) :: b, rfl, ?_⟩
        have := inv_finish g views E σp ctx (.prim k ins out) hop rest st st b [v] inv rfl rfl
          (fun m => Or.inl rfl)
        simpa [Op.outs, deps_prim] using this
  | ifOp c t e outs =>
    obtain ⟨hnr, hwt, hwe, hdt, hde⟩ := hwf
    have hfacts := extract_facts g (.ifOp c t e outs) st hnr
    have hout : ∀ sub : Graph P V, wfG f sub = true → ∀ n, n ∈ sub.outputs → n ∈ sub.defs := by
      intro sub hw
      cases f with
      | zero => simp [wfG] at hw
      | succ f' => exact (wfG_succ f' sub hw).2.2.1
    have hct := child_hyps g views E σp ctx _ hop rest st b inv hnr t
      (fun n hn => by simp only [Op.capNames, List.mem_append]; left; exact hn)
      (fun n hn => by simp only [Op.allDefs, List.mem_append]; left; exact hn) hdt (hout t hwt)
    have hce := child_hyps g views E σp ctx _ hop rest st b inv hnr e
      (fun n hn => by simp only [Op.capNames, List.mem_append]; right; exact hn)
      (fun n hn => by simp only [Op.allDefs, List.mem_append]; right; exact hn) hde (hout e hwe)
    have hagc := inv.agree c (needed_head g _ rest c (Or.inl (by simp [Op.directInputs])))
    have hcin : c ∈ (Op.ifOp c t e outs : Op P V).directInputs := by simp [Op.directInputs]
    simp only [stepOp, evalOp]
    simp only [] at hfacts hct hce
    generalize extractByVal g.caps (Op.ifOp c t e outs).directInputs st
      (deps g (Op.ifOp c t e outs)) = ex at hfacts hct hce ⊢
    obtain ⟨hrc, henv, heff, hins⟩ := hfacts
    have hcond : opLookup views ex.1 c = look (b ++ σp) c := by
      rw [← hagc]; unfold opLookup; rw [hins c hcin, henv]
    rw [hcond]
    cases hlc : look (b ++ σp) c with
    | none => simp [Rel]
    | some cv =>
      cases hi : S.item cv with
      | none => simp [Rel, hi]
      | some x =>
        simp only [hi]
        have hrun : rec (if x ≠ 0 then t else e) []
            ({ locals := g.defs, caps := g.caps, views := views, tempRef := ex.1.temp,
               byVal := ex.2 } :: ex.1.env) = ev (b ++ σp) (if x ≠ 0 then t else e) [] := by
          by_cases hx : x ≠ 0
          · rw [if_pos hx]
            have := href t [] _ (b ++ σp) hwt hct.1 hct.2
            simpa using this
          · rw [if_neg hx]
            have := href e [] _ (b ++ σp) hwe hce.1 hce.2
            simpa using this
        rw [hrun]
        cases hr : ev (b ++ σp) (if x ≠ 0 then t else e) [] with
        | error er => simp [Rel, hr]
        | ok r =>
          by_cases hlen : outs.length > r.length
          · simp [Rel, bindOuts, hlen, hr]
          · simp only [bindOuts, hlen, if_false, Rel, hr]
            refine ⟨outs.zip r ++ b, by simp [List.append_assoc], ?_⟩
            exact inv_finish g views E σp ctx (.ifOp c t e outs) hop rest st ex.1 b r inv henv hrc heff
  | loop trip cond car body outs =>
    obtain ⟨hnr, hwb, hdb⟩ := hwf
    have hfacts := extract_facts g (.loop trip cond car body outs) st hnr
    have hout : ∀ n, n ∈ body.outputs → n ∈ body.defs := by
      cases f with
      | zero => simp [wfG] at hwb
      | succ f' => exact (wfG_succ f' body hwb).2.2.1
    have hcb := child_hyps g views E σp ctx _ hop rest st b inv hnr body
      (fun n hn => by simpa [Op.capNames] using hn) (fun n hn => by simpa [Op.allDefs] using hn)
      hdb hout
    have hag : ∀ n, n ∈ (Op.loop trip cond car body outs : Op P V).directInputs →
        opLookup views st n = look (b ++ σp) n :=
      fun n hn => inv.agree n (needed_head g _ rest n (Or.inl hn))
    simp only [stepOp, evalOp]
    simp only [] at hfacts hcb
    generalize extractByVal g.caps (Op.loop trip cond car body outs).directInputs st
      (deps g (Op.loop trip cond car body outs)) = ex at hfacts hcb ⊢
    obtain ⟨hrc, henv, heff, hins⟩ := hfacts
    have hlook : ∀ n, n ∈ (Op.loop trip cond car body outs : Op P V).directInputs →
        opLookup views ex.1 n = look (b ++ σp) n := by
      intro n hn
      rw [← hag n hn]; unfold opLookup; rw [hins n hn, henv]
    have htrip := optLookup_congr _ _ trip (fun n hn => hlook n (by
      simp only [Op.directInputs, List.mem_append]; left; left; exact hn))
    have hcnd := optLookup_congr _ _ cond (fun n hn => hlook n (by
      simp only [Op.directInputs, List.mem_append]; left; right; exact hn))
    have hcar := lookups_congr _ _ car (fun n hn => hlook n (by
      simp only [Op.directInputs, List.mem_append]; right; exact hn))
    have hrun : (fun (i : Nat) (args : List V) =>
        rec body ((args.zipIdx).map (fun (v, j) => (decide (j < 2) || decide (i ≠ 0), v)))
          ({ locals := g.defs, caps := g.caps, views := views, tempRef := ex.1.temp,
             byVal := ex.2 } :: ex.1.env)) =
        (fun _ args => ev (b ++ σp) body args) := by
      funext i args
      have := href body ((args.zipIdx).map (fun (v, j) => (decide (j < 2) || decide (i ≠ 0), v)))
        _ (b ++ σp) hwb hcb.1 hcb.2
      rw [this, flags_map_snd _ (fun p => rfl) args 0]
    rw [htrip, hcnd, hcar, hrun]
    cases ht : optLookup (look (b ++ σp)) trip with
    | error er => simp [Rel, ht]
    | ok tv =>
      cases hc : optLookup (look (b ++ σp)) cond with
      | error er => simp [Rel, ht, hc]
      | ok cv =>
        cases hcs : lookups (look (b ++ σp)) car with
        | error er => simp [Rel, ht, hc, hcs]
        | ok cs =>
          simp only [ht, hc, hcs]
          cases hr : loopCore S false (fun _ args => ev (b ++ σp) body args) body.inputs.length
              body.outputs.length tv cv cs with
          | error er => simp [Rel, hr]
          | ok r =>
            by_cases hlen : outs.length > r.length
            · simp [Rel, bindOuts, hlen, hr]
            · simp only [bindOuts, hlen, if_false, Rel, hr]
              refine ⟨outs.zip r ++ b, by simp [List.append_assoc], ?_⟩
              exact inv_finish g views E σp ctx (.loop trip cond car body outs) hop rest st ex.1 b r
                inv henv hrc heff

end RtenVerif.ControlFlow
