import RtenVerif.Lemmas.ControlFlowSim3b

/-!
# `runPlan = evalG`: one step, all steps, whole nested runs (C24.T1, fragment)
-/
namespace RtenVerif.ControlFlow

variable {P V : Type}

theorem flags_map_snd (F : V × Nat → Bool × V) (hF : ∀ p, (F p).2 = p.1) :
    ∀ (l : List V) (k : Nat), ((l.zipIdx k).map F).map (·.2) = l
  | [], _ => rfl
  | a :: l, k => by
    simp only [List.zipIdx_cons, List.map_cons, hF]
    rw [flags_map_snd F hF l (k + 1)]

/-- `run_in_place` condition of `run_plan` for a primitive step. -/
def inPlaceCond (S : Sem P V) (g : Graph P V) (st : St V) (k : P) (ins : List Nat) : Bool :=
  !(candidates S k ins st.temp).isEmpty && (candidates S k ins st.temp).all (fun c =>
    st.rc c.2 == 1 && ((look st.temp c.2).isSome || (g.caps.contains c.2 && canTake st.env c.2)))

/-- The rest of a primitive step once the in-place inputs have been taken. -/
def primFinish (S : Sem P V) (views : Env V) (k : P) (ins : List Nat) (out : Nat) (st1 : St V)
    (taken : List (Nat × V)) : Except Err (St V) :=
  match collect views st1 taken 0 ins with
  | .error e => .error e
  | .ok vs =>
    match S.run k vs with
    | none => .error .opError
    | some v => .ok (decDeps { st1 with temp := (out, v) :: st1.temp } ins)

theorem stepOp_prim_eq (S : Sem P V) (rec : Runner P V) (g : Graph P V) (views : Env V) (st : St V)
    (k : P) (ins : List Nat) (out : Nat) :
    stepOp S rec g views st (.prim k ins out) =
      match (if inPlaceCond S g st k ins then takeAll g.caps st (candidates S k ins st.temp)
             else .ok (st, [])) with
      | .error e => .error e
      | .ok (st1, taken) => primFinish S views k ins out st1 taken := rfl

/-- One step. `hS`: every operator declares at most one in-place input (single-output operators
of rten all do). -/
theorem step_sim (S : Sem P V) (hS : ∀ k, (S.inPlaceIdx k).length ≤ 1) (f : Nat) (rec : Runner P V)
    (ev : Env V → Graph P V → List V → Except Err (List V)) (href : RefHyp f rec ev)
    (g : Graph P V) (views : Env V) (σp : Env V) (ctx : Ctx g views σp)
    (op : Op P V) (hop : op ∈ g.ops) (hwf : OpWf f g op) (rest : List (Op P V)) (st : St V)
    (b : Env V) (inv : Inv g views σp (op :: rest) st b) :
    Rel (fun st' σ' => ∃ b', σ' = b' ++ σp ∧ Inv g views σp rest st' b')
      (stepOp S rec g views st op) (evalOp S false ev (b ++ σp) op) := by
  cases op with
  | prim k ins out =>
    have hl : lookups (opLookup views st) ins = lookups (look (b ++ σp)) ins :=
      lookups_congr _ _ ins (fun n hn => inv.agree n (needed_head g _ rest n (Or.inl hn)))
    have hfin : ∀ (st1 : St V) (taken : List (Nat × V)),
        collect views st1 taken 0 ins = lookups (opLookup views st) ins →
        (∀ m, getInput st1.env m = getInput st.env m ∨
          (st.rc m = 1 ∧ m ∈ ins ∧ isValueNode g m = true ∧ (m ∈ g.defs ∨ m ∈ g.caps))) →
        (∀ m, m ∈ g.allDefs → getInput st1.env m = none) → headOK st1.env →
        (∀ n, look (headByVal st1.env) n ≠ none → g.capNames.count n ≤ 1) → st1.rc = st.rc →
        (∀ m, look st1.temp m = look st.temp m ∨ (look st1.temp m = none ∧ st.rc m = 1 ∧ m ∈ ins)) →
        Rel (fun st' σ' => ∃ b', σ' = b' ++ σp ∧ Inv g views σp rest st' b')
          (primFinish S views k ins out st1 taken) (evalOp S false ev (b ++ σp) (.prim k ins out)) := by
      intro st1 taken hcol henv1 hsh1 hhd1 hbo1 hrc heff
      simp only [primFinish, evalOp, hcol, hl]
      cases hlk : lookups (look (b ++ σp)) ins with
      | error e => simp [Rel]
      | ok vs =>
        cases hr : S.run k vs with
        | none => simp [Rel, hr]
        | some v =>
          simp only [Rel, hr]
          refine ⟨(out, v) :: b, rfl, ?_⟩
          have := inv_finish g views σp ctx (.prim k ins out) hop rest st st1 b [v] inv
            (by simpa [deps_prim] using henv1) hsh1 hhd1 hbo1 hrc (by simpa [deps_prim] using heff)
          simpa [Op.outs, deps_prim] using this
    have hnone : Rel (fun st' σ' => ∃ b', σ' = b' ++ σp ∧ Inv g views σp rest st' b')
        (primFinish S views k ins out st []) (evalOp S false ev (b ++ σp) (.prim k ins out)) :=
      hfin st [] (collect_nil_eq_lookups views st ins 0) (fun m => Or.inl rfl) inv.shadowE inv.headok
        inv.byvalonce rfl (fun m => Or.inl rfl)
    rw [stepOp_prim_eq]
    by_cases hip : inPlaceCond S g st k ins = true
    · rcases candidates_spec S k ins st.temp (hS k) with hc | ⟨pos, n, hc, hpos⟩
      · simp [inPlaceCond, hc] at hip
      · rw [if_pos hip, hc]
        have hcond : st.rc n = 1 ∧ ((look st.temp n).isSome = true ∨
            (g.caps.contains n = true ∧ canTake st.env n = true)) := by
          simpa [inPlaceCond, hc] using hip
        obtain ⟨hrc1, hav⟩ := hcond
        have hnin : n ∈ ins := List.mem_of_getElem? hpos
        have hposH : ∀ (hcount : ins.count n = 1) (i m : Nat), ins[i]? = some m →
            (0 + i = pos ↔ m = n) := by
          intro hcount i m hm
          constructor
          · intro hi
            have hi' : i = pos := by omega
            subst hi'
            rw [hpos] at hm
            exact (Option.some.inj hm).symm
          · intro hmn
            subst hmn
            have := count_one_unique ins m i pos hcount hm hpos
            omega
        cases ht : look st.temp n with
        | some v =>
          have htv := takeValue_from_temp g.caps st n v hrc1 ht
          simp only [takeAll, htv]
          have hvn : look views n = none := by
            cases hv : look views n with
            | none => rfl
            | some w =>
              have := inv.disj n (by simp [hv])
              rw [ht] at this; simp at this
          have hval : opLookup views st n = some v := by simp [opLookup, hvn, ht]
          have hcount : ins.count n = 1 := by
            have := rc_one_no_remaining_use g (.prim k ins out) rest st inv.rc n
              (isValueNode_of_valueDefs g n (inv.keys n (by simp [ht])))
              (by rw [deps_prim]; exact hnin) hrc1
            rw [deps_prim] at this; exact this.1
          apply hfin
          · exact collect_single views st _ pos n v hval
              (fun m hm => by simp only [opLookup]; rw [look_erase_ne _ _ _ hm]) ins 0
              (hposH hcount)
          · exact fun m => Or.inl rfl
          · exact inv.shadowE
          · exact inv.headok
          · exact inv.byvalonce
          · rfl
          · intro m
            by_cases hm : m = n
            · right; subst hm; exact ⟨look_erase_self _ _, hrc1, hnin⟩
            · left; exact look_erase_ne _ _ _ hm
        | none =>
          have hg : g.caps.contains n = true ∧ canTake st.env n = true := by
            rcases hav with h | h
            · rw [ht] at h; simp at h
            · exact h
          obtain ⟨v, htk, hgi⟩ := takeInput_value st.env n inv.headok hg.2
          have htv := takeValue_from_env g.caps st n hrc1 ht hg.1
          simp only [takeAll, htv, htk]
          have hnd : n ∉ g.defs := by
            intro hd
            have := caps_not_def g n hd
            rw [hg.1] at this; simp at this
          have hvn : look views n = none := by
            cases hv : look views n with
            | none => rfl
            | some w =>
              exfalso; apply hnd
              have := ctx.vkeys n (by simp [hv])
              simp only [Graph.defs, List.mem_append] at this ⊢
              left; exact this
          have hval : opLookup views st n = some v := by simp [opLookup, hvn, ht, hgi]
          have hcap : n ∈ g.caps := by simpa using hg.1
          have hisv : isValueNode g n = true := by simp [isValueNode, hcap]
          have hcount : ins.count n = 1 := by
            have := rc_one_no_remaining_use g (.prim k ins out) rest st inv.rc n hisv
              (by rw [deps_prim]; exact hnin) hrc1
            rw [deps_prim] at this; exact this.1
          apply hfin
          · exact collect_single views st _ pos n v hval
              (fun m hm => by simp only [opLookup]; rw [getInput_takeInput_ne _ _ _ hm]) ins 0
              (hposH hcount)
          · intro m
            by_cases hm : m = n
            · right; subst hm; exact ⟨hrc1, hnin, hisv, Or.inr hcap⟩
            · left; exact getInput_takeInput_ne _ _ _ hm
          · exact fun m hm => getInput_takeInput_none _ _ _ (inv.shadowE m hm)
          · exact headOK_takeInput _ _ inv.headok
          · exact fun m hm => inv.byvalonce m (headByVal_takeInput _ _ _ hm)
          · rfl
          · exact fun m => Or.inl rfl
    · rw [if_neg hip]
      exact hnone
  | ifOp c t e outs =>
    obtain ⟨hwt, hwe, hdt, hde⟩ := hwf
    have hnr := noEnvTake_of_once g (.ifOp c t e outs) hop st.env inv.byvalonce
    have hfacts := extract_facts g (.ifOp c t e outs) st hnr
    have hout : ∀ sub : Graph P V, wfG f sub = true → ∀ n, n ∈ sub.outputs → n ∈ sub.defs := by
      intro sub hw
      cases f with
      | zero => simp [wfG] at hw
      | succ f' => exact (wfG_succ f' sub hw).2.2.1
    have hct := child_hyps g views σp ctx _ hop rest st b inv t
      (fun n hn => by simp only [Op.capNames, List.mem_append]; left; exact hn)
      (fun n => by simp only [Op.capNames, List.count_append]; omega)
      (fun n hn => by simp only [Op.allDefs, List.mem_append]; left; exact hn) hdt (hout t hwt)
    have hce := child_hyps g views σp ctx _ hop rest st b inv e
      (fun n hn => by simp only [Op.capNames, List.mem_append]; right; exact hn)
      (fun n => by simp only [Op.capNames, List.count_append]; omega)
      (fun n hn => by simp only [Op.allDefs, List.mem_append]; right; exact hn) hde (hout e hwe)
    have hagc := inv.agree c (needed_head g _ rest c (Or.inl (by simp [Op.directInputs])))
    have hcin : c ∈ (Op.ifOp c t e outs : Op P V).directInputs := by simp [Op.directInputs]
    simp only [stepOp, evalOp]
    simp only [] at hfacts hct hce
    generalize extractByVal g.caps (Op.ifOp c t e outs).directInputs st
      (deps g (Op.ifOp c t e outs)) = ex at hfacts hct hce ⊢
    obtain ⟨hrc, henv, heff, hins⟩ := hfacts
    have hcond : opLookup views ex.1 c = look (b ++ σp) c := by
      rw [← hagc]; unfold opLookup; rw [hins c hcin, henv]
    rw [hcond]
    cases hlc : look (b ++ σp) c with
    | none => simp [Rel]
    | some cv =>
      cases hi : S.item cv with
      | none => simp [Rel, hi]
      | some x =>
        simp only [hi]
        have hrun : rec (if x ≠ 0 then t else e) []
            ({ locals := g.defs, caps := g.caps, views := views, tempRef := ex.1.temp,
               byVal := ex.2 } :: ex.1.env) = ev (b ++ σp) (if x ≠ 0 then t else e) [] := by
          by_cases hx : x ≠ 0
          · rw [if_pos hx]
            have := href t [] _ (b ++ σp) hwt hct.1 hct.2.1 hct.2.2.1 hct.2.2.2
            simpa using this
          · rw [if_neg hx]
            have := href e [] _ (b ++ σp) hwe hce.1 hce.2.1 hce.2.2.1 hce.2.2.2
            simpa using this
        rw [hrun]
        cases hr : ev (b ++ σp) (if x ≠ 0 then t else e) [] with
        | error er => simp [Rel, hr]
        | ok r =>
          by_cases hlen : outs.length > r.length
          · simp [Rel, bindOuts, hlen, hr]
          · simp only [bindOuts, hlen, if_false, Rel, hr]
            refine ⟨outs.zip r ++ b, by simp [List.append_assoc], ?_⟩
            exact inv_finish g views σp ctx (.ifOp c t e outs) hop rest st ex.1 b r inv
              (fun m => Or.inl (by rw [henv])) (fun m hm => by rw [henv]; exact inv.shadowE m hm)
              (by rw [henv]; exact inv.headok) (by rw [henv]; exact inv.byvalonce) hrc heff
  | loop trip cond car body outs =>
    obtain ⟨hwb, hdb⟩ := hwf
    have hnr := noEnvTake_of_once g (.loop trip cond car body outs) hop st.env inv.byvalonce
    have hfacts := extract_facts g (.loop trip cond car body outs) st hnr
    have hout : ∀ n, n ∈ body.outputs → n ∈ body.defs := by
      cases f with
      | zero => simp [wfG] at hwb
      | succ f' => exact (wfG_succ f' body hwb).2.2.1
    have hcb := child_hyps g views σp ctx _ hop rest st b inv body
      (fun n hn => by simpa [Op.capNames] using hn) (fun n => by simp [Op.capNames])
      (fun n hn => by simpa [Op.allDefs] using hn)
      hdb hout
    have hag : ∀ n, n ∈ (Op.loop trip cond car body outs : Op P V).directInputs →
        opLookup views st n = look (b ++ σp) n :=
      fun n hn => inv.agree n (needed_head g _ rest n (Or.inl hn))
    simp only [stepOp, evalOp]
    simp only [] at hfacts hcb
    generalize extractByVal g.caps (Op.loop trip cond car body outs).directInputs st
      (deps g (Op.loop trip cond car body outs)) = ex at hfacts hcb ⊢
    obtain ⟨hrc, henv, heff, hins⟩ := hfacts
    have hlook : ∀ n, n ∈ (Op.loop trip cond car body outs : Op P V).directInputs →
        opLookup views ex.1 n = look (b ++ σp) n := by
      intro n hn
      rw [← hag n hn]; unfold opLookup; rw [hins n hn, henv]
    have htrip := optLookup_congr _ _ trip (fun n hn => hlook n (by
      simp only [Op.directInputs, List.mem_append]; left; left; exact hn))
    have hcnd := optLookup_congr _ _ cond (fun n hn => hlook n (by
      simp only [Op.directInputs, List.mem_append]; left; right; exact hn))
    have hcar := lookups_congr _ _ car (fun n hn => hlook n (by
      simp only [Op.directInputs, List.mem_append]; right; exact hn))
    have hrun : (fun (i : Nat) (args : List V) =>
        rec body ((args.zipIdx).map (fun (v, j) => (decide (j < 2) || decide (i ≠ 0), v)))
          ({ locals := g.defs, caps := g.caps, views := views, tempRef := ex.1.temp,
             byVal := ex.2 } :: ex.1.env)) =
        (fun _ args => ev (b ++ σp) body args) := by
      funext i args
      have := href body ((args.zipIdx).map (fun (v, j) => (decide (j < 2) || decide (i ≠ 0), v)))
        _ (b ++ σp) hwb hcb.1 hcb.2.1 hcb.2.2.1 hcb.2.2.2
      rw [this, flags_map_snd _ (fun p => rfl) args 0]
    rw [htrip, hcnd, hcar, hrun]
    cases ht : optLookup (look (b ++ σp)) trip with
    | error er => simp [Rel, ht]
    | ok tv =>
      cases hc : optLookup (look (b ++ σp)) cond with
      | error er => simp [Rel, ht, hc]
      | ok cv =>
        cases hcs : lookups (look (b ++ σp)) car with
        | error er => simp [Rel, ht, hc, hcs]
        | ok cs =>
          simp only [ht, hc, hcs]
          cases hr : loopCore S false (fun _ args => ev (b ++ σp) body args) body.inputs.length
              body.outputs.length tv cv cs with
          | error er => simp [Rel, hr]
          | ok r =>
            by_cases hlen : outs.length > r.length
            · simp [Rel, bindOuts, hlen, hr]
            · simp only [bindOuts, hlen, if_false, Rel, hr]
              refine ⟨outs.zip r ++ b, by simp [List.append_assoc], ?_⟩
              exact inv_finish g views σp ctx (.loop trip cond car body outs) hop rest st ex.1 b r
                inv (fun m => Or.inl (by rw [henv])) (fun m hm => by rw [henv]; exact inv.shadowE m hm)
                (by rw [henv]; exact inv.headok) (by rw [henv]; exact inv.byvalonce) hrc heff

end RtenVerif.ControlFlow
