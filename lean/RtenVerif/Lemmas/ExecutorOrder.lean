import RtenVerif.Lemmas.ExecutorRun
import RtenVerif.Lemmas.PlannerSpec
/-!
# C02 — the naive evaluation does not depend on the order of the plan

For plans whose operators write pairwise disjoint ids (single assignment; true of every graph
with unique producers) and in which every operator runs after its dependencies are available
(C03's `ValidIds`): any valid plan `Q` over the same operators reaches the same final
environment as `P`, provided `P` runs without error.
-/
namespace RtenVerif.Executor
open RtenVerif.Graph RtenVerif.Planner

/-- Distinct plan entries write disjoint sets of ids. -/
def Disj (g : Graph) (plan : List Nat) : Prop :=
  ∀ i ∈ plan, ∀ j ∈ plan, i ≠ j → ∀ v, v ∈ outsOf g i → v ∉ outsOf g j

theorem disj_of_uniqueProducer {g : Graph} (h : UniqueProducer g) (plan : List Nat) : Disj g plan := by
  intro i _ j _ hne v hvi hvj
  unfold outsOf at hvi hvj
  cases hi : getOp g i with
  | none => rw [hi] at hvi; simp at hvi
  | some opi =>
    cases hj : getOp g j with
    | none => rw [hj] at hvj; simp at hvj
    | some opj =>
      rw [hi] at hvi; rw [hj] at hvj
      have h1 := h i opi v hi hvi
      have h2 := h j opj v hj hvj
      rw [h1] at h2
      exact hne (Option.some.inj h2)

theorem val_congr {V : Type} (r : Run V) {E E' : Nat → Option V} {d : Nat} (h : E d = E' d) :
    val r E d = val r E' d := by
  unfold val naiveLook
  rw [h]

theorem val_indep_input {V : Type} (r : Run V) (E E' : Nat → Option V) {d : Nat}
    (h : r.isInput d = true) : val r E d = val r E' d := by
  unfold val naiveLook
  cases getNode r.g d with
  | none => rfl
  | some n =>
    cases n with
    | constant => rfl
    | operator _ => rfl
    | value =>
      simp only
      cases hb : r.borrowed d with
      | some b => rfl
      | none =>
        obtain ⟨o, ho⟩ := isInput_true_owned h hb
        simp only [ho]

theorem val_indep_const {V : Type} (r : Run V) (E E' : Nat → Option V) {d : Nat}
    (h : isConstant r.g d = true) : val r E d = val r E' d := by
  unfold val naiveLook
  unfold isConstant at h
  split at h
  · rename_i hn; rw [hn]
  · simp at h

/-- A dependency that is available from `r0` plus the outputs of `done` has the same naive
value in two environments that agree on those outputs. -/
theorem val_of_avail {V : Type} (r : Run V) {r0 w : List Nat} {E E' : Nat → Option V} {d : Nat}
    (hin : ∀ d ∈ r0, r.isInput d = true) (hav : Avail r.g false (r0 ++ w) d)
    (hag : ∀ v ∈ w, E v = E' v) : val r E d = val r E' d := by
  rcases hav with h | h
  · unfold rContains at h
    rw [Bool.or_eq_true] at h
    rcases h with h | h
    · rw [List.contains_eq_mem, decide_eq_true_eq, List.mem_append] at h
      rcases h with h | h
      · exact val_indep_input r E E' (hin d h)
      · exact val_congr r (hag d h)
    · exact val_indep_const r E E' h
  · simp at h

theorem naiveInputs_congr_mem {V : Type} {f g : Nat → Option V} (l : List (Option Nat))
    (h : ∀ id, some id ∈ l → f id = g id) : naiveInputs f l = naiveInputs g l := by
  induction l with
  | nil => rfl
  | cons x xs ih =>
    have ih' := ih (fun id hid => h id (List.mem_cons_of_mem _ hid))
    cases x with
    | none => simp only [naiveInputs, ih']
    | some id => simp only [naiveInputs, h id List.mem_cons_self, ih']

/-- Shape of a successful naive step, and its transport to an environment that agrees on the
operator's dependencies. -/
theorem naiveStep_transport {V : Type} {ops : Ops V} {r : Run V} {E1 E1' : Nat → Option V} {i : Nat}
    (h : naiveStep ops r nocap E1 i = .ok E1') :
    ∃ op vs, getOp r.g i = some op ∧ op.outputs.length ≤ vs.length ∧
      E1' = naiveStore E1 op.outputs vs ∧
      (∀ E2 : Nat → Option V, (∀ d ∈ opDeps r.g op, val r E1 d = val r E2 d) →
        naiveStep ops r nocap E2 i = .ok (naiveStore E2 op.outputs vs)) := by
  unfold naiveStep at h
  cases hop : getOp r.g i with
  | none => simp [hop] at h
  | some op =>
    simp only [hop] at h
    cases hi : naiveInputs (naiveLook r nocap E1) op.inputs with
    | none => simp [hi] at h
    | some ins =>
      simp only [hi] at h
      cases hr : ops.run i ins (if ops.isSubgraph i = true then
          (capDeps r.g op).map (naiveLook r nocap E1) else []) with
      | none => simp [hr] at h
      | some vs =>
        simp only [hr] at h
        split at h
        · simp at h
        · rename_i hlen
          simp only [Except.ok.injEq] at h
          refine ⟨op, vs, rfl, by omega, h.symm, ?_⟩
          intro E2 hdeps
          unfold naiveStep
          simp only [hop]
          have e1 : naiveInputs (naiveLook r nocap E2) op.inputs = some ins := by
            rw [← hi]
            apply naiveInputs_congr_mem
            intro id hid
            have : id ∈ opDeps r.g op := by
              rw [opDeps_eq]; apply List.mem_append_left
              unfold opInputs; exact List.mem_filterMap.mpr ⟨some id, hid, rfl⟩
            exact (hdeps id this).symm
          have e2 : (capDeps r.g op).map (naiveLook r nocap E2) =
              (capDeps r.g op).map (naiveLook r nocap E1) := by
            apply List.map_congr_left
            intro d hd
            have : d ∈ opDeps r.g op := by rw [opDeps_eq]; exact List.mem_append_right _ hd
            exact (hdeps d this).symm
          simp only [e1, e2, hr, hlen, if_false]

theorem outsOf_eq {g : Graph} {i : Nat} {op : OpNode} (h : getOp g i = some op) :
    outsOf g i = opOutputs op := by
  unfold outsOf; rw [h]

theorem naiveStore_other {V : Type} (E : Nat → Option V) (ids : List (Option Nat)) (vs : List V)
    {v : Nat} (h : v ∉ ids.filterMap id) : naiveStore E ids vs v = E v := by
  rw [naiveStore_apply]
  cases hw : naiveStore (fun _ => none) ids vs v with
  | none => rfl
  | some w => exact absurd (naiveStore_none_mem _ _ _ _ hw) h

theorem naiveStore_written {V : Type} (ids : List (Option Nat)) (vs : List V) (v : Nat)
    (hlen : ids.length ≤ vs.length) (h : v ∈ ids.filterMap id) :
    ∃ w, naiveStore (fun _ => none) ids vs v = some w := by
  induction ids generalizing vs with
  | nil => simp at h
  | cons oid ids ih =>
    cases vs with
    | nil => simp at hlen
    | cons x vs =>
      simp only [List.length_cons, Nat.add_le_add_iff_right] at hlen
      cases oid with
      | none =>
        simp only [naiveStore]
        exact ih vs hlen (by simpa using h)
      | some k =>
        simp only [naiveStore]
        rw [naiveStore_apply]
        cases hw : naiveStore (fun _ => none) ids vs v with
        | some w => exact ⟨w, rfl⟩
        | none =>
          simp only [upd_apply]
          by_cases hv : v = k
          · simp [hv]
          · exfalso
            simp only [List.filterMap_cons, id, List.mem_cons] at h
            rcases h with h | h
            · exact hv h
            · obtain ⟨w, hw'⟩ := ih vs hlen h
              rw [hw] at hw'; simp at hw'

theorem naiveStep_other {V : Type} {ops : Ops V} {r : Run V} {E E' : Nat → Option V} {i v : Nat}
    (h : naiveStep ops r nocap E i = .ok E') (hv : v ∉ outsOf r.g i) : E' v = E v := by
  obtain ⟨op, vs, hop, _, rfl, _⟩ := naiveStep_transport h
  rw [outsOf_eq hop] at hv
  exact naiveStore_other E op.outputs vs hv

theorem naiveSteps_other {V : Type} {ops : Ops V} {r : Run V} (l : List Nat) :
    ∀ {E E' : Nat → Option V} {v : Nat}, naiveSteps ops r nocap E l = .ok E' →
      v ∉ l.flatMap (outsOf r.g) → E' v = E v := by
  induction l with
  | nil => intro E E' v h _; simp only [naiveSteps, Except.ok.injEq] at h; rw [h]
  | cons i is ih =>
    intro E E' v h hv
    simp only [naiveSteps] at h
    cases hs : naiveStep ops r nocap E i with
    | error e => simp [hs] at h
    | ok E1 =>
      simp only [hs] at h
      simp only [List.flatMap_cons, List.mem_append, not_or] at hv
      rw [ih h hv.2, naiveStep_other hs hv.1]

theorem naiveSteps_append {V : Type} {ops : Ops V} {r : Run V} (a b : List Nat) :
    ∀ {E E' : Nat → Option V}, naiveSteps ops r nocap E (a ++ b) = .ok E' →
      ∃ E1, naiveSteps ops r nocap E a = .ok E1 ∧ naiveSteps ops r nocap E1 b = .ok E' := by
  induction a with
  | nil => intro E E' h; exact ⟨E, rfl, h⟩
  | cons i is ih =>
    intro E E' h
    simp only [List.cons_append, naiveSteps] at h ⊢
    cases hs : naiveStep ops r nocap E i with
    | error e => simp [hs] at h
    | ok E1 =>
      simp only [hs] at h ⊢
      exact ih h

/-- Everything the run of `P` tells about one of its entries. -/
theorem plan_at {V : Type} {ops : Ops V} {r : Run V} {P r0 : List Nat} {EP : Nat → Option V}
    (hP : naiveSteps ops r nocap (fun _ => none) P = .ok EP) (hnd : P.Nodup) (hdisj : Disj r.g P)
    (hvP : ValidIds r.g false r0 P) (hin : ∀ d ∈ r0, r.isInput d = true) {i : Nat} (hi : i ∈ P) :
    ∃ (Ei : Nat → Option V) (op : OpNode) (vs : List V),
      getOp r.g i = some op ∧ op.outputs.length ≤ vs.length ∧
      (∀ E2 : Nat → Option V, (∀ d ∈ opDeps r.g op, val r EP d = val r E2 d) →
        naiveStep ops r nocap E2 i = .ok (naiveStore E2 op.outputs vs)) ∧
      (∀ v ∈ outsOf r.g i, EP v = naiveStore Ei op.outputs vs v) := by
  obtain ⟨pre, post, hsplit⟩ := List.append_of_mem hi
  subst hsplit
  obtain ⟨Ei, hpre, hrest⟩ := naiveSteps_append pre (i :: post) hP
  simp only [naiveSteps] at hrest
  cases hs : naiveStep ops r nocap Ei i with
  | error e => simp [hs] at hrest
  | ok E' =>
    simp only [hs] at hrest
    obtain ⟨op, vs, hop, hlen, hE', htr⟩ := naiveStep_transport hs
    obtain ⟨op', hop', hav⟩ := validIds_split hvP rfl
    rw [hop] at hop'
    cases hop'
    have hnd' := List.nodup_append.mp hnd
    have hnd2 := List.nodup_cons.mp hnd'.2.1
    -- ids written before `i` are not written again by `i` or later entries
    have stable_dep : ∀ d ∈ opDeps r.g op, val r Ei d = val r EP d := by
      intro d hd
      apply val_of_avail r hin (hav d hd)
      intro v hv
      rw [List.mem_flatMap] at hv
      obtain ⟨j, hj, hvj⟩ := hv
      symm
      have hEP : naiveSteps ops r nocap Ei (i :: post) = .ok EP := by
        simp only [naiveSteps, hs]; exact hrest
      apply naiveSteps_other (i :: post) hEP
      intro hmem
      rw [List.mem_flatMap] at hmem
      obtain ⟨k, hk, hvk⟩ := hmem
      have hjk : j ≠ k := by
        rintro rfl
        exact hnd'.2.2 j hj j hk rfl
      exact hdisj j (List.mem_append_left _ hj) k (List.mem_append_right _ hk) hjk v hvj hvk
    refine ⟨Ei, op, vs, hop, hlen, ?_, ?_⟩
    · intro E2 h2
      exact htr E2 (fun d hd => (stable_dep d hd).trans (h2 d hd))
    · intro v hv
      have hnot : v ∉ post.flatMap (outsOf r.g) := by
        intro hmem
        rw [List.mem_flatMap] at hmem
        obtain ⟨k, hk, hvk⟩ := hmem
        have hik : i ≠ k := by rintro rfl; exact hnd2.1 hk
        exact hdisj i hi k (List.mem_append_right _ (List.mem_cons_of_mem _ hk)) hik v hv hvk
      rw [naiveSteps_other post hrest hnot, hE']

end RtenVerif.Executor
