import RtenVerif.Model.PlanCache
import RtenVerif.Lemmas.PlannerSpec
import RtenVerif.Props.C03
/-!
# Plan-cache lemmas (C22, C26)

* `sortIds` is a permutation; equal sorted lists ⇒ permutations of each other;
* `PlanOK` (C03's "valid, complete, minimal plan") only depends on *which* ids are supplied
  and requested, not on their order (`PlanOK_congr`);
* a successful `create_plan` certifies its own arguments (`argsOK_of_createPlan_ok`);
* the cache invariant `CacheInv` and its preservation by `get_cached_plan`.
-/
namespace RtenVerif.PlanCache
open RtenVerif.Graph RtenVerif.Planner

/-! ## Sorting -/

theorem insertSorted_perm (x : Nat) (l : List Nat) : (insertSorted x l).Perm (x :: l) := by
  induction l with
  | nil => exact List.Perm.refl _
  | cons y ys ih =>
    simp only [insertSorted]
    split
    · exact List.Perm.refl _
    · exact (List.Perm.cons y ih).trans (List.Perm.swap x y ys)

theorem sortIds_perm (l : List Nat) : (sortIds l).Perm l := by
  induction l with
  | nil => exact List.Perm.refl _
  | cons x xs ih => exact (insertSorted_perm x (sortIds xs)).trans (List.Perm.cons x ih)

theorem perm_of_sortIds_eq {a b : List Nat} (h : sortIds a = sortIds b) : a.Perm b :=
  (sortIds_perm a).symm.trans (h ▸ sortIds_perm b)

/-! ## `PlanOK` depends on the supplied / requested ids only as sets -/

theorem rContains_congr {g : Graph} {r r' : List Nat} (h : ∀ v, v ∈ r ↔ v ∈ r') (d : Nat) :
    rContains g r d = rContains g r' d := by
  unfold rContains
  have : r.contains d = r'.contains d := by
    cases h1 : r.contains d <;> cases h2 : r'.contains d <;> simp_all
  rw [this]

theorem Avail_congr {g : Graph} {am : Bool} {r r' : List Nat} (h : ∀ v, v ∈ r ↔ v ∈ r') {d : Nat} :
    Avail g am r d ↔ Avail g am r' d := by
  unfold Avail
  rw [rContains_congr h]

theorem ValidIds_congr {g : Graph} {am : Bool} :
    ∀ (plan : List Nat) {r r' : List Nat}, (∀ v, v ∈ r ↔ v ∈ r') →
      ValidIds g am r plan → ValidIds g am r' plan := by
  intro plan
  induction plan with
  | nil => intro _ _ _ _; trivial
  | cons i is ih =>
    intro r r' h hv
    obtain ⟨⟨op, hop, hd⟩, hrest⟩ := hv
    refine ⟨⟨op, hop, fun d hdm => (Avail_congr h).mp (hd d hdm)⟩, ?_⟩
    apply ih _ hrest
    intro v
    simp only [List.mem_append, h v]

theorem Needed_congr {g : Graph} {r r' outs outs' : List Nat} (hr : ∀ v, v ∈ r ↔ v ∈ r')
    (ho : ∀ v, v ∈ outs ↔ v ∈ outs') {p : Nat} (h : Needed g r outs p) : Needed g r' outs' p := by
  induction h with
  | root hmem hrc hsrc =>
    exact Needed.root ((ho _).mp hmem) (by rw [← rContains_congr hr]; exact hrc) hsrc
  | step _ hxop hd hrc hsrc ih =>
    exact Needed.step ih hxop hd (by rw [← rContains_congr hr]; exact hrc) hsrc

theorem PlanOK_congr {g : Graph} {am : Bool} {r r' outs outs' plan : List Nat}
    (hr : ∀ v, v ∈ r ↔ v ∈ r') (ho : ∀ v, v ∈ outs ↔ v ∈ outs')
    (h : PlanOK g am r outs plan) : PlanOK g am r' outs' plan := by
  refine ⟨h.nodup, ValidIds_congr plan hr h.valid, ?_, fun i hi => Needed_congr hr ho (h.minimal i hi)⟩
  intro o ho'
  have := h.outputs o ((ho o).mpr ho')
  refine (Avail_congr ?_).mp this
  intro v
  simp only [availAfter, List.mem_append, hr v]

theorem resolvedNew_mem_congr {g : Graph} {ins ins' : List Nat} (h : ins.Perm ins') (caps : Bool) :
    ∀ v, v ∈ resolvedNew g ins caps ↔ v ∈ resolvedNew g ins' caps := by
  intro v
  simp only [resolvedNew, List.mem_append, h.mem_iff]

/-! ## A successful `create_plan` certifies its arguments -/

theorem argsOK_of_createPlan_ok {g : Graph} {ins outs plan : List Nat} {opts : PlanOptions}
    (h : createPlan g ins outs opts = .ok plan) : ArgsOK g ins outs := by
  obtain ⟨h1, h2, h3, h4⟩ := c03_argument_check g ins outs opts
  have ho : outs.Nodup := by
    apply Classical.byContradiction; intro hn; rw [h1 hn] at h; cases h
  have hov : ∀ o ∈ outs, isValueOrConstant g o = true := by
    apply Classical.byContradiction; intro hn; rw [h2 ho hn] at h; cases h
  have hi : ins.Nodup := by
    apply Classical.byContradiction; intro hn; rw [h3 ho hov hn] at h; cases h
  have hiv : ∀ i ∈ ins, isValueOrConstant g i = true := by
    apply Classical.byContradiction; intro hn; rw [h4 ho hov hi hn] at h; cases h
  exact ⟨ho, hov, hi, hiv⟩

theorem ArgsOK_perm {g : Graph} {ins ins' outs outs' : List Nat} (hi : ins.Perm ins')
    (ho : outs.Perm outs') (h : ArgsOK g ins outs) : ArgsOK g ins' outs' := by
  obtain ⟨h1, h2, h3, h4⟩ := h
  exact ⟨ho.nodup_iff.mp h1, fun o hm => h2 o (ho.mem_iff.mpr hm),
    hi.nodup_iff.mp h3, fun i hm => h4 i (hi.mem_iff.mpr hm)⟩

/-! ## The cache invariant -/

/-- Every cached entry was produced by a successful `create_plan` for the ids it is keyed by. -/
def CacheInv (g : Graph) (isSub : Bool) : Option CachedPlan → Prop
  | none => True
  | some c => ∃ ins outs, c = CachedPlan.new ins outs c.plan ∧
      createPlan g ins outs (cacheOpts isSub) = .ok c.plan

theorem matchesFixed_perm {c : CachedPlan} {ins0 outs0 ins outs : List Nat}
    (hc : c = CachedPlan.new ins0 outs0 c.plan) (h : matchesFixed c ins outs = true) :
    ins.Perm ins0 ∧ outs.Perm outs0 := by
  simp only [matchesFixed, Bool.and_eq_true, beq_iff_eq] at h
  obtain ⟨⟨_, hi⟩, ⟨_, ho⟩⟩ := h
  have h1 : c.inputs = sortIds ins0 := by rw [hc]; rfl
  have h2 : c.outputs = sortIds outs0 := by rw [hc]; rfl
  exact ⟨perm_of_sortIds_eq (hi.trans h1), perm_of_sortIds_eq (ho.trans h2)⟩

/-- `get_cached_plan` (as it stands) preserves the invariant, whatever the request. -/
theorem getCachedPlan_inv {g : Graph} {isSub : Bool} {cache : Option CachedPlan} (ins outs : List Nat)
    (h : CacheInv g isSub cache) : CacheInv g isSub (getCachedPlan .fixed g isSub cache ins outs).2 := by
  have hmiss : CacheInv g isSub
      (match createPlan g ins outs (cacheOpts isSub) with
        | .ok p => ((.ok p : Except PlanError (List Nat)), some (CachedPlan.new ins outs p))
        | .error e => (.error e, cache)).2 := by
    cases hp : createPlan g ins outs (cacheOpts isSub) with
    | error e => exact h
    | ok p => exact ⟨ins, outs, rfl, hp⟩
  unfold getCachedPlan
  cases cache with
  | none => exact hmiss
  | some c =>
    simp only
    split
    · exact h
    · exact hmiss

/-- **Hit or miss, the plan handed out is a valid plan for the request it is handed out for**
(C22.T1): the request's ids are well-formed and the plan satisfies C03's `PlanOK` for them. -/
theorem getCachedPlan_ok {g : Graph} {isSub : Bool} {cache : Option CachedPlan} {ins outs plan : List Nat}
    (hinv : CacheInv g isSub cache)
    (h : (getCachedPlan .fixed g isSub cache ins outs).1 = .ok plan) :
    ArgsOK g ins outs ∧ PlanOK g false (resolvedNew g ins isSub) outs plan := by
  have hmiss : (match createPlan g ins outs (cacheOpts isSub) with
        | .ok p => ((.ok p : Except PlanError (List Nat)), some (CachedPlan.new ins outs p))
        | .error e => (.error e, cache)).1 = .ok plan →
      ArgsOK g ins outs ∧ PlanOK g false (resolvedNew g ins isSub) outs plan := by
    intro hm
    cases hp : createPlan g ins outs (cacheOpts isSub) with
    | error e => rw [hp] at hm; cases hm
    | ok p =>
      rw [hp] at hm
      injection hm with hm; subst hm
      have hargs := argsOK_of_createPlan_ok hp
      exact ⟨hargs, c03_plan_ok hargs hp⟩
  unfold getCachedPlan at h
  cases cache with
  | none => exact hmiss h
  | some c =>
    simp only at h
    split at h
    · rename_i hm
      injection h with h; subst h
      obtain ⟨ins0, outs0, hc, hp⟩ := hinv
      obtain ⟨hpi, hpo⟩ := matchesFixed_perm hc hm
      have hargs0 := argsOK_of_createPlan_ok hp
      have hok0 := c03_plan_ok hargs0 hp
      refine ⟨ArgsOK_perm hpi.symm hpo.symm hargs0, ?_⟩
      exact PlanOK_congr (resolvedNew_mem_congr hpi.symm isSub) (fun v => hpo.symm.mem_iff) hok0
    · exact hmiss h

/-- On a miss `get_cached_plan` is exactly `create_plan`. -/
theorem getCachedPlan_cold (v : Ver) (g : Graph) (isSub : Bool) (ins outs : List Nat) :
    (getCachedPlan v g isSub none ins outs).1 = createPlan g ins outs (cacheOpts isSub) := by
  unfold getCachedPlan
  cases createPlan g ins outs (cacheOpts isSub) <;> rfl

/-- A request whose ids are malformed is answered by `create_plan`, hit or miss: a hit is
impossible because every cached key is well-formed. -/
theorem getCachedPlan_of_not_argsOK {g : Graph} {isSub : Bool} {cache : Option CachedPlan}
    {ins outs : List Nat} (hinv : CacheInv g isSub cache) (hbad : ¬ArgsOK g ins outs) :
    getCachedPlan .fixed g isSub cache ins outs =
      (createPlan g ins outs (cacheOpts isSub), cache) := by
  have hne : ∀ p, createPlan g ins outs (cacheOpts isSub) ≠ .ok p :=
    fun p hp => hbad (argsOK_of_createPlan_ok hp)
  have hmiss : (match createPlan g ins outs (cacheOpts isSub) with
        | .ok p => ((.ok p : Except PlanError (List Nat)), some (CachedPlan.new ins outs p))
        | .error e => (.error e, cache)) = (createPlan g ins outs (cacheOpts isSub), cache) := by
    cases hp : createPlan g ins outs (cacheOpts isSub) with
    | error e => rfl
    | ok p => exact absurd hp (hne p)
  unfold getCachedPlan
  cases cache with
  | none => exact hmiss
  | some c =>
    simp only
    split
    · rename_i hm
      obtain ⟨ins0, outs0, hc, hp⟩ := hinv
      obtain ⟨hpi, hpo⟩ := matchesFixed_perm hc hm
      exact absurd (ArgsOK_perm hpi.symm hpo.symm (argsOK_of_createPlan_ok hp)) hbad
    · exact hmiss

/-! ## A cache that always sees the same request is transparent

`If` and `Loop` always issue the same `(input_ids, output_ids)` to the graph of a branch / body
(`If`: no inputs, the branch graph's `output_ids()`; `Loop`: the body graph's input ids in
order, its `output_ids()`), so the body graph's plan cache only ever sees one request.  For such a
cache a hit returns *exactly* what `create_plan` returns — not merely some valid plan. -/

theorem sortIds_length (l : List Nat) : (sortIds l).length = l.length := (sortIds_perm l).length_eq

theorem matchesFixed_new (ins outs p : List Nat) :
    matchesFixed (CachedPlan.new ins outs p) ins outs = true := by
  simp [matchesFixed, CachedPlan.new, sortIds_length]

/-- **A cache hit on the request the entry was created for returns exactly `create_plan`'s plan**
(used by C22 for nested runs and by C25 for repeated runs). -/
theorem getCachedPlan_same_request {g : Graph} {isSub : Bool} {ins outs p : List Nat}
    (hp : createPlan g ins outs (cacheOpts isSub) = .ok p) :
    getCachedPlan .fixed g isSub (some (CachedPlan.new ins outs p)) ins outs =
      (createPlan g ins outs (cacheOpts isSub), some (CachedPlan.new ins outs p)) := by
  have hm : (CachedPlan.new ins outs p).matches .fixed ins outs = true := matchesFixed_new ins outs p
  simp only [getCachedPlan, hm, if_true, hp]
  rfl

/-- The states of a cache that has only ever seen the request `(ins, outs)`. -/
def FixedCache (g : Graph) (isSub : Bool) (ins outs : List Nat) : Option CachedPlan → Prop
  | none => True
  | some c => ∃ p, c = CachedPlan.new ins outs p ∧ createPlan g ins outs (cacheOpts isSub) = .ok p

/-- In such a state `get_cached_plan` for `(ins, outs)` is `create_plan` — hit or miss, success or
error — and the state stays of that form. -/
theorem getCachedPlan_fixed_request {g : Graph} {isSub : Bool} {ins outs : List Nat}
    {cache : Option CachedPlan} (h : FixedCache g isSub ins outs cache) :
    (getCachedPlan .fixed g isSub cache ins outs).1 = createPlan g ins outs (cacheOpts isSub) ∧
      FixedCache g isSub ins outs (getCachedPlan .fixed g isSub cache ins outs).2 := by
  cases cache with
  | none =>
    rw [show getCachedPlan .fixed g isSub none ins outs =
      (match createPlan g ins outs (cacheOpts isSub) with
        | .ok p => (.ok p, some (CachedPlan.new ins outs p))
        | .error e => (.error e, none)) from rfl]
    cases hp : createPlan g ins outs (cacheOpts isSub) with
    | error e => exact ⟨rfl, trivial⟩
    | ok p => exact ⟨rfl, p, rfl, hp⟩
  | some c =>
    obtain ⟨p, rfl, hp⟩ := h
    rw [getCachedPlan_same_request hp]
    exact ⟨rfl, p, rfl, hp⟩

end RtenVerif.PlanCache
