import RtenVerif.Lemmas.RowMajor
import RtenVerif.Lemmas.WF

/-! C09: the storage-window invariant for the copying / reshaping operations and `merge_axes`. -/
namespace RtenVerif.Layout
open RtenVerif.Arr RtenVerif.Overlap

theorem iter_minDataLen_eq (d : Dims) : Iter.minDataLen d = minDataLen d := by
  unfold Iter.minDataLen minDataLen sizes
  rw [List.any_map]
  rfl

theorem minDataLen_contigDims (shape : List Nat) : minDataLen (contigDims shape) = numel shape := by
  obtain ⟨_, h2⟩ := Iter.contig_rowMajor _ _ (contigR_contigDims shape)
  rw [← iter_minDataLen_eq]; exact h2

theorem minDataLen_contiguous (d : Dims) (h : isContiguous d = true) :
    minDataLen d = numel (sizes d) := by
  rw [isContiguous_eq] at h
  obtain ⟨p, hp⟩ := Option.isSome_iff_exists.mp h
  obtain ⟨h1, h2⟩ := Iter.contig_rowMajor d p hp
  have hl := rowMajor_length' d
  rw [h1, List.length_range] at hl
  rw [← iter_minDataLen_eq, h2, hl]

/-- A freshly allocated copy covers its (contiguous) layout exactly. -/
theorem WF_ofArr (A : NArr Nat) (hlen : A.data.length = numel A.shape) : WF (TState.ofArr A).view := by
  unfold WF TState.ofArr
  simp only []
  rw [minDataLen_contigDims, hlen]
  exact Nat.le_refl _

/-! ### merge_axes keeps `min_data_len` -/

/-- The two ingredients of `min_data_len`. -/
def mdParts (d : Dims) : Bool × Nat :=
  ((sizes d).any (· == 0), (d.map (fun p => (p.1 - 1) * p.2)).sum)

theorem minDataLen_parts (d : Dims) :
    minDataLen d = if (mdParts d).1 then 0 else (mdParts d).2 + 1 := rfl

theorem mdParts_cons (p : Nat × Nat) (d : Dims) :
    mdParts (p :: d) = ((p.1 == 0) || (mdParts d).1, (p.1 - 1) * p.2 + (mdParts d).2) := by
  simp [mdParts, sizes]

theorem merge_arith (a b ist : Nat) :
    ((a + 1) * (b + 1) - 1) * ist = b * (ist * (a + 1)) + a * ist := by
  have e : (a + 1) * (b + 1) - 1 = (a + 1) * b + a := by rw [Nat.mul_succ]; omega
  rw [e, Nat.add_mul]
  congr 1
  ac_rfl

/-- One `merge_axes` step changes neither "some size is 0" nor, when no size is 0, the largest
offset. -/
theorem mergeStep_parts (acc : Dims) (x : Nat × Nat) :
    (mdParts (mergeStep acc x)).1 = (mdParts (x :: acc)).1 ∧
    ((mdParts (x :: acc)).1 = false → (mdParts (mergeStep acc x)).2 = (mdParts (x :: acc)).2) := by
  cases acc with
  | nil => exact ⟨rfl, fun _ => rfl⟩
  | cons q rest =>
    obtain ⟨isz, ist⟩ := q
    obtain ⟨o1, o2⟩ := x
    simp only [mergeStep]
    split
    · rename_i hm
      simp only [mdParts_cons]
      refine ⟨?_, ?_⟩
      · have e : (isz * o1 == 0) = ((o1 == 0) || (isz == 0)) := by
          rw [Bool.eq_iff_iff]; simp [Nat.mul_eq_zero, or_comm]
        rw [e, Bool.or_assoc]
      · intro hz
        simp only [Bool.or_eq_false_iff, beq_eq_false_iff_ne, ne_eq] at hz
        obtain ⟨ho, hi, _⟩ := hz
        rcases hm with h1 | h2
        · subst h1
          simp
        · subst h2
          -- (isz*o1 - 1) * ist = (o1 - 1) * (ist * isz) + (isz - 1) * ist
          obtain ⟨a, rfl⟩ : ∃ a, isz = a + 1 := ⟨isz - 1, by omega⟩
          obtain ⟨b, rfl⟩ : ∃ b, o1 = b + 1 := ⟨o1 - 1, by omega⟩
          simp only [Nat.add_sub_cancel]
          rw [merge_arith]
          omega
    · exact ⟨rfl, fun _ => rfl⟩

theorem mdParts_fold (l acc : Dims) :
    (mdParts (l.foldl mergeStep acc)).1 = (mdParts (l.reverse ++ acc)).1 ∧
    ((mdParts (l.reverse ++ acc)).1 = false →
      (mdParts (l.foldl mergeStep acc)).2 = (mdParts (l.reverse ++ acc)).2) := by
  induction l generalizing acc with
  | nil => exact ⟨rfl, fun _ => rfl⟩
  | cons x xs ih =>
    obtain ⟨i1, i2⟩ := ih (mergeStep acc x)
    obtain ⟨s1, s2⟩ := mergeStep_parts acc x
    -- parts of `xs.reverse ++ A` only depend on the parts of `A`
    have happ : ∀ (pre A B : Dims), (mdParts A).1 = (mdParts B).1 →
        ((mdParts B).1 = false → (mdParts A).2 = (mdParts B).2) →
        (mdParts (pre ++ A)).1 = (mdParts (pre ++ B)).1 ∧
        ((mdParts (pre ++ B)).1 = false → (mdParts (pre ++ A)).2 = (mdParts (pre ++ B)).2) := by
      intro pre A B h1 h2
      induction pre with
      | nil => exact ⟨h1, h2⟩
      | cons p ps ihp =>
        simp only [List.cons_append, mdParts_cons]
        refine ⟨by rw [ihp.1], ?_⟩
        intro hz
        simp only [Bool.or_eq_false_iff] at hz
        rw [ihp.2 hz.2]
    obtain ⟨a1, a2⟩ := happ xs.reverse (mergeStep acc x) (x :: acc) s1 s2
    simp only [List.foldl_cons, List.reverse_cons, List.append_assoc, List.singleton_append]
    exact ⟨i1.trans a1, fun hz => (i2 (a1 ▸ hz)).trans (a2 hz)⟩

theorem minDataLen_mergeAxes (d : Dims) : minDataLen (mergeAxes d) = minDataLen d := by
  obtain ⟨h1, h2⟩ := mdParts_fold d.reverse []
  simp only [List.reverse_reverse, List.append_nil] at h1 h2
  unfold mergeAxes
  rw [minDataLen_parts, minDataLen_parts, h1]
  cases hz : (mdParts d).1 with
  | true => rfl
  | false => simp only [Bool.false_eq_true, if_false]; rw [h2 hz]

theorem WF_mergedAxes (v : View) (h : WF v) : WF (mergedAxes v) := by
  unfold WF at h ⊢
  show minDataLen (mergeAxes v.dims) ≤ v.len
  rw [minDataLen_mergeAxes]; exact h

end RtenVerif.Layout
