import RtenVerif.Lemmas.IterSim

/-!
C07 lemmas, part 1: the `OffsetsBase` state machine is a mixed-radix counter.
Positions are listed innermost first (`OffsetsBase.allPos`).
-/
namespace RtenVerif.Iter
open OffsetsBase

/-- Well-formed position: `remaining ≤ max_remaining` and `offset = index * stride`. -/
def WF (p : IterPos) : Prop := p.remaining ≤ p.maxRemaining ∧ p.offset = p.index * p.stride

/-- Linear index encoded by the positions (mixed radix, least significant first). -/
def enc : List IterPos → Nat
  | [] => 0
  | p :: ps => p.index + p.size * enc ps

/-- Product of the sizes. -/
def tot : List IterPos → Nat
  | [] => 1
  | p :: ps => p.size * tot ps

/-- `(size, stride)` of each position, innermost first. -/
def dimsR (ps : List IterPos) : List (Nat × Nat) := ps.map (fun p => (p.size, p.stride))

/-- Offset of the element with linear index `j` (mixed-radix decoding, innermost first). -/
def offR : List (Nat × Nat) → Nat → Nat
  | [], _ => 0
  | d :: ds, j => (j % d.1) * d.2 + offR ds (j / d.1)

theorem index_lt (p : IterPos) : p.index < p.size := by
  unfold IterPos.index IterPos.size; omega

theorem size_pos (p : IterPos) : 0 < p.size := by unfold IterPos.size; omega

theorem tot_pos : ∀ ps : List IterPos, 0 < tot ps
  | [] => by simp [tot]
  | p :: ps => by simp only [tot]; exact Nat.mul_pos (size_pos p) (tot_pos ps)

theorem enc_lt : ∀ ps : List IterPos, enc ps < tot ps
  | [] => by simp [enc, tot]
  | p :: ps => by
    simp only [enc, tot]
    have h1 := index_lt p
    have h2 := enc_lt ps
    have h3 : p.size * (enc ps + 1) ≤ p.size * tot ps := Nat.mul_le_mul_left _ h2
    rw [Nat.mul_add, Nat.mul_one] at h3
    omega

theorem offLin_eq : ∀ (ps : List IterPos) (index sp : Nat),
    offLin ps index sp = offR (dimsR ps) (index / sp)
  | [], _, _ => rfl
  | p :: ps, index, sp => by
    simp only [offLin, dimsR, List.map_cons, offR]
    rw [offLin_eq ps index (sp * p.size), Nat.div_div_eq_div_mul]
    rfl

theorem offR_enc : ∀ ps : List IterPos, (∀ p ∈ ps, WF p) → offR (dimsR ps) (enc ps) = sumOff ps
  | [], _ => rfl
  | p :: ps, h => by
    have hp := h p (List.mem_cons_self ..)
    have ih := offR_enc ps (fun q hq => h q (List.mem_cons_of_mem _ hq))
    simp only [dimsR, List.map_cons, offR, enc, sumOff]
    have h1 : (p.index + p.size * enc ps) % p.size = p.index := by
      rw [Nat.add_mul_mod_self_left, Nat.mod_eq_of_lt (index_lt p)]
    have h2 : (p.index + p.size * enc ps) / p.size = enc ps := by
      rw [Nat.add_mul_div_left _ _ (size_pos p), Nat.div_eq_of_lt (index_lt p), Nat.zero_add]
    rw [h1, h2]
    simp only [dimsR] at ih
    rw [ih, hp.2]

theorem foldr_enc : ∀ ps : List IterPos,
    ps.foldr (fun p acc => acc * p.size + p.index) 0 = enc ps
  | [] => rfl
  | p :: ps => by
    simp only [List.foldr, enc, foldr_enc ps]
    rw [Nat.mul_comm, Nat.add_comm]

theorem linearIndex_eq (s : OffsetsBase) : s.linearIndex = enc s.allPos := by
  unfold linearIndex
  rw [List.foldl_reverse]
  exact foldr_enc _

/-! ### `set_index` and `step` -/

theorem setIndex_index {p : IterPos} {i : Nat} (h : i < p.size) : (p.setIndex i).index = i := by
  unfold IterPos.size at h
  simp only [IterPos.setIndex, IterPos.index]; omega

@[simp] theorem setIndex_size (p : IterPos) (i : Nat) : (p.setIndex i).size = p.size := rfl
@[simp] theorem setIndex_stride (p : IterPos) (i : Nat) : (p.setIndex i).stride = p.stride := rfl

theorem setIndex_wf {p : IterPos} {i : Nat} (h : i < p.size) : WF (p.setIndex i) := by
  refine ⟨?_, ?_⟩
  · simp only [IterPos.setIndex]; omega
  · rw [setIndex_index h]; rfl

theorem step_eq {p : IterPos} (h : WF p) :
    p.step = if p.index + 1 < p.size then (p.setIndex (p.index + 1), true)
      else (p.setIndex 0, false) := by
  obtain ⟨h1, h2⟩ := h
  cases p with
  | mk rem off st mx =>
    simp only [IterPos.index, IterPos.size, IterPos.step, IterPos.setIndex] at *
    by_cases hr : rem = 0
    · subst hr
      simp
    · have hlt : mx - rem + 1 < mx + 1 := by omega
      simp only [hr, ne_eq, not_false_eq_true, if_true, hlt, Prod.mk.injEq, IterPos.mk.injEq,
        and_true, true_and]
      refine ⟨by omega, ?_⟩
      rw [h2, Nat.add_mul, Nat.one_mul]

/-! ### `step_by` is mixed-radix addition -/

theorem addPos_zero (ps : List IterPos) : addPos ps 0 = ps := by
  cases ps <;> simp [addPos]

theorem addPos_spec : ∀ (ps : List IterPos) (n : Nat),
    enc (addPos ps n) = (enc ps + n) % tot ps ∧ (∀ p ∈ ps, WF p → True) ∧
    dimsR (addPos ps n) = dimsR ps ∧ (addPos ps n).length = ps.length
  | [], n => by simp [addPos, enc, tot, dimsR, Nat.mod_one]
  | p :: ps, n => by
    by_cases hn : n = 0
    · subst hn
      rw [addPos_zero]
      refine ⟨?_, fun _ _ _ => trivial, rfl, rfl⟩
      rw [Nat.add_zero, Nat.mod_eq_of_lt (enc_lt _)]
    · obtain ⟨ih1, _, ih3, ih4⟩ := addPos_spec ps ((p.index + n) / p.size)
      have hm : (p.index + n) % p.size < p.size := Nat.mod_lt _ (size_pos p)
      refine ⟨?_, fun _ _ _ => trivial, ?_, ?_⟩
      · simp only [addPos, hn, if_false, enc, tot, setIndex_size]
        rw [setIndex_index hm, ih1]
        have hx : p.index + p.size * enc ps + n = (p.index + n) + p.size * enc ps := by omega
        rw [hx, Nat.mod_mul (x := p.index + n + p.size * enc ps),
          Nat.add_mul_mod_self_left, Nat.add_mul_div_left _ _ (size_pos p)]
        rw [Nat.add_comm (enc ps)]
      · simp only [addPos, hn, if_false, dimsR, List.map_cons, setIndex_size, setIndex_stride]
        simp only [dimsR] at ih3
        rw [ih3]
      · simp only [addPos, hn, if_false, List.length_cons, ih4]

theorem addPos_wf : ∀ (ps : List IterPos) (n : Nat), (∀ p ∈ ps, WF p) → ∀ q ∈ addPos ps n, WF q
  | [], n, _ => by simp [addPos]
  | p :: ps, n, h => by
    by_cases hn : n = 0
    · subst hn; rw [addPos_zero]; exact h
    · intro q hq
      simp only [addPos, hn, if_false, List.mem_cons] at hq
      rcases hq with rfl | hq
      · exact setIndex_wf (Nat.mod_lt _ (size_pos p))
      · exact addPos_wf ps _ (fun r hr => h r (List.mem_cons_of_mem _ hr)) q hq

theorem stepOuterLoop_eq : ∀ ps : List IterPos, (∀ p ∈ ps, WF p) →
    (stepOuterLoop ps).1 = addPos ps 1
  | [], _ => rfl
  | p :: ps, h => by
    have hp := h p (List.mem_cons_self ..)
    have ih := stepOuterLoop_eq ps (fun q hq => h q (List.mem_cons_of_mem _ hq))
    simp only [stepOuterLoop, addPos, Nat.one_ne_zero, if_false]
    rw [step_eq hp]
    by_cases hlt : p.index + 1 < p.size
    · simp only [hlt, if_true]
      rw [Nat.mod_eq_of_lt hlt, Nat.div_eq_of_lt hlt, addPos_zero]
    · have he : p.index + 1 = p.size := by have := index_lt p; omega
      simp only [hlt, if_false, Bool.false_eq_true]
      rw [he, Nat.mod_self, Nat.div_self (size_pos p), ih]

/-! ### Invariant and abstraction of `OffsetsBase` -/

structure Inv (s : OffsetsBase) : Prop where
  wf : ∀ p ∈ s.allPos, WF p
  inner : s.innerOffset = s.inner0.offset + s.inner1.offset
  outer : s.outerOffset = sumOff s.outerRev
  bound : s.len ≠ 0 → enc s.allPos + s.len ≤ tot s.allPos

/-- The offsets still to be yielded: those of linear indices `front .. front + len`. -/
def absB (s : OffsetsBase) : List Nat :=
  (List.range' (enc s.allPos) s.len).map (offR (dimsR s.allPos))

theorem absB_length (s : OffsetsBase) : (absB s).length = s.len := by simp [absB]

theorem stepBy_shape (s : OffsetsBase) (n : Nat) :
    ∃ i1 i0 outer, addPos s.allPos (min n s.len) = i1 :: i0 :: outer ∧
      s.stepBy n = { len := s.len - min n s.len, inner1 := i1, inner0 := i0, outerRev := outer,
                     innerOffset := i0.offset + i1.offset, outerOffset := sumOff outer } := by
  have hl := (addPos_spec s.allPos (min n s.len)).2.2.2
  simp only [allPos, List.length_cons] at hl
  match hm : addPos s.allPos (min n s.len), hl with
  | i1 :: i0 :: outer, _ =>
    refine ⟨i1, i0, outer, rfl, ?_⟩
    simp only [stepBy, hm]

theorem stepBy_spec {s : OffsetsBase} (hs : Inv s) (n : Nat) :
    Inv (s.stepBy n) ∧ absB (s.stepBy n) = (absB s).drop n ∧
      (s.stepBy n).len = s.len - min n s.len := by
  obtain ⟨i1, i0, outer, hadd, hst⟩ := stepBy_shape s n
  obtain ⟨henc, _, hdims, _⟩ := addPos_spec s.allPos (min n s.len)
  have hwf := addPos_wf s.allPos (min n s.len) hs.wf
  rw [hadd] at henc hdims hwf
  have hall : (s.stepBy n).allPos = i1 :: i0 :: outer := by rw [hst]; rfl
  have hlen : (s.stepBy n).len = s.len - min n s.len := by rw [hst]
  refine ⟨⟨?_, ?_, ?_, ?_⟩, ?_, hlen⟩
  · rw [hall]; exact hwf
  · rw [hst]
  · rw [hst]
  · intro hne
    rw [hall, henc, hlen]
    rw [hlen] at hne
    have hb := hs.bound (by omega)
    have hmin : min n s.len = n := by omega
    have : tot (i1 :: i0 :: outer) = tot s.allPos := by
      have e1 : ∀ ps qs : List IterPos, dimsR ps = dimsR qs → tot ps = tot qs := by
        intro ps
        induction ps with
        | nil => intro qs h; cases qs with
          | nil => rfl
          | cons _ _ => simp [dimsR] at h
        | cons p ps ih => intro qs h; cases qs with
          | nil => simp [dimsR] at h
          | cons q qs =>
            simp only [dimsR, List.map_cons, List.cons.injEq, Prod.mk.injEq] at h
            simp only [tot]
            rw [h.1.1, ih qs h.2]
      exact e1 _ _ hdims
    rw [this, Nat.mod_eq_of_lt (by omega)]
    omega
  · unfold absB
    rw [hall, hdims, henc, hlen]
    by_cases hge : s.len ≤ n
    · have : s.len - min n s.len = 0 := by omega
      rw [this]
      simp only [List.range'_zero, List.map_nil]
      rw [List.drop_eq_nil_of_le (by simp; omega)]
    · have hmin : min n s.len = n := by omega
      have hb := hs.bound (by omega)
      rw [hmin, Nat.mod_eq_of_lt (by omega), ← List.map_drop, List.drop_range']
      simp

theorem next_eq {s : OffsetsBase} (hs : Inv s) (hl : s.len ≠ 0) :
    s.next = (some (sumOff s.allPos), s.stepBy 1) := by
  have w1 : WF s.inner1 := hs.wf _ (by simp [allPos])
  have w0 : WF s.inner0 := hs.wf _ (by simp [allPos])
  have wo : ∀ p ∈ s.outerRev, WF p := fun p hp => hs.wf p (by simp [allPos, hp])
  have hmin : min 1 s.len = 1 := by omega
  have hoff : s.outerOffset + s.innerOffset = sumOff s.allPos := by
    rw [hs.inner, hs.outer]; simp only [allPos, sumOff]; omega
  cases s with
  | mk len io i0 i1 oo outer =>
    simp only at w1 w0 wo hmin hoff hl
    have hin := hs.inner
    have hout := hs.outer
    simp only at hin hout
    simp only [OffsetsBase.next, hl, if_false, stepBy, allPos, hmin, addPos, Nat.one_ne_zero,
      step_eq w1, step_eq w0, stepOuterPos]
    by_cases c1 : i1.index + 1 < i1.size
    · simp only [c1, if_true, Nat.mod_eq_of_lt c1, Nat.div_eq_of_lt c1, addPos_zero]
      rw [hoff]
      simp only [Prod.mk.injEq, OffsetsBase.mk.injEq, true_and, and_true]
      refine ⟨rfl, ?_, hout⟩
      rw [hin, w1.2]
      simp only [IterPos.setIndex, Nat.add_mul, Nat.one_mul]
      omega
    · have e1 : i1.index + 1 = i1.size := by have := index_lt i1; omega
      simp only [c1, if_false]
      simp only [e1, Nat.mod_self, Nat.div_self (size_pos i1), Bool.false_eq_true, if_false,
        Nat.one_ne_zero]
      by_cases c0 : i0.index + 1 < i0.size
      · simp only [c0, if_true, Nat.mod_eq_of_lt c0, Nat.div_eq_of_lt c0, addPos_zero]
        rw [hoff]
        simp only [Prod.mk.injEq, OffsetsBase.mk.injEq, true_and, and_true]
        refine ⟨rfl, ?_, hout⟩
        simp [IterPos.setIndex]
      · have e0 : i0.index + 1 = i0.size := by have := index_lt i0; omega
        simp only [c0, if_false]
        simp only [e0, Nat.mod_self, Nat.div_self (size_pos i0), Bool.false_eq_true, if_false,
          Nat.one_ne_zero]
        rw [hoff, stepOuterLoop_eq outer wo]
        simp only [Prod.mk.injEq, OffsetsBase.mk.injEq, true_and, and_true]
        refine ⟨rfl, ?_⟩
        simp [IterPos.setIndex]

/-! ### Per-operation refinement of `OffsetsBase` -/

theorem next_spec {s : OffsetsBase} (hs : Inv s) :
    s.next.1 = (absB s).head? ∧ absB s.next.2 = (absB s).tail ∧ Inv s.next.2 := by
  by_cases hl : s.len = 0
  · have : s.next = (none, s) := by simp [OffsetsBase.next, hl]
    rw [this]
    simp [absB, hl, hs]
  · rw [next_eq hs hl]
    obtain ⟨h1, h2, _⟩ := stepBy_spec hs 1
    refine ⟨?_, ?_, h1⟩
    · simp only [absB, List.head?_map, List.head?_range', hl, if_false, Option.map_some]
      rw [offR_enc _ hs.wf]
    · simp only [h2, List.drop_one]

theorem nextBack_spec {s : OffsetsBase} (hs : Inv s) :
    s.nextBack.1 = (absB s).getLast? ∧ absB s.nextBack.2 = (absB s).dropLast ∧
      Inv s.nextBack.2 := by
  by_cases hl : s.len = 0
  · have : s.nextBack = (none, s) := by simp [OffsetsBase.nextBack, hl]
    rw [this]
    simp [absB, hl, hs]
  · obtain ⟨k, hk⟩ : ∃ k, s.len = k + 1 := ⟨s.len - 1, by omega⟩
    have hb := hs.bound hl
    simp only [OffsetsBase.nextBack, hl, if_false]
    refine ⟨?_, ?_, ⟨hs.wf, hs.inner, hs.outer, ?_⟩⟩
    · simp only [absB, List.getLast?_map, List.getLast?_range', hl, if_false, Option.map_some,
        offsetFromLinearIndex, offLin_eq, linearIndex_eq, Nat.div_one]
    · show absB { s with len := s.len - 1 } = _
      simp only [absB, allPos, hk, Nat.add_sub_cancel, List.range'_1_concat, List.map_append,
        List.map_cons, List.map_nil, List.dropLast_concat]
    · intro _
      show enc s.allPos + (s.len - 1) ≤ tot s.allPos
      omega

theorem truncate_spec {s : OffsetsBase} (hs : Inv s) (k : Nat) :
    absB (s.truncate k) = (absB s).take k ∧ Inv (s.truncate k) := by
  refine ⟨?_, ⟨hs.wf, hs.inner, hs.outer, ?_⟩⟩
  · show (List.range' (enc s.allPos) (min s.len k)).map _ = _
    simp only [absB, ← List.map_take]
    congr 1
    by_cases hk : k ≤ s.len
    · have : s.len = k + (s.len - k) := by omega
      rw [Nat.min_eq_right hk]
      conv => rhs; rw [this, ← List.range'_append]
      rw [List.take_left' (by simp)]
    · rw [Nat.min_eq_left (by omega), List.take_of_length_le (by simp; omega)]
  · intro hne
    show enc s.allPos + min s.len k ≤ tot s.allPos
    have hne' : min s.len k ≠ 0 := hne
    have := hs.bound (by omega)
    omega

theorem nth_spec {s : OffsetsBase} (hs : Inv s) (n : Nat) :
    (s.stepBy n).next.1 = ((absB s).drop n).head? ∧
      absB (s.stepBy n).next.2 = (absB s).drop (n + 1) ∧ Inv (s.stepBy n).next.2 := by
  obtain ⟨h1, h2, _⟩ := stepBy_spec hs n
  obtain ⟨g1, g2, g3⟩ := next_spec h1
  refine ⟨by rw [g1, h2], ?_, g3⟩
  rw [g2, h2, List.tail_drop]

end RtenVerif.Iter
