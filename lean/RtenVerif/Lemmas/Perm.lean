import RtenVerif.Lemmas.Layout

/-! C09 lemmas for `permute`: offsets as sums, pointwise index validity, and
"`is_valid_permutation` ⇒ permutation of `range n`". -/
namespace RtenVerif.Layout
open RtenVerif.Arr RtenVerif.Overlap

theorem sum_map_zero {β : Type} (l : List β) : (l.map (fun _ => 0)).sum = 0 := by
  induction l with
  | nil => rfl
  | cons a as ih => simp [ih]

theorem sum_map_add {β : Type} (l : List β) (f g : β → Nat) :
    (l.map (fun x => f x + g x)).sum = (l.map f).sum + (l.map g).sum := by
  induction l with
  | nil => rfl
  | cons a as ih => simp only [List.map_cons, List.sum_cons, ih]; omega

/-- `offset` as a sum over the axes. -/
theorem offset_eq_sum (d : Dims) (idx : List Nat) :
    offset d idx = ((List.range d.length).map (fun k => idx.getD k 0 * (d.getD k (0, 0)).2)).sum := by
  induction d generalizing idx with
  | nil => cases idx <;> simp [offset]
  | cons p ds ih =>
    obtain ⟨a, b⟩ := p
    cases idx with
    | nil =>
      simp only [offset, List.length_cons]
      have : (fun k => ([] : List Nat).getD k 0 * (((a, b) :: ds).getD k (0, 0)).2) = fun _ => 0 := by
        funext k; simp
      rw [this, sum_map_zero]
    | cons i is =>
      simp only [offset, List.length_cons, List.range_succ_eq_map, List.map_cons, List.map_map,
        List.sum_cons, ih is]
      congr 1

/-- Index validity, pointwise. -/
theorem validIdx_iff (shape idx : List Nat) :
    validIdx shape idx = true ↔
      idx.length = shape.length ∧ ∀ k, k < shape.length → idx.getD k 0 < shape.getD k 0 := by
  induction shape generalizing idx with
  | nil => cases idx <;> simp [validIdx]
  | cons n ns ih =>
    cases idx with
    | nil => simp [validIdx]
    | cons i is =>
      simp only [validIdx, Bool.and_eq_true, decide_eq_true_eq, ih, List.length_cons,
        Nat.add_right_cancel_iff]
      constructor
      · rintro ⟨h0, hl, hk⟩
        refine ⟨hl, ?_⟩
        intro k hk'
        cases k with
        | zero => simpa using h0
        | succ k => simpa using hk k (by omega)
      · rintro ⟨hl, hk⟩
        refine ⟨by simpa using hk 0 (by omega), hl, ?_⟩
        intro k hk'
        simpa using hk (k + 1) (by omega)

/-! ### counting -/

theorem sum_indicator (x n : Nat) :
    ((List.range n).map (fun d => if x = d then 1 else 0)).sum = if x < n then 1 else 0 := by
  induction n with
  | zero => simp
  | succ n ih =>
    rw [List.range_succ, List.map_append, List.sum_append, ih]
    simp only [List.map_cons, List.map_nil, List.sum_cons, List.sum_nil]
    split <;> split <;> split <;> omega

theorem filter_lt_length (l : List Nat) (n : Nat) :
    (l.filter (fun x => decide (x < n))).length = ((List.range n).map (fun d => l.count d)).sum := by
  induction l with
  | nil => simp [sum_map_zero]
  | cons x xs ih =>
    have hc : (fun d => (x :: xs).count d) = fun d => xs.count d + (if x = d then 1 else 0) := by
      funext d
      rw [List.count_cons]
      simp only [beq_iff_eq]
    rw [hc, sum_map_add, sum_indicator, ← ih, List.filter_cons]
    split <;> simp_all <;> omega

theorem all_of_filter_length {β : Type} (q : β → Bool) (l : List β)
    (h : (l.filter q).length = l.length) : ∀ x ∈ l, q x = true := by
  induction l with
  | nil => intro x hx; cases hx
  | cons a as ih =>
    intro x hx
    rw [List.filter_cons] at h
    by_cases ha : q a = true
    · simp only [ha, if_true, List.length_cons, Nat.add_right_cancel_iff] at h
      rcases List.mem_cons.mp hx with rfl | hx
      · exact ha
      · exact ih h x hx
    · simp only [ha, Bool.false_eq_true, if_false, List.length_cons] at h
      have := List.length_filter_le q as
      omega

theorem sum_map_one (n : Nat) : ((List.range n).map (fun _ => 1)).sum = n := by
  induction n with
  | zero => rfl
  | succ n ih => rw [List.range_succ, List.map_append, List.sum_append, ih]; simp

/-- A list accepted by `is_valid_permutation` is a permutation of `0..n`. -/
theorem perm_of_valid (n : Nat) (p : List Nat) (h : isValidPermutation n p = true) :
    p.Perm (List.range n) := by
  simp only [isValidPermutation, Bool.and_eq_true, beq_iff_eq, List.all_eq_true, List.mem_range] at h
  obtain ⟨hlen, hcount⟩ := h
  have hc1 : ∀ d, d < n → p.count d = 1 := by
    intro d hd
    rw [List.count_eq_length_filter]
    exact hcount d hd
  have hlt : ∀ x ∈ p, x < n := by
    have h1 : (p.filter (fun x => decide (x < n))).length = p.length := by
      rw [filter_lt_length, hlen]
      have : (List.range n).map (fun d => p.count d) = (List.range n).map (fun _ => 1) :=
        List.map_congr_left (fun d hd => hc1 d (List.mem_range.mp hd))
      rw [this, sum_map_one]
    intro x hx
    simpa using all_of_filter_length _ p h1 x hx
  rw [List.perm_iff_count]
  intro a
  rw [List.count_range]
  by_cases ha : a < n
  · rw [if_pos ha, hc1 a ha]
  · rw [if_neg ha]
    exact List.count_eq_zero.mpr (fun hm => ha (hlt a hm))

end RtenVerif.Layout
