import RtenVerif.Lemmas.Pool

/-!
# The ownership-ledger invariant of the pool model and its preservation (C23)
-/
namespace RtenVerif.Pool

/-- The buffer a thread carries between `Buffer::from_vec` and the push under the mutex. -/
def transitOf : Nat × Pending → Option Buf
  | (_, .wantPush b) => some b
  | (_, .wantLock _ _ _) => none
  | (_, .fallback _ _ _) => none

def transitBufs (p : List (Nat × Pending)) : List Buf := p.filterMap transitOf

/-- In how many places allocation `i` currently is: pool + holders + in transit + freed. -/
def placesF (pool : List Buf) (held : List Held) (pend : List (Nat × Pending))
    (freed : List (Nat × (Nat × Nat))) (i : Nat) : Nat :=
  (pool.map (·.id)).count i + (held.map (·.v.id)).count i +
    ((transitBufs pend).map (·.id)).count i + (freed.map (·.1)).count i

/-- A pooled / in-transit `Buffer` is consistent: its stored layout is `Layout::array::<dty>(cap)`
(so `release::<dty>` frees with that layout) and it is the layout the block was allocated with. -/
def BufOk (allocs : List (Nat × Nat)) (b : Buf) : Prop :=
  layoutArray b.dty b.cap = some (b.lsize, b.lalign) ∧ allocs[b.id]? = some (b.lsize, b.lalign)

/-- A held `Vec<ty>` of capacity `cap` is valid for the block it points to: `Layout::array::<ty>(cap)`
exists and equals the layout the block was allocated with (the allocator contract for a later
`dealloc`/`realloc` by `Vec`). -/
def VecOk (allocs : List (Nat × Nat)) (v : VecH) : Prop :=
  ∃ l, layoutArray v.ty v.cap = some l ∧ allocs[v.id]? = some l

def HeldOk (allocs : List (Nat × Nat)) (h : Held) : Prop :=
  VecOk allocs h.v ∧ h.reqCap ≤ h.v.cap ∧ h.v.ty = h.reqTy

def PendOk : Nat × Pending → Prop
  | (_, .wantLock _ _ cap) => cap ≤ usizeMax
  | (_, .fallback _ _ cap) => cap ≤ usizeMax
  | (_, .wantPush _) => True

structure InvF (pool : List Buf) (held : List Held) (pend : List (Nat × Pending))
    (allocs : List (Nat × Nat)) (freed : List (Nat × (Nat × Nat))) : Prop where
  once : ∀ i, placesF pool held pend freed i = if i < allocs.length then 1 else 0
  poolOk : ∀ b ∈ pool, BufOk allocs b
  transitOk : ∀ b ∈ transitBufs pend, BufOk allocs b
  heldOk : ∀ h ∈ held, HeldOk allocs h
  freedOk : ∀ e ∈ freed, allocs[e.1]? = some e.2
  pendOk : ∀ e ∈ pend, PendOk e

/-- The ledger invariant (see the fields of `InvF`). -/
def Inv (s : State) : Prop := InvF s.pool s.held s.pend s.allocs s.freed

theorem getElem?_append_some {l : List α} {i : Nat} {x : α} (m : List α) (h : l[i]? = some x) :
    (l ++ m)[i]? = some x := by
  have hlt : i < l.length := by
    rcases Nat.lt_or_ge i l.length with h1 | h1
    · exact h1
    · rw [List.getElem?_eq_none h1] at h; cases h
  rw [List.getElem?_append_left hlt]; exact h

theorem BufOk.mono {a : List (Nat × Nat)} {b : Buf} (m : List (Nat × Nat)) (h : BufOk a b) :
    BufOk (a ++ m) b := ⟨h.1, getElem?_append_some m h.2⟩

theorem VecOk.mono {a : List (Nat × Nat)} {v : VecH} (m : List (Nat × Nat)) (h : VecOk a v) :
    VecOk (a ++ m) v := by
  obtain ⟨l, h1, h2⟩ := h
  exact ⟨l, h1, getElem?_append_some m h2⟩

theorem HeldOk.mono {a : List (Nat × Nat)} {h : Held} (m : List (Nat × Nat)) (hh : HeldOk a h) :
    HeldOk (a ++ m) h := ⟨hh.1.mono m, hh.2⟩

theorem VecOk.freeLayout {a : List (Nat × Nat)} {v : VecH} (h : VecOk a v) :
    a[v.id]? = some v.freeLayout := by
  obtain ⟨l, h1, h2⟩ := h
  rw [h2, layoutArray_some h1]; rfl

theorem BufOk.freeLayout {a : List (Nat × Nat)} {b : Buf} (h : BufOk a b) :
    a[b.id]? = some b.freeLayout := by
  rw [h.2, layoutArray_some h.1]; rfl

/-- `Buffer::from_vec` of a valid vec never panics and yields a consistent buffer. -/
theorem fromVec_ok {a : List (Nat × Nat)} {v : VecH} (h : VecOk a v) :
    ∃ b, fromVec v = some b ∧ BufOk a b ∧ b.id = v.id ∧ b.freeLayout = v.freeLayout := by
  obtain ⟨l, h1, h2⟩ := h
  refine ⟨{ id := v.id, cap := v.cap, lsize := l.1, lalign := l.2, dty := v.ty }, ?_, ⟨?_, ?_⟩, rfl, rfl⟩
  · simp [fromVec, h1]
  · simpa using h1
  · simpa using h2

/-- `Buffer::into_vec::<T>` of a consistent buffer yields a valid `Vec<T>` for the same block. -/
theorem intoVec_ok {a : List (Nat × Nat)} {b : Buf} {t : Ty} {v : VecH} (hb : BufOk a b)
    (h : intoVec b t = some v) : VecOk a v ∧ v.id = b.id ∧ v.ty = t ∧ v.cap = vecCap t b.cap := by
  unfold intoVec at h
  split at h
  · next hm =>
    cases h
    refine ⟨⟨(b.lsize, b.lalign), ?_, hb.2⟩, rfl, rfl, rfl⟩
    exact layoutArray_vecCap (layoutMatch_iff.mp hm)
  · cases h

theorem count_if (x i : Nat) : (if x = i then 1 else 0) = if i = x then 1 else 0 := by
  split <;> split <;> omega

section steps
variable {pool : List Buf} {held : List Held} {pend : List (Nat × Pending)}
  {allocs : List (Nat × Nat)} {freed : List (Nat × (Nat × Nat))}

/-- A fresh allocation handed to a holder. -/
theorem InvF.fresh (inv : InvF pool held pend allocs freed) (t slot : Nat) (ty : Ty) (cap c : Nat)
    (l : Nat × Nat) (hl : layoutArray ty c = some l) (hc : cap ≤ c) :
    InvF pool (held ++ [⟨t, slot, ty, cap, ⟨allocs.length, c, ty⟩⟩]) pend (allocs ++ [l]) freed where
  once i := by
    have := inv.once i
    simp only [placesF, List.map_append, List.map_cons, List.map_nil, List.count_append,
      List.count_cons, List.count_nil, List.length_append, List.length_cons, List.length_nil,
      beq_iff_eq] at this ⊢
    split at this <;> split <;> split <;> omega
  poolOk b hb := (inv.poolOk b hb).mono _
  transitOk b hb := (inv.transitOk b hb).mono _
  heldOk h hh := by
    rcases List.mem_append.mp hh with h1 | h1
    · exact (inv.heldOk h h1).mono _
    · simp only [List.mem_singleton] at h1
      subst h1
      exact ⟨⟨l, hl, by simp⟩, hc, rfl⟩
  freedOk e he := getElem?_append_some _ (inv.freedOk e he)
  pendOk := inv.pendOk

/-- A holder's vec is dropped (freed). -/
theorem InvF.dropHeld (inv : InvF pool held pend allocs freed) {h : Held} {rest : List Held}
    (hp : held.Perm (h :: rest)) :
    InvF pool rest pend allocs (freed ++ [(h.v.id, h.v.freeLayout)]) where
  once i := by
    have := inv.once i
    have hc := (hp.map (·.v.id)).count_eq i
    simp only [placesF, List.map_append, List.map_cons, List.map_nil, List.count_append,
      List.count_cons, List.count_nil, beq_iff_eq] at this hc ⊢
    omega
  poolOk := inv.poolOk
  transitOk := inv.transitOk
  heldOk x hx := inv.heldOk x (hp.mem_iff.mpr (List.mem_cons_of_mem _ hx))
  freedOk e he := by
    rcases List.mem_append.mp he with h1 | h1
    · exact inv.freedOk e h1
    · simp only [List.mem_singleton] at h1
      subst h1
      exact (inv.heldOk h (hp.mem_iff.mpr List.mem_cons_self)).1.freeLayout
  pendOk := inv.pendOk

/-- `add`: the vec became a `Buffer` that waits for the mutex. -/
theorem InvF.toTransit (inv : InvF pool held pend allocs freed) {h : Held} {rest : List Held}
    (hp : held.Perm (h :: rest)) (t : Nat) {b : Buf} (hb : BufOk allocs b) (hid : b.id = h.v.id) :
    InvF pool rest (pend ++ [(t, .wantPush b)]) allocs freed where
  once i := by
    have := inv.once i
    have hc := (hp.map (·.v.id)).count_eq i
    simp only [placesF, transitBufs, List.filterMap_append, List.filterMap_cons, List.filterMap_nil,
      transitOf, List.map_append, List.map_cons, List.map_nil, List.count_append,
      List.count_cons, List.count_nil, beq_iff_eq, hid] at this hc ⊢
    omega
  poolOk := inv.poolOk
  transitOk x hx := by
    simp only [transitBufs, List.filterMap_append, List.filterMap_cons, List.filterMap_nil,
      transitOf, List.mem_append, List.mem_singleton] at hx
    rcases hx with h1 | h1
    · exact inv.transitOk x h1
    · subst h1; exact hb
  heldOk x hx := inv.heldOk x (hp.mem_iff.mpr (List.mem_cons_of_mem _ hx))
  freedOk := inv.freedOk
  pendOk e he := by
    rcases List.mem_append.mp he with h1 | h1
    · exact inv.pendOk e h1
    · simp only [List.mem_singleton] at h1
      subst h1; trivial

/-- Only the control part of `pend` changed (no buffer in transit appeared or disappeared). -/
theorem InvF.rependPerm (inv : InvF pool held pend allocs freed) {pend' : List (Nat × Pending)}
    (hp : (transitBufs pend').Perm (transitBufs pend)) (hok : ∀ e ∈ pend', PendOk e) :
    InvF pool held pend' allocs freed where
  once i := by
    have := inv.once i
    have hc := (hp.map (·.id)).count_eq i
    simp only [placesF] at this ⊢
    omega
  poolOk := inv.poolOk
  transitOk x hx := inv.transitOk x (hp.mem_iff.mp hx)
  heldOk := inv.heldOk
  freedOk := inv.freedOk
  pendOk := hok

/-- `add`: the critical section pushes the buffer. -/
theorem InvF.push (inv : InvF pool held pend allocs freed) {t : Nat} {b : Buf}
    {rest : List (Nat × Pending)} (hp : pend.Perm ((t, .wantPush b) :: rest)) :
    InvF (pool ++ [b]) held rest allocs freed := by
  have hpt : (transitBufs pend).Perm (b :: transitBufs rest) := by
    have := hp.filterMap transitOf
    simpa [transitBufs, transitOf] using this
  exact {
    once := fun i => by
      have := inv.once i
      have hc := (hpt.map (·.id)).count_eq i
      simp only [placesF, List.map_append, List.map_cons, List.map_nil, List.count_append,
        List.count_cons, List.count_nil, beq_iff_eq] at this hc ⊢
      omega
    poolOk := fun x hx => by
      rcases List.mem_append.mp hx with h1 | h1
      · exact inv.poolOk x h1
      · simp only [List.mem_singleton] at h1
        subst h1
        exact inv.transitOk x (hpt.mem_iff.mpr List.mem_cons_self)
    transitOk := fun x hx => inv.transitOk x (hpt.mem_iff.mpr (List.mem_cons_of_mem _ hx))
    heldOk := inv.heldOk
    freedOk := inv.freedOk
    pendOk := fun e he => inv.pendOk e (hp.mem_iff.mpr (List.mem_cons_of_mem _ he)) }

/-- `alloc`: the critical section removes a buffer and hands it out as `Vec<ty>`. -/
theorem InvF.hit (inv : InvF pool held pend allocs freed) {b : Buf} {pool' : List Buf}
    (hp : pool.Perm (b :: pool')) (t slot : Nat) {ty : Ty} {cap : Nat} {v : VecH}
    (hv : intoVec b ty = some v) (hc : cap ≤ v.cap) :
    InvF pool' (held ++ [⟨t, slot, ty, cap, v⟩]) pend allocs freed := by
  have hb := inv.poolOk b (hp.mem_iff.mpr List.mem_cons_self)
  obtain ⟨hvok, hid, hty, _⟩ := intoVec_ok hb hv
  exact {
    once := fun i => by
      have := inv.once i
      have hcnt := (hp.map (·.id)).count_eq i
      simp only [placesF, List.map_append, List.map_cons, List.map_nil, List.count_append,
        List.count_cons, List.count_nil, beq_iff_eq, hid] at this hcnt ⊢
      omega
    poolOk := fun x hx => inv.poolOk x (hp.mem_iff.mpr (List.mem_cons_of_mem _ hx))
    transitOk := inv.transitOk
    heldOk := fun x hx => by
      rcases List.mem_append.mp hx with h1 | h1
      · exact inv.heldOk x h1
      · simp only [List.mem_singleton] at h1
        subst h1
        exact ⟨hvok, hc, hty⟩
    freedOk := inv.freedOk
    pendOk := inv.pendOk }

/-- A pooled buffer is released (`Drop for Buffer`). -/
theorem InvF.dropPooled (inv : InvF pool held pend allocs freed) {b : Buf} {pool' : List Buf}
    (hp : pool.Perm (b :: pool')) :
    InvF pool' held pend allocs (freed ++ [(b.id, b.freeLayout)]) where
  once i := by
    have := inv.once i
    have hcnt := (hp.map (·.id)).count_eq i
    simp only [placesF, List.map_append, List.map_cons, List.map_nil, List.count_append,
      List.count_cons, List.count_nil, beq_iff_eq] at this hcnt ⊢
    omega
  poolOk x hx := inv.poolOk x (hp.mem_iff.mpr (List.mem_cons_of_mem _ hx))
  transitOk := inv.transitOk
  heldOk := inv.heldOk
  freedOk e he := by
    rcases List.mem_append.mp he with h1 | h1
    · exact inv.freedOk e h1
    · simp only [List.mem_singleton] at h1
      subst h1
      exact (inv.poolOk b (hp.mem_iff.mpr List.mem_cons_self)).freeLayout
  pendOk := inv.pendOk

/-- The pool is dropped: every pooled buffer is released. -/
theorem InvF.dropAll (inv : InvF pool held pend allocs freed) :
    InvF [] held pend allocs (freed ++ pool.map (fun b => (b.id, b.freeLayout))) where
  once i := by
    have := inv.once i
    simp only [placesF, List.map_append, List.map_map, List.map_nil, List.count_append,
      List.count_nil] at this ⊢
    have : (fun x : Nat × (Nat × Nat) => x.1) ∘ (fun b : Buf => (b.id, b.freeLayout)) = fun b => b.id := rfl
    rw [this]
    omega
  poolOk x hx := by cases hx
  transitOk := inv.transitOk
  heldOk := inv.heldOk
  freedOk e he := by
    rcases List.mem_append.mp he with h1 | h1
    · exact inv.freedOk e h1
    · obtain ⟨b, hb, rfl⟩ := List.mem_map.mp h1
      exact (inv.poolOk b hb).freeLayout
  pendOk := inv.pendOk

end steps

theorem withCapacity_ok {ty : Ty} {cap c : Nat} {l : Nat × Nat} (h : withCapacity ty cap = some (c, l))
    (hcap : cap ≤ usizeMax) : layoutArray ty c = some l ∧ cap ≤ c := by
  unfold withCapacity at h
  cases h1 : layoutArray ty cap with
  | none => simp [h1] at h
  | some l' =>
    simp only [h1, Option.some.injEq, Prod.mk.injEq] at h
    obtain ⟨rfl, rfl⟩ := h
    exact ⟨layoutArray_vecCap h1, le_vecCap hcap (Nat.le_refl _)⟩

theorem transitBufs_perm_of_extract {pend rest : List (Nat × Pending)} {e : Nat × Pending}
    (hp : pend.Perm (e :: rest)) (he : transitOf e = none) :
    (transitBufs rest).Perm (transitBufs pend) := by
  have := hp.filterMap transitOf
  simp only [List.filterMap_cons, he] at this
  exact this.symm

theorem transitBufs_append_none (p : List (Nat × Pending)) (e : Nat × Pending)
    (he : transitOf e = none) : transitBufs (p ++ [e]) = transitBufs p := by
  simp [transitBufs, List.filterMap_append, he]

theorem startAdd_inv {s : State} (inv : Inv s) (t : Nat) {h : Held} {rest : List Held}
    (hp : s.held.Perm (h :: rest)) : Inv (startAdd s t h.v rest).1 := by
  have hh := inv.heldOk h (hp.mem_iff.mpr List.mem_cons_self)
  obtain ⟨b, hfv, hbok, hid, hfl⟩ := fromVec_ok hh.1
  unfold startAdd
  simp only [hfv]
  split
  · exact InvF.toTransit inv hp t hbok hid
  · have := InvF.dropHeld inv hp
    rw [← hid, ← hfl] at this
    exact this

/-- Every enabled atomic step preserves the ledger invariant. -/
theorem step_inv {s s' : State} {op : Op} {ev : Ev} (inv : Inv s) (h : step s op = some (s', ev)) :
    Inv s' := by
  cases op with
  | allocStart t slot ty cap =>
    simp only [step] at h
    split at h
    · cases h
    · next hcap =>
      have hcap : cap ≤ usizeMax := by omega
      split at h
      · cases h
      · split at h
        · split at h
          · simp only [Option.some.injEq, Prod.mk.injEq] at h
            obtain ⟨rfl, _⟩ := h
            exact inv
          · next c l hw =>
            simp only [Option.some.injEq, Prod.mk.injEq] at h
            obtain ⟨rfl, _⟩ := h
            obtain ⟨h1, h2⟩ := withCapacity_ok hw hcap
            exact InvF.fresh inv t slot ty cap c l h1 h2
        · simp only [Option.some.injEq, Prod.mk.injEq] at h
          obtain ⟨rfl, _⟩ := h
          refine InvF.rependPerm inv ?_ ?_
          · rw [transitBufs_append_none _ _ rfl]
          · intro e he
            rcases List.mem_append.mp he with h1 | h1
            · exact inv.pendOk e h1
            · simp only [List.mem_singleton] at h1
              subst h1; exact hcap
  | allocLock t =>
    simp only [step] at h
    split at h
    · next t' slot ty cap rest hex =>
      obtain ⟨hperm, _⟩ := extractFirst_perm hex
      have hpok : cap ≤ usizeMax := inv.pendOk _ (hperm.mem_iff.mpr List.mem_cons_self)
      have hrest : ∀ e ∈ rest, PendOk e := fun e he =>
        inv.pendOk e (hperm.mem_iff.mpr (List.mem_cons_of_mem _ he))
      have htr := transitBufs_perm_of_extract hperm rfl
      have inv1 : InvF s.pool s.held rest s.allocs s.freed := InvF.rependPerm inv htr hrest
      split at h
      · simp only [Option.some.injEq, Prod.mk.injEq] at h
        obtain ⟨rfl, _⟩ := h
        refine InvF.rependPerm inv ?_ ?_
        · rw [transitBufs_append_none _ _ rfl]; exact htr
        · intro e he
          rcases List.mem_append.mp he with h1 | h1
          · exact hrest e h1
          · simp only [List.mem_singleton] at h1
            subst h1; exact hpok
      · next i c hbf =>
        split at h
        · simp only [Option.some.injEq, Prod.mk.injEq] at h
          obtain ⟨rfl, _⟩ := h
          exact inv1
        · next b pool' hrm =>
          obtain ⟨hpp, hget⟩ := removeAt_perm hrm
          split at h
          · simp only [Option.some.injEq, Prod.mk.injEq] at h
            obtain ⟨rfl, _⟩ := h
            exact InvF.dropPooled inv1 hpp
          · next v hv =>
            simp only [Option.some.injEq, Prod.mk.injEq] at h
            obtain ⟨rfl, _⟩ := h
            -- the chosen buffer fits, hence its capacity is adequate
            have hspec := bestFit_spec s.pool ty cap
            rw [hbf] at hspec
            obtain ⟨b0, hget0, hfit, _, _, _⟩ := hspec
            rw [hget] at hget0
            cases hget0
            have hb := inv.poolOk b (hpp.mem_iff.mpr List.mem_cons_self)
            obtain ⟨_, _, _, hvc⟩ := intoVec_ok hb hv
            have hle : cap ≤ b.cap := by
              simp only [canFit, Bool.and_eq_true, decide_eq_true_eq] at hfit
              exact hfit.2
            exact InvF.hit inv1 hpp t slot hv (by rw [hvc]; exact le_vecCap hpok hle)
    · cases h
  | allocFallback t =>
    simp only [step] at h
    split at h
    · next t' slot ty cap rest hex =>
      obtain ⟨hperm, _⟩ := extractFirst_perm hex
      have hpok : cap ≤ usizeMax := inv.pendOk _ (hperm.mem_iff.mpr List.mem_cons_self)
      have hrest : ∀ e ∈ rest, PendOk e := fun e he =>
        inv.pendOk e (hperm.mem_iff.mpr (List.mem_cons_of_mem _ he))
      have htr := transitBufs_perm_of_extract hperm rfl
      have inv1 : InvF s.pool s.held rest s.allocs s.freed := InvF.rependPerm inv htr hrest
      split at h
      · simp only [Option.some.injEq, Prod.mk.injEq] at h
        obtain ⟨rfl, _⟩ := h
        exact inv1
      · next c l hw =>
        simp only [Option.some.injEq, Prod.mk.injEq] at h
        obtain ⟨rfl, _⟩ := h
        obtain ⟨h1, h2⟩ := withCapacity_ok hw hpok
        exact InvF.fresh inv1 t slot ty cap c l h1 h2
    · cases h
  | addStart t slot =>
    simp only [step] at h
    split at h
    · cases h
    · split at h
      · cases h
      · next hd rest hex =>
        simp only [Option.some.injEq] at h
        obtain ⟨hperm, _⟩ := extractFirst_perm hex
        have := startAdd_inv inv t hperm
        rw [h] at this
        exact this
  | addPush t =>
    simp only [step] at h
    split at h
    · next t' b rest hex =>
      simp only [Option.some.injEq, Prod.mk.injEq] at h
      obtain ⟨rfl, _⟩ := h
      obtain ⟨hperm, _⟩ := extractFirst_perm hex
      exact InvF.push inv hperm
    · cases h
  | dropVec t slot =>
    simp only [step] at h
    split at h
    · cases h
    · next hd rest hex =>
      simp only [Option.some.injEq, Prod.mk.injEq] at h
      obtain ⟨rfl, _⟩ := h
      obtain ⟨hperm, _⟩ := extractFirst_perm hex
      exact InvF.dropHeld inv hperm
  | poolRefDrop t slot =>
    simp only [step] at h
    split at h
    · cases h
    · split at h
      · cases h
      · next hd rest hex =>
        obtain ⟨hperm, _⟩ := extractFirst_perm hex
        split at h
        · simp only [Option.some.injEq] at h
          have := startAdd_inv inv t hperm
          rw [h] at this
          exact this
        · simp only [Option.some.injEq, Prod.mk.injEq] at h
          obtain ⟨rfl, _⟩ := h
          exact InvF.dropHeld inv hperm
  | dropPool =>
    simp only [step] at h
    split at h
    · simp only [Option.some.injEq, Prod.mk.injEq] at h
      obtain ⟨rfl, _⟩ := h
      exact InvF.dropAll inv
    · cases h

theorem init_inv (m : Nat) : Inv (init m) where
  once i := by simp [init, placesF, transitBufs]
  poolOk b hb := by cases hb
  transitOk b hb := by simp [init, transitBufs] at hb
  heldOk h hh := by cases hh
  freedOk e he := by cases he
  pendOk e he := by cases he

theorem run_inv {s s' : State} {ops : List Op} (inv : Inv s) (h : run s ops = some s') : Inv s' := by
  induction ops generalizing s with
  | nil => simp only [run, Option.some.injEq] at h; subst h; exact inv
  | cons op ops ih =>
    simp only [run] at h
    split at h
    · cases h
    · next s1 ev hs => exact ih (step_inv inv hs) h

end RtenVerif.Pool
