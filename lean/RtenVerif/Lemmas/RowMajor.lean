import RtenVerif.Lemmas.IterLayout
import RtenVerif.Lemmas.Layout

/-! C09: operations that keep the row-major element sequence (`merge_axes`, contiguous
`reshape`, `to_contiguous`, copies).  Uses C07's `rowMajor` lemmas (read-only import). -/
namespace RtenVerif.Layout
open RtenVerif.Arr RtenVerif.Overlap

theorem indices_eq_idxs (d : Dims) : indices d = idxs (sizes d) := by
  induction d with
  | nil => rfl
  | cons p ds ih =>
    obtain ⟨n, st⟩ := p
    simp only [indices, idxs, sizes, List.map_cons]
    simp only [sizes] at ih
    rw [ih]

theorem denote_data {α : Type} (v : View) (s : Nat → α) :
    (denote v s).data = (Iter.rowMajor v.dims).map (fun o => s (v.base + o)) := by
  simp only [denote, NArr.ofFn, Iter.rowMajor, indices_eq_idxs, List.map_map]
  rfl

theorem mergeStep_eq : mergeStep = Iter.mergeStep := by
  funext acc outer
  cases acc with
  | nil => rfl
  | cons p rest => obtain ⟨a, b⟩ := p; rfl

theorem mergeAxes_eq (d : Dims) : mergeAxes d = Iter.mergeAxes d := by
  unfold mergeAxes Iter.mergeAxes
  rw [mergeStep_eq]
  cases d.reverse with
  | nil => rfl
  | cons x xs => rfl

theorem total_eq_numel (d : Dims) : Iter.total d = numel (sizes d) := by
  induction d with
  | nil => rfl
  | cons p ds ih =>
    simp only [Iter.total, sizes, numel, List.map_cons, List.foldr_cons] at ih ⊢
    rw [ih]

theorem rowMajor_length' (d : Dims) : (Iter.rowMajor d).length = numel (sizes d) := by
  rw [Iter.rowMajor_length, total_eq_numel]

theorem sizes_contigDims (shape : List Nat) : sizes (contigDims shape) = shape := by
  induction shape with
  | nil => rfl
  | cons n ns ih =>
    simp only [sizes] at ih
    simp [contigDims, sizes, ih]

theorem contigR_contigDims (shape : List Nat) : contigR (contigDims shape) = some (numel shape) := by
  induction shape with
  | nil => rfl
  | cons n ns ih =>
    simp only [contigDims, contigR, ih, contigStep]
    by_cases h1 : n = 1
    · subst h1; simp [numel]
    · simp only [h1, if_false, ne_eq, not_true_eq_false]
      simp [numel, Nat.mul_comm]

/-- The row-major offsets of a contiguous layout are `0, 1, …, n-1`. -/
theorem rowMajor_contiguous (d : Dims) (h : isContiguous d = true) :
    Iter.rowMajor d = List.range (numel (sizes d)) := by
  rw [isContiguous_eq] at h
  obtain ⟨p, hp⟩ := Option.isSome_iff_exists.mp h
  obtain ⟨h1, _⟩ := Iter.contig_rowMajor d p hp
  have hl := rowMajor_length' d
  rw [h1, List.length_range] at hl
  rw [h1, hl]

theorem rowMajor_contigDims (shape : List Nat) :
    Iter.rowMajor (contigDims shape) = List.range (numel shape) := by
  obtain ⟨h1, _⟩ := Iter.contig_rowMajor _ _ (contigR_contigDims shape)
  exact h1

theorem idxs_length (shape : List Nat) : (idxs shape).length = numel shape := by
  have := rowMajor_length' (contigDims shape)
  rw [sizes_contigDims] at this
  rw [← this, Iter.rowMajor, List.length_map, indices_eq_idxs, sizes_contigDims]

theorem map_getD_range_list (l : List Nat) :
    (List.range l.length).map (fun o => l.getD (0 + o) 0) = l := by
  apply List.ext_getElem
  · simp
  · intro i h1 h2
    simp [List.getD_eq_getElem?_getD, List.getElem?_eq_getElem h2]

end RtenVerif.Layout
