import RtenVerif.Model.TensorBounds
import RtenVerif.Lemmas.Overlap

/-! Helper lemmas for C06 (bounds of the index → offset map; machine = ideal arithmetic). -/
namespace RtenVerif.TensorBounds
open RtenVerif.Overlap

/-! ### Ideal model: valid indices, offsets, `min_data_len` -/

theorem validIdx_iff (dims : List (Nat × Nat)) (idx : List Nat) :
    validIdx dims idx = true ↔ ValidIdx dims idx := by
  induction dims generalizing idx with
  | nil =>
    cases idx with
    | nil => exact ⟨fun _ => .nil, fun _ => rfl⟩
    | cons i is => exact ⟨fun h => by simp [validIdx] at h, fun h => by cases h⟩
  | cons d ds ih =>
    obtain ⟨size, stride⟩ := d
    cases idx with
    | nil => exact ⟨fun h => by simp [validIdx] at h, fun h => by cases h⟩
    | cons i is =>
      simp only [validIdx, Bool.and_eq_true, decide_eq_true_eq]
      constructor
      · rintro ⟨h1, h2⟩
        exact .cons h1 ((ih is).mp h2)
      · intro h
        cases h with
        | cons h1 h2 => exact ⟨h1, (ih is).mpr h2⟩

theorem valid_hasZero {dims : List (Nat × Nat)} {idx : List Nat} (h : ValidIdx dims idx) :
    hasZero dims = false := by
  induction h with
  | nil => rfl
  | @cons size stride i ds is hlt _ ih =>
    simp only [hasZero, List.any_cons, Bool.or_eq_false_iff, beq_eq_false_iff_ne] at *
    exact ⟨by omega, ih⟩

theorem valid_offset_le {dims : List (Nat × Nat)} {idx : List Nat} (h : ValidIdx dims idx) :
    offset dims idx ≤ maxOffset dims := by
  induction h with
  | nil => simp [offset, maxOffset]
  | @cons size stride i ds is hlt _ ih =>
    simp only [offset, maxOffset]
    have : i * stride ≤ (size - 1) * stride := Nat.mul_le_mul_right _ (by omega)
    omega

theorem valid_length {dims : List (Nat × Nat)} {idx : List Nat} (h : ValidIdx dims idx) :
    idx.length = dims.length := by
  induction h with
  | nil => rfl
  | cons _ _ ih => simp [ih]

/-! ### Products, contiguous layouts -/

/-- Product of the non-zero sizes (the quantity `checked_shape_len` bounds). -/
def prodNZ : List Nat → Nat
  | [] => 1
  | s :: ss => if s = 0 then prodNZ ss else s * prodNZ ss

theorem prodNZ_pos (l : List Nat) : 0 < prodNZ l := by
  induction l with
  | nil => simp [prodNZ]
  | cons s ss ih =>
    simp only [prodNZ]
    split
    · exact ih
    · exact Nat.mul_pos (by omega) ih

theorem prod_le_prodNZ (l : List Nat) : prod l ≤ prodNZ l := by
  induction l with
  | nil => simp [prod, prodNZ]
  | cons s ss ih =>
    simp only [prod, prodNZ]
    split
    · next h => simp [h]
    · exact Nat.mul_le_mul_left _ ih

theorem prodNZ_tail_le (s : Nat) (ss : List Nat) : prodNZ ss ≤ prodNZ (s :: ss) := by
  simp only [prodNZ]
  split
  · exact Nat.le_refl _
  · exact Nat.le_mul_of_pos_left _ (by omega)

def anyZero (l : List Nat) : Bool := l.any (fun s => s == 0)

theorem prod_of_anyZero {l : List Nat} (h : anyZero l = true) : prod l = 0 := by
  induction l with
  | nil => simp [anyZero] at h
  | cons s ss ih =>
    simp only [anyZero, List.any_cons, Bool.or_eq_true, beq_iff_eq] at h
    simp only [prod]
    rcases h with h | h
    · simp [h]
    · have := ih (by simpa [anyZero] using h)
      simp [this]

theorem prod_of_noZero {l : List Nat} (h : anyZero l = false) : prod l = prodNZ l := by
  induction l with
  | nil => rfl
  | cons s ss ih =>
    simp only [anyZero, List.any_cons, Bool.or_eq_false_iff, beq_eq_false_iff_ne] at h
    simp only [prod, prodNZ, if_neg h.1]
    rw [ih (by simpa [anyZero] using h.2)]

theorem checkedShapeLenGo_eq (ss : List Nat) (len : Nat) (e : Bool) (hlen : len ≤ isizeMax) :
    checkedShapeLenGo ss len e =
      if len * prodNZ ss ≤ isizeMax then
        some (if e || anyZero ss then 0 else len * prodNZ ss)
      else none := by
  induction ss generalizing len e with
  | nil => simp [checkedShapeLenGo, prodNZ, anyZero, hlen]
  | cons s ss ih =>
    simp only [checkedShapeLenGo]
    by_cases hs : s = 0
    · subst hs
      simp [ih _ _ hlen, prodNZ, anyZero]
    · simp only [hs, if_false, prodNZ]
      by_cases hle : len * s ≤ isizeMax
      · simp only [hle, if_true, ih _ _ hle, Nat.mul_assoc]
        have : anyZero (s :: ss) = anyZero ss := by simp [anyZero, hs]
        rw [this]
      · simp only [hle, if_false]
        have hp := prodNZ_pos ss
        have : ¬ len * (s * prodNZ ss) ≤ isizeMax := by
          rw [← Nat.mul_assoc]
          intro h
          exact hle (Nat.le_trans (Nat.le_mul_of_pos_right _ hp) h)
        simp [this]

theorem checkedShapeLen_eq (shape : List Nat) :
    checkedShapeLen shape =
      if prodNZ shape ≤ isizeMax then some (prod shape) else none := by
  unfold checkedShapeLen
  rw [checkedShapeLenGo_eq _ _ _ (by decide)]
  simp only [Nat.one_mul, Bool.false_or]
  split
  · congr 1
    cases h : anyZero shape
    · simp [prod_of_noZero h]
    · simp [prod_of_anyZero h]
  · rfl

theorem contigStrides_length (shape : List Nat) : (contigStrides shape).length = shape.length := by
  induction shape with
  | nil => rfl
  | cons s ss ih => simp [contigStrides, ih]

theorem shapeOf_contigDims (shape : List Nat) : shapeOf (contigDims shape) = shape := by
  induction shape with
  | nil => rfl
  | cons s ss ih =>
    simp only [contigDims, contigStrides, List.zip_cons_cons, shapeOf, List.map_cons] at *
    rw [ih]

theorem hasZero_eq_anyZero (dims : List (Nat × Nat)) : hasZero dims = anyZero (shapeOf dims) := by
  simp [hasZero, anyZero, shapeOf, List.any_map, Function.comp_def]

/-- Largest offset of a contiguous layout: at most `Π non-zero sizes − 1`. -/
theorem maxOffset_contig_lt (shape : List Nat) :
    maxOffset (contigDims shape) + 1 ≤ prodNZ shape := by
  induction shape with
  | nil => simp [contigDims, contigStrides, maxOffset, prodNZ]
  | cons s ss ih =>
    simp only [contigDims, contigStrides, List.zip_cons_cons, maxOffset, prodNZ] at *
    by_cases hs : s = 0
    · simp [hs]; exact ih
    · simp only [hs, if_false]
      obtain ⟨k, rfl⟩ : ∃ k, s = k + 1 := ⟨s - 1, by omega⟩
      have h1 : (k + 1 - 1) * prod ss ≤ k * prodNZ ss := by
        simp only [Nat.add_sub_cancel]
        exact Nat.mul_le_mul_left _ (prod_le_prodNZ ss)
      rw [Nat.succ_mul]
      omega

/-- A contiguous layout without empty dimension needs exactly `Π sizes` elements. -/
theorem maxOffset_contig_eq {shape : List Nat} (h : anyZero shape = false) :
    maxOffset (contigDims shape) + 1 = prod shape := by
  induction shape with
  | nil => simp [contigDims, contigStrides, maxOffset, prod]
  | cons s ss ih =>
    simp only [anyZero, List.any_cons, Bool.or_eq_false_iff, beq_eq_false_iff_ne] at h
    have ih := ih (by simpa [anyZero] using h.2)
    simp only [contigDims, contigStrides, List.zip_cons_cons, maxOffset, prod] at *
    obtain ⟨k, rfl⟩ : ∃ k, s = k + 1 := ⟨s - 1, by omega⟩
    simp only [Nat.add_sub_cancel]
    rw [Nat.succ_mul]
    omega

theorem minDataLen_contig (shape : List Nat) : minDataLen (contigDims shape) = prod shape := by
  unfold minDataLen
  rw [hasZero_eq_anyZero, shapeOf_contigDims]
  cases h : anyZero shape
  · simp [maxOffset_contig_eq h]
  · simp [prod_of_anyZero h]

theorem len_contig (shape : List Nat) : len (contigDims shape) = prod shape := by
  simp [len, shapeOf_contigDims]

/-- `is_contiguous` accepts every layout produced by `from_shape`. -/
theorem contigR_contigDims (shape : List Nat) :
    contigR (contigDims shape) = some (prod shape) := by
  induction shape with
  | nil => rfl
  | cons s ss ih =>
    simp only [contigDims, contigStrides, List.zip_cons_cons, contigR] at *
    rw [ih]
    simp only [contigStep, prod]
    by_cases h1 : s = 1
    · simp [h1]
    · simp [h1, Nat.mul_comm]

theorem mayOverlap_contig (shape : List Nat) : mayOverlap (contigDims shape) = false := by
  unfold mayOverlap
  split
  · rfl
  · have : isContiguous (contigDims shape) = true := by
      rw [isContiguous_eq, contigR_contigDims]; rfl
    simp [this]

theorem prod_eq_zero_iff (l : List Nat) : prod l = 0 ↔ anyZero l = true := by
  constructor
  · intro h
    cases hz : anyZero l
    · have := prod_of_noZero hz
      have := prodNZ_pos l
      omega
    · rfl
  · exact prod_of_anyZero

/-- What `checked_min_data_len` decides and computes. -/
theorem checkedMinDataLen_eq (dims : List (Nat × Nat)) :
    checkedMinDataLen dims =
      if prodNZ (shapeOf dims) ≤ isizeMax ∧ maxOffset dims < isizeMax then some (minDataLen dims)
      else none := by
  unfold checkedMinDataLen
  rw [checkedShapeLen_eq]
  by_cases h1 : prodNZ (shapeOf dims) ≤ isizeMax
  · simp only [h1, if_true, true_and]
    by_cases h2 : maxOffset dims < isizeMax
    · have : ¬ maxOffset dims ≥ isizeMax := by omega
      simp only [this, h2, if_false, if_true]
      congr 1
      unfold minDataLen
      rw [hasZero_eq_anyZero]
      cases hz : anyZero (shapeOf dims)
      · have : prod (shapeOf dims) ≠ 0 := fun h => by
          have := (prod_eq_zero_iff _).mp h
          simp [hz] at this
        simp [this]
      · simp [prod_of_anyZero hz]
    · have : maxOffset dims ≥ isizeMax := by omega
      simp [this, h2]
  · simp [h1]

end RtenVerif.TensorBounds
