import RtenVerif.Model.Ctc

/-! Helper lemmas for C39 (greedy collapse and beam distinctness). Core Lean only. -/
namespace RtenVerif.Ctc

/-! ## Greedy -/

theorem greedyLoop_eq_filter (ls : List Nat) : ∀ (pos last : Nat) (prev : Option Nat),
    (prev = some last ∨ (prev = none ∧ last = 0)) →
    greedyLoop pos last ls = (runStarts pos prev ls).filter (·.label ≠ 0) := by
  induction ls with
  | nil => intro pos last prev _; simp [greedyLoop, runStarts]
  | cons l ls ih =>
    intro pos last prev h
    by_cases hl : l = last
    · subst hl
      rcases h with h | ⟨h, h0⟩
      · subst h
        simp only [greedyLoop, runStarts, if_true]
        exact ih _ _ _ (Or.inl rfl)
      · subst h; subst h0
        simp only [greedyLoop, runStarts, if_true]
        rw [if_neg (by simp)]
        rw [List.filter_cons_of_neg (by simp)]
        exact ih _ _ _ (Or.inl rfl)
    · have hp : ¬ prev = some l := by
        rcases h with h | ⟨h, _⟩
        · subst h; intro hc; exact hl (Option.some.inj hc).symm
        · subst h; simp
      simp only [greedyLoop, runStarts, if_neg hl, if_neg hp]
      by_cases h0 : 0 < l
      · rw [if_pos h0, List.filter_cons_of_pos (by simp; omega)]
        rw [ih _ _ (some l) (Or.inl rfl)]
      · rw [if_neg h0, List.filter_cons_of_neg (by simp; omega)]
        exact ih _ _ (some l) (Or.inl rfl)

theorem dedupAdj_cons_eq (ls : List Nat) : ∀ (x pos : Nat),
    dedupAdj (x :: ls) = x :: labels (runStarts pos (some x) ls) := by
  induction ls with
  | nil => intro x pos; simp [dedupAdj, runStarts, labels]
  | cons y r ih =>
    intro x pos
    by_cases hxy : x = y
    · subst hxy
      simp only [dedupAdj, if_true, runStarts]
      exact ih _ _
    · have : ¬ (some x = some y) := by intro h; exact hxy (Option.some.inj h)
      simp only [dedupAdj, if_neg hxy, runStarts, if_neg this, labels, List.map_cons]
      rw [ih y (pos + 1)]
      rfl

theorem labels_runStarts (path : List Nat) : labels (runStarts 0 none path) = dedupAdj path := by
  cases path with
  | nil => simp [runStarts, labels, dedupAdj]
  | cons x ls =>
    rw [dedupAdj_cons_eq ls x 1]
    simp [runStarts, labels]

theorem labels_collapsePos (path : List Nat) : labels (collapsePos path) = collapse path := by
  unfold collapsePos collapse
  rw [← labels_runStarts]
  unfold labels
  rw [List.filter_map]
  rfl

/-! ## Generic list helpers -/

theorem foldl_inv {β σ : Type} (P : σ → Prop) (f : σ → β → σ) (l : List β) :
    ∀ (init : σ), P init → (∀ s x, x ∈ l → P s → P (f s x)) → P (l.foldl f init) := by
  induction l with
  | nil => intro init h _; exact h
  | cons a l ih =>
    intro init h hs
    simp only [List.foldl_cons]
    apply ih
    · exact hs _ _ (List.mem_cons_self) h
    · intro s x hx hp; exact hs s x (List.mem_cons_of_mem _ hx) hp

theorem nodup_map_of_inj_on {β γ κ : Type} (key : β → κ) (g : β → γ) (l : List β)
    (hk : (l.map key).Nodup)
    (hinj : ∀ a ∈ l, ∀ b ∈ l, g a = g b → key a = key b) : (l.map g).Nodup := by
  induction l with
  | nil => simp
  | cons a l ih =>
    simp only [List.map_cons, List.nodup_cons, List.mem_map, not_exists, not_and] at hk ⊢
    refine ⟨?_, ih hk.2 (fun x hx y hy h => hinj x (List.mem_cons_of_mem _ hx) y (List.mem_cons_of_mem _ hy) h)⟩
    intro b hb hg
    exact hk.1 b hb (hinj b (List.mem_cons_of_mem _ hb) a List.mem_cons_self hg)

/-! ## Beam: merge map -/

theorem lastIdxGo_isSome {β : Type} (p : β → Bool) (l : List β) : ∀ (i : Nat) (acc : Option Nat),
    (acc.isSome ∨ ∃ x ∈ l, p x = true) → (lastIdxGo p l i acc).isSome := by
  induction l with
  | nil => intro i acc h; rcases h with h | ⟨x, hx, _⟩
           · exact h
           · cases hx
  | cons a l ih =>
    intro i acc h
    simp only [lastIdxGo]
    apply ih
    by_cases hpa : p a = true
    · left; simp [hpa]
    · rcases h with h | ⟨x, hx, hpx⟩
      · left; simp [hpa, h]
      · rcases List.mem_cons.mp hx with rfl | hx
        · exact absurd hpx hpa
        · right; exact ⟨x, hx, hpx⟩

theorem mergeTarget_isSome {α} (beam : List (BState α)) (p1 : List Step) (l : Nat)
    (s2 : BState α) (h2 : s2 ∈ beam) (he : labels s2.pre = labels p1 ++ [l]) :
    (mergeTarget beam p1 l).isSome := by
  unfold mergeTarget
  apply lastIdxGo_isSome
  right
  exact ⟨s2, h2, by simp [extends1, he]⟩

/-! ## Beam: extension tables -/

/-- `(i, l)` is an extension that the merge map redirects to another state. -/
def Merged {α} (beam : List (BState α)) (i l : Nat) : Prop :=
  ∃ s, beam[i]? = some s ∧ (mergeTarget beam s.pre l).isSome

/-- Cells of non-blank extensions: `nb` is never written, `nnb` is not written for
redirected extensions. -/
def TabInv {α} (ops : Ops α) (beam : List (BState α)) (t : Tabs α) : Prop :=
  (∀ i l, l ≠ 0 → t.nb i l = ops.zero) ∧
  (∀ i l, l ≠ 0 → Merged beam i l → t.nnb i l = ops.zero)

theorem extLabel_inv {α} (ops : Ops α) (beam : List (BState α)) (row : List α) (bi : Nat)
    (s : BState α) (hs : beam[bi]? = some s) (t : Tabs α) (label : Nat)
    (h : TabInv ops beam t) : TabInv ops beam (extLabel ops beam row bi s t label) := by
  obtain ⟨h1, h2⟩ := h
  have key : ∀ (v : α) (nnb : Table α), (∀ i l, l ≠ 0 → Merged beam i l → nnb i l = ops.zero) →
      ∀ i l, l ≠ 0 → Merged beam i l →
      Table.upd nnb (match mergeTarget beam s.pre label with | some ti => (ti, 0) | none => (bi, label)).1
        (match mergeTarget beam s.pre label with | some ti => (ti, 0) | none => (bi, label)).2 v i l
        = ops.zero := by
    intro v nnb hn i l hl0 hm
    unfold Table.upd
    cases hmt : mergeTarget beam s.pre label with
    | some ti =>
      simp only
      rw [if_neg (by intro hc; exact hl0 hc.2)]
      exact hn i l hl0 hm
    | none =>
      simp only
      by_cases hc : i = bi ∧ l = label
      · exfalso
        obtain ⟨s', hs', hsome⟩ := hm
        rw [hc.1, hs] at hs'
        cases hs'
        rw [hc.2, hmt] at hsome
        cases hsome
      · rw [if_neg hc]; exact hn i l hl0 hm
  have key0 : ∀ (v : α) (nnb : Table α), (∀ i l, l ≠ 0 → Merged beam i l → nnb i l = ops.zero) →
      ∀ i l, l ≠ 0 → Merged beam i l → Table.upd nnb bi 0 v i l = ops.zero := by
    intro v nnb hn i l hl0 hm
    unfold Table.upd
    rw [if_neg (by intro hc; exact hl0 hc.2)]
    exact hn i l hl0 hm
  unfold extLabel
  simp only
  split
  · exact ⟨h1, key _ _ h2⟩
  · exact ⟨h1, key0 _ _ (key _ _ h2)⟩

theorem extState_inv {α} (ops : Ops α) (L : Nat) (beam : List (BState α)) (row : List α)
    (t : Tabs α) (sb : BState α × Nat) (hs : beam[sb.2]? = some sb.1)
    (h : TabInv ops beam t) : TabInv ops beam (extState ops L beam row t sb) := by
  unfold extState
  simp only
  apply foldl_inv (TabInv ops beam)
  · obtain ⟨h1, h2⟩ := h
    refine ⟨?_, h2⟩
    intro i l hl
    simp only [Table.upd]
    rw [if_neg (by intro hc; exact hl hc.2)]
    exact h1 i l hl
  · intro t' label _ ht'
    exact extLabel_inv ops beam row sb.2 sb.1 hs t' label ht'

theorem extendAll_inv {α} (ops : Ops α) (L : Nat) (beam : List (BState α)) (row : List α) :
    TabInv ops beam (extendAll ops L beam row) := by
  unfold extendAll
  apply foldl_inv (TabInv ops beam)
  · exact ⟨fun _ _ _ => rfl, fun _ _ _ _ => rfl⟩
  · intro t sb hmem ht
    exact extState_inv ops L beam row t sb (List.mem_zipIdx_iff_getElem?.mp hmem) ht

/-! ## Beam: selection -/

def Ext.key {α} (e : Ext α) : Nat × Nat := (e.index, e.label)

theorem mem_candidates {α} (ops : Ops α) (L n : Nat) (t : Tabs α) (e : Ext α)
    (h : e ∈ candidates ops L n t) :
    e.index < n ∧ e.label < L ∧ e.prob = ops.add (t.nb e.index e.label) (t.nnb e.index e.label) := by
  unfold candidates at h
  simp only [List.mem_flatMap, List.mem_map, List.mem_range] at h
  obtain ⟨bi, hbi, l, hl, rfl⟩ := h
  exact ⟨hbi, hl, rfl⟩

theorem candidates_keys_nodup {α} (ops : Ops α) (L n : Nat) (t : Tabs α) :
    ((candidates ops L n t).map Ext.key).Nodup := by
  unfold candidates List.Nodup
  rw [List.pairwise_map, List.pairwise_flatMap]
  constructor
  · intro bi _
    rw [List.pairwise_map]
    have := @List.nodup_range L
    unfold List.Nodup at this
    refine this.imp ?_
    intro a b hab hk
    simp [Ext.key] at hk
    exact hab hk
  · have := @List.nodup_range n
    unfold List.Nodup at this
    refine this.imp ?_
    intro a b hab x hx y hy hk
    simp only [List.mem_map] at hx hy
    obtain ⟨_, _, rfl⟩ := hx
    obtain ⟨_, _, rfl⟩ := hy
    simp [Ext.key] at hk
    exact hab hk.1

theorem insertDesc_perm {α} (ops : Ops α) (x : Ext α) (l : List (Ext α)) :
    (insertDesc ops x l).Perm (x :: l) := by
  induction l with
  | nil => exact List.Perm.refl _
  | cons y ys ih =>
    simp only [insertDesc]
    split
    · exact ((List.Perm.cons y ih).trans (List.Perm.swap x y ys))
    · exact List.Perm.refl _

theorem sortDesc_perm {α} (ops : Ops α) (l : List (Ext α)) : (sortDesc ops l).Perm l := by
  unfold sortDesc
  suffices h : ∀ (acc : List (Ext α)),
      (l.foldl (fun acc x => insertDesc ops x acc) acc).Perm (l.reverse ++ acc) by
    have := h []
    simp only [List.append_nil] at this
    exact this.trans (List.reverse_perm l)
  induction l with
  | nil => intro acc; exact List.Perm.refl _
  | cons a l ih =>
    intro acc
    simp only [List.foldl_cons, List.reverse_cons, List.append_assoc, List.singleton_append]
    exact (ih _).trans (List.Perm.append_left _ (insertDesc_perm ops a acc))

/-- What a selection step can do: the new list is a duplicate-free part of `topk ++ [c]`,
and `c` is only added when its probability is non-zero. -/
theorem pushExt_spec {α} (ops : Ops α) (B : Nat) (topk : List (Ext α)) (c : Ext α)
    (hnd : (topk.map Ext.key).Nodup) (hc : c.key ∉ topk.map Ext.key) :
    ((pushExt ops B topk c).map Ext.key).Nodup ∧
    ∀ e ∈ pushExt ops B topk c, e ∈ topk ∨ (e = c ∧ ops.isZero c.prob = false) := by
  unfold pushExt
  split
  · exact ⟨hnd, fun e he => Or.inl he⟩
  · rename_i hz
    split
    · have hperm := sortDesc_perm ops (topk ++ [c])
      have hsub : ((sortDesc ops (topk ++ [c])).take B).Sublist (sortDesc ops (topk ++ [c])) :=
        List.take_sublist _ _
      constructor
      · have h1 : ((topk ++ [c]).map Ext.key).Nodup := by
          rw [List.map_append, List.nodup_append]
          refine ⟨hnd, by simp, ?_⟩
          intro a ha b hb
          simp only [List.map_cons, List.map_nil, List.mem_singleton] at hb
          subst hb
          intro hab; subst hab; exact hc ha
        have h2 : ((sortDesc ops (topk ++ [c])).map Ext.key).Nodup :=
          (hperm.map Ext.key).symm.nodup h1
        exact (hsub.map Ext.key).nodup h2
      · intro e he
        have := hperm.subset (hsub.subset he)
        rcases List.mem_append.mp this with h | h
        · exact Or.inl h
        · right
          simp only [List.mem_singleton] at h
          exact ⟨h, by simpa using hz⟩
    · exact ⟨hnd, fun e he => Or.inl he⟩

theorem foldl_pushExt_spec {α} (ops : Ops α) (B : Nat) (cands : List (Ext α)) :
    ∀ (topk : List (Ext α)), (topk.map Ext.key).Nodup →
      (∀ e ∈ topk, e.key ∉ cands.map Ext.key) → ((cands.map Ext.key).Nodup) →
      ((cands.foldl (pushExt ops B) topk).map Ext.key).Nodup ∧
      ∀ e ∈ cands.foldl (pushExt ops B) topk,
        e ∈ topk ∨ (e ∈ cands ∧ ops.isZero e.prob = false) := by
  induction cands with
  | nil => intro topk h _ _; exact ⟨h, fun e he => Or.inl he⟩
  | cons c cs ih =>
    intro topk hnd hdis hcn
    simp only [List.foldl_cons]
    have hc : c.key ∉ topk.map Ext.key := by
      intro hmem
      obtain ⟨e, he, hk⟩ := List.mem_map.mp hmem
      exact hdis e he (by rw [hk]; simp)
    obtain ⟨p1, p2⟩ := pushExt_spec ops B topk c hnd hc
    simp only [List.map_cons, List.nodup_cons] at hcn
    have hdis' : ∀ e ∈ pushExt ops B topk c, e.key ∉ cs.map Ext.key := by
      intro e he
      rcases p2 e he with h | ⟨h, _⟩
      · intro hm; exact hdis e h (by simp [hm])
      · subst h; exact hcn.1
    obtain ⟨q1, q2⟩ := ih _ p1 hdis' hcn.2
    refine ⟨q1, ?_⟩
    intro e he
    rcases q2 e he with h | ⟨h, hz⟩
    · rcases p2 e h with h' | ⟨h', hz⟩
      · exact Or.inl h'
      · subst h'; exact Or.inr ⟨List.mem_cons_self, hz⟩
    · exact Or.inr ⟨List.mem_cons_of_mem _ h, hz⟩

/-! ## Beam: distinct prefixes -/

/-- The beam invariant of the code comment "Each state in the beam should have a unique
prefix after each step": label sequences are pairwise distinct. -/
def Distinct {α} (beam : List (BState α)) : Prop := (beam.map (fun s => labels s.pre)).Nodup

theorem distinct_idx {α} (beam : List (BState α)) (h : Distinct beam) (i j : Nat)
    (si sj : BState α) (hi : beam[i]? = some si) (hj : beam[j]? = some sj)
    (he : labels si.pre = labels sj.pre) : i = j := by
  unfold Distinct List.Nodup at h
  rw [List.pairwise_map, List.pairwise_iff_getElem] at h
  obtain ⟨hi', hi''⟩ := List.getElem?_eq_some_iff.mp hi
  obtain ⟨hj', hj''⟩ := List.getElem?_eq_some_iff.mp hj
  rcases Nat.lt_trichotomy i j with hlt | heq | hgt
  · exact absurd (by rw [hi'', hj'']; exact he) (h i j hi' hj' hlt)
  · exact heq
  · exact absurd (by rw [hi'', hj'']; exact he.symm) (h j i hj' hi' hgt)

theorem mkState_labels {α} (ops : Ops α) (beam : List (BState α)) (pos : Nat) (t : Tabs α)
    (e : Ext α) (s : BState α) (hs : beam[e.index]? = some s) :
    labels (mkState ops beam pos t e).pre =
      if e.label = 0 then labels s.pre else labels s.pre ++ [e.label] := by
  unfold mkState
  simp only [List.getD_eq_getElem?_getD, hs, Option.getD_some]
  split <;> simp [labels]

theorem beamStep_distinct {α} (ops : Ops α) (hz : ops.isZero (ops.add ops.zero ops.zero) = true)
    (B L : Nat) (beam : List (BState α)) (pos : Nat) (row : List α) (h : Distinct beam) :
    Distinct (beamStep ops B L beam pos row) := by
  unfold beamStep selectTopk
  simp only
  split
  · simp [Distinct]
  · unfold Distinct
    rw [List.map_map]
    have hinv := extendAll_inv ops L beam row
    generalize extendAll ops L beam row = t at hinv ⊢
    obtain ⟨q1, q2⟩ := foldl_pushExt_spec ops B (candidates ops L beam.length t) []
      (by simp) (by simp) (candidates_keys_nodup ops L beam.length t)
    generalize (candidates ops L beam.length t).foldl (pushExt ops B) [] = topk at q1 q2 ⊢
    -- facts about every selected extension
    have fact : ∀ e ∈ topk, ∃ s, beam[e.index]? = some s ∧ (e.label ≠ 0 → ¬ Merged beam e.index e.label) := by
      intro e he
      rcases q2 e he with hnil | ⟨hc, hnz⟩
      · cases hnil
      · obtain ⟨hidx, _, hprob⟩ := mem_candidates ops L beam.length t e hc
        refine ⟨beam[e.index], List.getElem?_eq_getElem hidx, ?_⟩
        intro hl hm
        rw [hprob, hinv.1 _ _ hl, hinv.2 _ _ hl hm, hz] at hnz
        cases hnz
    apply nodup_map_of_inj_on Ext.key _ topk q1
    intro a ha b hb hab
    obtain ⟨sa, hsa, hma⟩ := fact a ha
    obtain ⟨sb, hsb, hmb⟩ := fact b hb
    simp only [Function.comp] at hab
    rw [mkState_labels ops beam pos t a sa hsa, mkState_labels ops beam pos t b sb hsb] at hab
    have hmem : ∀ (i : Nat) (s : BState α), beam[i]? = some s → s ∈ beam :=
      fun i s hs => List.mem_of_getElem? hs
    by_cases hla : a.label = 0 <;> by_cases hlb : b.label = 0
    · rw [if_pos hla, if_pos hlb] at hab
      have := distinct_idx beam h _ _ sa sb hsa hsb hab
      simp [Ext.key, this, hla, hlb]
    · rw [if_pos hla, if_neg hlb] at hab
      exfalso
      exact hmb hlb ⟨sb, hsb, mergeTarget_isSome beam sb.pre b.label sa (hmem _ _ hsa) hab⟩
    · rw [if_neg hla, if_pos hlb] at hab
      exfalso
      exact hma hla ⟨sa, hsa, mergeTarget_isSome beam sa.pre a.label sb (hmem _ _ hsb) hab.symm⟩
    · rw [if_neg hla, if_neg hlb] at hab
      have h2 := List.append_inj' hab rfl
      have := distinct_idx beam h _ _ sa sb hsa hsb h2.1
      have hl : a.label = b.label := by simpa using h2.2
      simp [Ext.key, this, hl]

theorem beamLoop_distinct {α} (ops : Ops α) (hz : ops.isZero (ops.add ops.zero ops.zero) = true)
    (B L : Nat) (rows : List (List α)) : ∀ (beam : List (BState α)) (pos : Nat),
    Distinct beam → Distinct (beamLoop ops B L beam pos rows) := by
  induction rows with
  | nil => intro beam pos h; exact h
  | cons row rows ih =>
    intro beam pos h
    exact ih _ _ (beamStep_distinct ops hz B L beam pos row h)

theorem initBeam_distinct {α} (ops : Ops α) : Distinct (initBeam ops) := by
  simp [Distinct, initBeam]

end RtenVerif.Ctc
