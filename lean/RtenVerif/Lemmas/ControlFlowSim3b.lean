import RtenVerif.Lemmas.ControlFlowSim3

/-!
# In-place execution: candidates, `take_value` for `run_in_place`, input collection with a taken
value (C24.T1)
-/
namespace RtenVerif.ControlFlow

variable {P V : Type}

theorem look_erase_some (σ : Env V) (n m : Nat) (h : look (erase σ n) m ≠ none) : look σ m ≠ none :=
  fun hn => h (look_erase_none σ n m hn)

/-! ## `take_input` -/

theorem getInput_takeInput_none (env : List (Frame V)) (n m : Nat) (h : getInput env m = none) :
    getInput (takeInput env n).2 m = none := by
  cases env with
  | nil => simp [takeInput, getInput]
  | cons f ps =>
    simp only [takeInput]
    split
    · simp only [getInput] at h ⊢
      split at h
      · rename_i hl
        simp only [hl, if_true]
        cases ht : look f.tempRef m with
        | some v => rw [ht] at h; simp at h
        | none =>
          rw [ht] at h
          simp only [] at h ⊢
          cases hb : look f.byVal m with
          | some v => rw [hb] at h; simp at h
          | none =>
            rw [hb] at h
            simp only [] at h
            rw [look_erase_none _ _ _ hb]
            exact h
      · rename_i hl
        simp only [hl]
        exact h
    · exact h

theorem headOK_takeInput (env : List (Frame V)) (n : Nat) (h : headOK env) :
    headOK (takeInput env n).2 := by
  cases env with
  | nil => simp [takeInput, headOK]
  | cons f ps =>
    simp only [takeInput]
    split
    · intro k hk
      exact h k (look_erase_some _ _ _ hk)
    · exact h

theorem headByVal_takeInput (env : List (Frame V)) (n m : Nat)
    (h : look (headByVal (takeInput env n).2) m ≠ none) : look (headByVal env) m ≠ none := by
  cases env with
  | nil => simpa [takeInput, headByVal] using h
  | cons f ps =>
    simp only [takeInput] at h
    split at h
    · exact look_erase_some _ _ _ h
    · exact h

/-- What `take_input` hands out is what `get_input` would have shown. -/
theorem takeInput_value (env : List (Frame V)) (n : Nat) (h : headOK env)
    (hc : canTake env n = true) :
    ∃ v, (takeInput env n).1 = some v ∧ getInput env n = some v := by
  cases env with
  | nil => simp [canTake] at hc
  | cons f ps =>
    simp only [canTake, Bool.and_eq_true] at hc
    obtain ⟨hc1, hc2⟩ := hc
    cases hb : look f.byVal n with
    | none => rw [hb] at hc2; simp at hc2
    | some v =>
      obtain ⟨hloc, htr⟩ := h n (by simp [hb])
      refine ⟨v, ?_, ?_⟩
      · simp only [takeInput, hc1, if_true, hb]
      · simp only [getInput, hloc, if_true, htr, hb]

theorem takeValue_from_temp (gc : List Nat) (st : St V) (n : Nat) (v : V) (hrc : st.rc n = 1)
    (ht : look st.temp n = some v) :
    takeValue gc st n = (some v, { st with temp := erase st.temp n }) := by
  simp [takeValue, hrc, ht]

theorem takeValue_from_env (gc : List Nat) (st : St V) (n : Nat) (hrc : st.rc n = 1)
    (ht : look st.temp n = none) (hg : gc.contains n = true) :
    takeValue gc st n = ((takeInput st.env n).1, { st with env := (takeInput st.env n).2 }) := by
  have hg' : n ∈ gc := by simpa using hg
  simp [takeValue, hrc, ht, hg']

/-! ## candidates -/

theorem lastMax_mem (key : Nat → Nat) : ∀ (l : List (Nat × Nat)) (best : Option (Nat × Nat))
    (x : Nat × Nat), lastMax key l best = some x → x ∈ l ∨ best = some x
  | [], best, x, h => by simp [lastMax] at h; exact Or.inr h
  | y :: ys, none, x, h => by
    simp only [lastMax] at h
    rcases lastMax_mem key ys (some y) x h with h' | h'
    · exact Or.inl (List.mem_cons_of_mem _ h')
    · left; simp at h'; simp [h']
  | y :: ys, some b, x, h => by
    simp only [lastMax] at h
    split at h
    · rcases lastMax_mem key ys (some y) x h with h' | h'
      · exact Or.inl (List.mem_cons_of_mem _ h')
      · left; simp at h'; simp [h']
    · rcases lastMax_mem key ys (some b) x h with h' | h'
      · exact Or.inl (List.mem_cons_of_mem _ h')
      · exact Or.inr h'

/-- With at most one declared in-place input there is at most one candidate, and it names the
operator input at its position. -/
theorem candidates_spec (S : Sem P V) (k : P) (ins : List Nat) (temp : Env V)
    (h1 : (S.inPlaceIdx k).length ≤ 1) :
    candidates S k ins temp = [] ∨
      ∃ pos n, candidates S k ins temp = [(pos, n)] ∧ ins[pos]? = some n := by
  unfold candidates
  split
  · exact Or.inl rfl
  · split
    · cases hlm : lastMax (fun n => match look temp n with | some v => S.size v | none => 0)
          ((List.range ins.length).zip ins) none with
      | none => left; rfl
      | some x =>
        right
        refine ⟨x.1, x.2, rfl, ?_⟩
        rcases lastMax_mem _ _ _ _ hlm with hm | hm
        · obtain ⟨i, hi⟩ := List.mem_iff_getElem?.mp hm
          obtain ⟨hr, hins⟩ := List.getElem?_zip_eq_some.mp hi
          obtain ⟨hlt, heq⟩ := List.getElem?_eq_some_iff.mp hr
          simp at heq
          rw [← heq]; exact hins
        · simp at hm
    · cases hidx : S.inPlaceIdx k with
      | nil => left; rfl
      | cons p tl =>
        have htl : tl = [] := by
          rw [hidx] at h1
          cases tl with
          | nil => rfl
          | cons _ _ => simp at h1
        subst htl
        cases hp : ins[p]? with
        | none => left; simp [hp]
        | some n => right; exact ⟨p, n, by simp [hp], hp⟩

/-! ## collecting the inputs around one taken value -/

theorem count_one_unique : ∀ (l : List Nat) (n i j : Nat), l.count n = 1 → l[i]? = some n →
    l[j]? = some n → i = j
  | [], _, _, _, _, hi, _ => by simp at hi
  | a :: l, n, i, j, hc, hi, hj => by
    by_cases ha : a = n
    · subst ha
      have hz : l.count a = 0 := by simp [List.count_cons] at hc; exact hc
      have hnot : a ∉ l := List.count_eq_zero.mp hz
      cases i with
      | zero =>
        cases j with
        | zero => rfl
        | succ j => simp at hj; exact absurd (List.mem_of_getElem? hj) hnot
      | succ i => simp at hi; exact absurd (List.mem_of_getElem? hi) hnot
    · have hc' : l.count n = 1 := by simpa [List.count_cons, ha] using hc
      cases i with
      | zero => simp at hi; exact absurd hi ha
      | succ i =>
        cases j with
        | zero => simp at hj; exact absurd hj ha
        | succ j =>
          simp at hi hj
          rw [count_one_unique l n i j hc' hi hj]

theorem collect_single (views : Env V) (st st1 : St V) (pos n : Nat) (v : V)
    (hval : opLookup views st n = some v)
    (hoth : ∀ m, m ≠ n → opLookup views st1 m = opLookup views st m) :
    ∀ (ins' : List Nat) (p0 : Nat), (∀ i m, ins'[i]? = some m → (p0 + i = pos ↔ m = n)) →
      collect views st1 [(pos, v)] p0 ins' = lookups (opLookup views st) ins'
  | [], _, _ => rfl
  | m :: ms, p0, H => by
    have h0 := H 0 m (by simp)
    have ih := collect_single views st st1 pos n v hval hoth ms (p0 + 1)
      (fun i m' hm' => by
        have := H (i + 1) m' (by simpa using hm')
        rw [show p0 + 1 + i = p0 + (i + 1) by omega]; exact this)
    simp only [collect, lookups, look_cons, look]
    by_cases hp : pos = p0
    · subst hp
      have hmn : m = n := h0.mp (by omega)
      simp only [↓reduceIte]
      rw [ih, hmn, hval]
    · have hmn : m ≠ n := fun h => hp (by have := h0.mpr h; omega)
      simp only [hp, ↓reduceIte]
      rw [ih, hoth m hmn]

end RtenVerif.ControlFlow
