import RtenVerif.Driver.C08

/-- `rtenmodel <protocol>`: reads request lines on stdin, prints the model's answer per line. -/
def main (args : List String) : IO UInt32 := do
  match args with
  | ["C08"] => RtenVerif.Driver.C08.run; return 0
  | _ => IO.eprintln "usage: rtenmodel <protocol>"; return 2
